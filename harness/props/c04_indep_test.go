package props

import (
	"fmt"
	"regexp"
	"strconv"
	"strings"
)

// Independent, Format-driven SSA/ASS decoder (own section / Format / row
// splitter, own colour and time parsers). Booleans: non-zero means true (the
// specification's -1 and de-facto decoders agree); an empty cell means "absent".

var ssaTimeRe = regexp.MustCompile(`^(\d+):(\d{2}):(\d{2})\.(\d{2})$`)

func ssaParseTime(s string) (int64, error) {
	m := ssaTimeRe.FindStringSubmatch(strings.TrimSpace(s))
	if m == nil {
		return 0, fmt.Errorf("bad SSA time %q", s)
	}
	h, _ := strconv.ParseInt(m[1], 10, 64)
	mi, _ := strconv.ParseInt(m[2], 10, 64)
	se, _ := strconv.ParseInt(m[3], 10, 64)
	cs, _ := strconv.ParseInt(m[4], 10, 64)
	if mi > 59 || se > 59 {
		return 0, fmt.Errorf("minutes/seconds out of range in %q", s)
	}
	return ((h*60+mi)*60+se)*100 + cs, nil
}

func ssaParseColor(s string) (ssaColor, error) {
	var v int64
	var err error
	if strings.HasPrefix(s, "&H") || strings.HasPrefix(s, "&h") {
		v, err = strconv.ParseInt(strings.TrimSuffix(s[2:], "&"), 16, 64)
	} else {
		v, err = strconv.ParseInt(s, 10, 64)
	}
	if err != nil {
		return ssaColor{}, fmt.Errorf("bad colour %q", s)
	}
	u := uint32(v)
	return ssaColor{A: uint8(u >> 24), B: uint8(u >> 16), G: uint8(u >> 8), R: uint8(u)}, nil
}

func splitSSAText(text string) [][]ssaRun {
	text = strings.ReplaceAll(text, "\\N", "\\n")
	var lines [][]ssaRun
	for _, l := range strings.Split(text, "\\n") {
		var runs []ssaRun
		cur := ssaRun{}
		started := false
		for i := 0; i < len(l); {
			if l[i] == '{' {
				if end := strings.IndexByte(l[i:], '}'); end > 0 {
					if started {
						runs = append(runs, cur)
					}
					cur = ssaRun{Effect: l[i : i+end+1]}
					started = true
					i += end + 1
					continue
				}
			}
			cur.Text += l[i : i+1]
			started = true
			i++
		}
		if started {
			runs = append(runs, cur)
		}
		lines = append(lines, runs)
	}
	return lines
}

func decodeSSAIndep(b []byte) (ssaObs, error) {
	o := ssaObs{Info: map[string]string{}, Styles: map[string]ssaStyleM{}}
	text := strings.TrimPrefix(string(b), "\xef\xbb\xbf")
	section := ""
	var format []string
	known := map[string]bool{}
	for _, k := range ssaInfoKeys {
		known[k] = true
	}
	for _, raw := range splitLinesAny([]byte(text)) {
		line := strings.TrimSpace(raw)
		if line == "" {
			continue
		}
		if strings.HasPrefix(line, "[") && strings.HasSuffix(line, "]") {
			switch strings.ToLower(line) {
			case "[script info]":
				section = "info"
			case "[v4 styles]", "[v4+ styles]", "[v4 styles+]":
				section = "styles"
				format = nil
			case "[events]":
				section = "events"
				format = nil
			default:
				section = "other"
			}
			continue
		}
		if section == "other" || section == "" {
			continue
		}
		if line[0] == ';' {
			o.Comments = append(o.Comments, strings.TrimSpace(line[1:]))
			continue
		}
		colon := strings.IndexByte(line, ':')
		if colon <= 0 {
			continue
		}
		key, val := strings.TrimSpace(line[:colon]), strings.TrimSpace(line[colon+1:])
		switch section {
		case "info":
			if known[key] {
				if key == "Timer" {
					val = strings.ReplaceAll(val, ",", ".")
					f, err := strconv.ParseFloat(val, 64)
					if err != nil {
						return o, err
					}
					val = strconv.FormatFloat(f, 'f', -1, 64)
				}
				o.Info[key] = val
			}
		case "styles", "events":
			if key == "Format" {
				format = nil
				for _, c := range strings.Split(val, ",") {
					format = append(format, strings.TrimSpace(c))
				}
				continue
			}
			if format == nil {
				return o, fmt.Errorf("row before Format in %s", section)
			}
			cells := strings.Split(val, ",")
			if len(cells) < len(format) {
				return o, fmt.Errorf("row %q has %d cells, Format has %d", line, len(cells), len(format))
			}
			if section == "events" {
				cells = append(cells[:len(format)-1], strings.Join(cells[len(format)-1:], ","))
			} else if len(cells) != len(format) {
				return o, fmt.Errorf("style row %q has %d cells, Format has %d", line, len(cells), len(format))
			}
			if section == "styles" {
				st := ssaStyleM{Bools: map[string]bool{}, Colors: map[string]ssaColor{}, Floats: map[string]int64{}, Ints: map[string]int{}}
				for i, col := range format {
					v := cells[i]
					if col == "TertiaryColour" {
						col = "OutlineColour"
					}
					switch {
					case col == "Name":
						st.Name = v
					case col == "Fontname":
						if v != "" {
							f := v
							st.Fontname = &f
						}
					case v == "":
						// absent
					case contains(ssaBoolCols, col):
						n, err := strconv.Atoi(v)
						if err != nil {
							return o, fmt.Errorf("style %q: %s = %q is not a number", st.Name, col, v)
						}
						st.Bools[col] = n != 0
					case contains(ssaColorCols, col):
						c, err := ssaParseColor(v)
						if err != nil {
							return o, err
						}
						st.Colors[col] = c
					case contains(ssaFloatCols, col):
						f, err := strconv.ParseFloat(v, 64)
						if err != nil {
							return o, fmt.Errorf("style %q: %s = %q", st.Name, col, v)
						}
						st.Floats[col] = int64(f*1000 + 0.5*sign(f))
					case contains(ssaIntCols, col):
						n, err := strconv.Atoi(v)
						if err != nil {
							return o, fmt.Errorf("style %q: %s = %q", st.Name, col, v)
						}
						st.Ints[col] = n
					}
				}
				o.Styles[st.Name] = st
				continue
			}
			if key != "Dialogue" {
				continue
			}
			e := ssaEventM{}
			for i, col := range format {
				v := cells[i]
				var err error
				switch col {
				case "Start":
					e.Start, err = ssaParseTime(v)
				case "End":
					e.End, err = ssaParseTime(v)
				case "Layer":
					n, er := strconv.Atoi(strings.TrimSpace(v))
					err = er
					e.Layer = &n
				case "Marked":
					mk := strings.TrimSpace(v) == "Marked=1"
					e.Marked = &mk
				case "MarginL", "MarginR", "MarginV":
					n, er := strconv.Atoi(strings.TrimSpace(v))
					err = er
					switch col {
					case "MarginL":
						e.MarginL = &n
					case "MarginR":
						e.MarginR = &n
					default:
						e.MarginV = &n
					}
				case "Style":
					// a reference may carry a '*' prefix; a style whose own name starts with '*' is referenced as is
					e.Style = v
					if _, ok := o.Styles[v]; !ok {
						e.Style = strings.TrimPrefix(v, "*")
					}
				case "Name":
					e.Name = v
				case "Effect":
					e.Effect = v
				case "Text":
					e.Lines = splitSSAText(v)
				}
				if err != nil {
					return o, fmt.Errorf("event %q: column %s: %v", line, col, err)
				}
			}
			o.Events = append(o.Events, e)
		}
	}
	return o, nil
}

func contains(l []string, s string) bool {
	for _, x := range l {
		if x == s {
			return true
		}
	}
	return false
}

func sign(f float64) float64 {
	if f < 0 {
		return -1
	}
	return 1
}

package props

import (
	"bufio"
	"bytes"
	"encoding/binary"
	"fmt"
	"io"
	"os"
	"path/filepath"
	"strings"
	"syscall"
	"testing"
	"unicode/utf16"

	astisub "github.com/asticode/go-astisub"
	"pgregory.net/rapid"
)

// C17 - the parse result does not depend on how the reader delivers the bytes.

var allFormats = []string{"srt", "vtt", "ssa", "ttml", "stl", "ts"}

// docGen generates a document of the given format from the C01-C06 models.
func docGen(format string) *rapid.Generator[[]byte] {
	return rapid.Custom(func(t *rapid.T) []byte {
		switch format {
		case "srt":
			return renderSRT(genSRTDoc(t, srtTextOpts), genSRTRendering(t))
		case "vtt":
			return renderVTT(genVTTDoc(t, false), genVTTRendering(t))
		case "ssa":
			d, cols := genSSADoc(t, false)
			return renderSSA(d, genSSARendering(t, cols))
		case "ttml":
			return renderTTML(genTTMLDoc(t, false), genTTMLRendering(t))
		case "stl":
			b, _ := renderSTL(genSTLDoc(t, false))
			return b
		default:
			b, _ := genTTXStream(t).render()
			return b
		}
	})
}

func repoDir() string {
	if v := os.Getenv("VERIF_REPO"); v != "" {
		return v
	}
	return "/repo"
}

// goldenDocs returns the repository's own test inputs of a format.
func goldenDocs(format string) [][]byte {
	pat := map[string]string{"srt": "*.srt", "vtt": "*.vtt", "ssa": "*.ssa", "ttml": "*.ttml", "stl": "*.stl"}[format]
	if pat == "" {
		return nil
	}
	names, _ := filepath.Glob(filepath.Join(repoDir(), "testdata", pat))
	var out [][]byte
	for _, n := range names {
		if b, err := os.ReadFile(n); err == nil {
			out = append(out, b)
		}
	}
	return out
}

type readOpts struct {
	Page      int  `json:"page,omitempty"`
	PID       int  `json:"pid,omitempty"`
	IgnoreTCP bool `json:"ignore_tcp,omitempty"`
	// SSAEntry: 1 = ReadFromSSAWithOptions with the zero options (no callback), 2 = with both callbacks set
	SSAEntry int `json:"ssa_entry,omitempty"`
}

func readFormat(format string, r io.Reader, o readOpts) (*astisub.Subtitles, error) {
	switch format {
	case "srt":
		return astisub.ReadFromSRT(r)
	case "vtt":
		return astisub.ReadFromWebVTT(r)
	case "ssa":
		switch o.SSAEntry {
		case 1:
			return astisub.ReadFromSSAWithOptions(r, astisub.SSAOptions{})
		case 2:
			return astisub.ReadFromSSAWithOptions(r, astisub.SSAOptions{OnUnknownSectionName: func(string) {}, OnInvalidLine: func(string) {}})
		}
		return astisub.ReadFromSSA(r)
	case "ttml":
		return astisub.ReadFromTTML(r)
	case "stl":
		return astisub.ReadFromSTL(r, astisub.STLOptions{IgnoreTimecodeStartOfProgramme: o.IgnoreTCP})
	case "ts":
		return astisub.ReadFromTeletext(r, astisub.TeletextOptions{Page: o.Page, PID: o.PID})
	}
	return nil, fmt.Errorf("unknown format %s", format)
}

// schedReader delivers data in the chunk sizes of the schedule; after the list is
// used up the rest is delivered in reads as large as the caller allows. A chunk
// of 0 is a zero-length read (n=0, err=nil). withEOF: the last bytes come together with io.EOF.
type schedReader struct {
	data    []byte
	pos     int
	chunks  []int
	idx     int
	withEOF bool
}

func (r *schedReader) Read(p []byte) (int, error) {
	if r.pos >= len(r.data) {
		return 0, io.EOF
	}
	if len(p) == 0 {
		return 0, nil
	}
	n := len(p)
	if r.idx < len(r.chunks) {
		c := r.chunks[r.idx]
		r.idx++
		if c == 0 {
			return 0, nil
		}
		if c < n {
			n = c
		}
	}
	if n > len(r.data)-r.pos {
		n = len(r.data) - r.pos
	}
	copy(p, r.data[r.pos:r.pos+n])
	r.pos += n
	if r.withEOF && r.pos == len(r.data) {
		return n, io.EOF
	}
	return n, nil
}

// seekSchedReader adds Seek (the teletext reader rewinds when it can).
type seekSchedReader struct{ *schedReader }

func (r seekSchedReader) Seek(off int64, whence int) (int64, error) {
	if whence != io.SeekStart {
		return 0, fmt.Errorf("unsupported whence")
	}
	r.pos = int(off)
	return off, nil
}

type c17Case struct {
	Format   string   `json:"format"`
	Doc      []byte   `json:"doc"`
	Chunks   []int    `json:"chunks"`
	WithEOF  bool     `json:"with_eof"`
	Seekable bool     `json:"seekable"`
	Opts     readOpts `json:"opts"`
	// CrossCap (transport streams whose first two packets are null packets): the result is also compared with the one
	// read through a reader of the other kind (seekable / not). The third-party demultiplexer drops the first two
	// packets of a stream it cannot rewind; here they hold nothing, so the byte sequence decides alone.
	CrossCap bool `json:"cross_capability,omitempty"`
	// ViaOpen (with Seekable): the same bytes in a regular file read through the file-level opener - a file is a
	// seekable stream delivering what the operating system hands out
	ViaOpen bool `json:"via_open,omitempty"`
}

// tsNullPacket is a transport-stream packet of PID 0x1fff (stuffing).
func tsNullPacket() []byte {
	return append([]byte{0x47, 0x1f, 0xff, 0x10}, bytes.Repeat([]byte{0xff}, 184)...)
}

// widenTS makes every 188-byte packet extra bytes longer (192- and 204-byte packets exist), in the layout the
// third-party demultiplexer understands: the sync byte, the extra bytes, then the rest of the packet.
func widenTS(doc []byte, extra int) []byte {
	var out []byte
	for len(doc) >= 188 {
		out = append(out, doc[0])
		out = append(out, bytes.Repeat([]byte{0xff}, extra)...)
		out = append(out, doc[1:188]...)
		doc = doc[188:]
	}
	return append(out, doc...)
}

func init() { register("c17", checkC17) }

func (c c17Case) reader(chunks []int, withEOF bool) io.Reader {
	sr := &schedReader{data: c.Doc, chunks: chunks, withEOF: withEOF}
	if c.Seekable {
		return seekSchedReader{sr}
	}
	return sr
}

// readCanon reads and dumps; a crash of the reader is C08's subject, here it is one more possible outcome
// that must not depend on the delivery either.
func readCanon(format string, r io.Reader, o readOpts) (out string) {
	defer func() {
		if rec := recover(); rec != nil {
			out = "PANIC"
		}
	}()
	return canonResult(readFormat(format, r, o))
}

func checkC17(c c17Case) string {
	ref := readCanon(c.Format, c.reader(nil, false), c.Opts)
	// other documents read in between (left-overs of a reader's final state) are no part of the byte sequence either
	for _, p := range poisonDocs[c.Format] {
		_ = readCanon(c.Format, bytes.NewReader(p), readOpts{})
	}
	// the readers of the standard library that know their size or can seek are deliveries like any other
	std := map[string]io.Reader{"bytes.Buffer": bytes.NewBuffer(append([]byte(nil), c.Doc...)), "bufio.Reader": bufio.NewReader(bytes.NewReader(c.Doc))}
	if !c.Seekable && c.Format != "ts" {
		// buffered readers whose buffer is smaller than a line, a block or a header of the format (16 bytes is the
		// smallest bufio allows), over everything at once and over the case's own delivery schedule
		std["bufio.Reader with a 16-byte buffer"] = bufio.NewReaderSize(bytes.NewReader(c.Doc), 16)
		std["bufio.Reader with a 100-byte buffer"] = bufio.NewReaderSize(bytes.NewReader(c.Doc), 100)
		std["bufio.Reader with a 1000-byte buffer over the scheduled delivery"] = bufio.NewReaderSize(c.reader(c.Chunks, c.WithEOF), 1000)
	}
	if c.Seekable {
		std = map[string]io.Reader{"bytes.Reader": bytes.NewReader(c.Doc), "strings.Reader": strings.NewReader(string(c.Doc))}
	} else if c.Format == "ts" {
		// the third-party demultiplexer peeks into a *bufio.Reader where it consumes from any other reader that cannot
		// rewind: what such readers yield is its business, not a matter of delivery
		delete(std, "bufio.Reader")
	}
	if c.Seekable && c.Format != "ts" {
		// a seekable reader handed over at the offset where the document starts (a subtitle track inside a container,
		// say): what lies before that offset is none of the reader's business
		prefix := []byte("RIFF....junk that precedes the document\r\n\x00\x01\x02")
		rs := bytes.NewReader(append(append([]byte(nil), prefix...), c.Doc...))
		_, _ = rs.Seek(int64(len(prefix)), io.SeekStart)
		std["bytes.Reader positioned at the start of the document, after other content"] = rs
	}
	for name, r := range std {
		if got := readCanon(c.Format, r, c.Opts); got != ref {
			return fmt.Sprintf("%s document of %d bytes: the result read from a %s differs from the result read from a plain io.Reader delivering everything at once\n--- plain reader ---\n%s\n--- %s ---\n%s",
				c.Format, len(c.Doc), name, clip(ref, 700), name, clip(got, 700))
		}
	}
	if c.ViaOpen && c.Seekable {
		if dir, err := os.MkdirTemp("", "c17open"); err == nil {
			ext := map[string]string{"ssa": []string{"ssa", "ass"}[len(c.Doc)%2]}[c.Format]
			if ext == "" {
				ext = c.Format
			}
			p := filepath.Join(dir, "in."+ext)
			var got string
			if os.WriteFile(p, c.Doc, 0o644) == nil {
				got = func() (out string) {
					defer func() {
						if rec := recover(); rec != nil {
							out = "PANIC"
						}
					}()
					return canonResult(astisub.Open(astisub.Options{Filename: p, STL: astisub.STLOptions{IgnoreTimecodeStartOfProgramme: c.Opts.IgnoreTCP}, Teletext: astisub.TeletextOptions{Page: c.Opts.Page, PID: c.Opts.PID}}))
				}()
			}
			os.RemoveAll(dir)
			if got != "" && got != ref {
				return fmt.Sprintf("%s document of %d bytes: the result of Open on a regular file holding these bytes differs from the result read from a seekable reader over them (options %+v)\n--- reader ---\n%s\n--- Open ---\n%s", c.Format, len(c.Doc), c.Opts, clip(ref, 700), clip(got, 700))
			}
		}
	}
	if c.CrossCap && c.Format == "ts" {
		o := c
		o.Seekable = !c.Seekable
		if got := readCanon(c.Format, o.reader(c.Chunks, c.WithEOF), c.Opts); got != ref {
			return fmt.Sprintf("ts stream of %d bytes starting with two null packets: the result read through a reader that can%s rewind differs from the one read through a reader that can%s\n--- first ---\n%s\n--- other ---\n%s",
				len(c.Doc), map[bool]string{true: "", false: "not"}[c.Seekable], map[bool]string{true: "", false: "not"}[o.Seekable], clip(ref, 700), clip(got, 700))
		}
	}
	got := readCanon(c.Format, c.reader(c.Chunks, c.WithEOF), c.Opts)
	if ref != got {
		return fmt.Sprintf("%s document of %d bytes: result under delivery schedule %v (data together with EOF: %v, seekable: %v) differs from the all-at-once result\n--- all at once ---\n%s\n--- scheduled ---\n%s",
			c.Format, len(c.Doc), clipInts(c.Chunks), c.WithEOF, c.Seekable, clip(ref, 700), clip(got, 700))
	}
	return ""
}

func clipInts(a []int) string {
	if len(a) > 12 {
		return fmt.Sprintf("%v... (%d chunks)", a[:12], len(a))
	}
	return fmt.Sprint(a)
}

// splitKind classifies a split offset for the non-trivial rule.
func splitKind(format string, doc []byte, k int) string {
	if k <= 0 || k >= len(doc) {
		return ""
	}
	switch format {
	case "stl":
		if k != 1024 && (k < 1024 || (k-1024)%128 != 0) {
			return "inside-block"
		}
	case "ts":
		if k%188 != 0 {
			return "inside-packet"
		}
	default:
		if doc[k-1] == '\r' && doc[k] == '\n' {
			return "inside-crlf"
		}
		if doc[k]&0xc0 == 0x80 {
			return "inside-rune"
		}
		if format == "ttml" {
			return "inside-xml"
		}
	}
	return ""
}

func TestC17(t *testing.T) {
	runWitnesses(t, "C17")

	// Exhaustive: every single split point of representative documents (goldens, generated, CRLF-heavy, invalid).
	sub(t, "splits", func(t *testing.T) {
		nDocs := tier(4, 60)
		job := 0
		total := 0
		for _, format := range allFormats {
			var docs [][]byte
			for _, g := range goldenDocs(format) {
				if len(g) <= 6000 {
					docs = append(docs, g)
				}
			}
			if !thorough() && len(docs) > 3 {
				docs = docs[:3]
			}
			gen := docGen(format)
			for i := 0; len(docs) < nDocs+3 && i < 400; i++ {
				d := gen.Example(i + 1)
				if len(d) > 0 && len(d) <= 4096 {
					docs = append(docs, d)
				}
			}
			// CRLF-heavy and invalid variants of the text formats
			if format == "srt" || format == "vtt" || format == "ssa" {
				base := docs[0]
				crlf := bytes.ReplaceAll(bytes.ReplaceAll(bytes.ReplaceAll(base, []byte("\r\n"), []byte("\n")), []byte("\r"), []byte("\n")), []byte("\n"), []byte("\r\n"))
				if len(crlf) <= 6000 {
					docs = append(docs, crlf)
				}
				// and with the line ends some old converters leave behind: CR CR LF
				if crcrlf := bytes.ReplaceAll(crlf, []byte("\r\n"), []byte("\r\r\n")); len(crcrlf) <= 6000 {
					docs = append(docs, crcrlf)
				}
			}
			if len(docs) > 0 {
				d := docs[len(docs)-1]
				docs = append(docs, d[:len(d)*2/3]) // truncated: may be invalid
			}
			if format == "srt" || format == "vtt" || format == "ssa" {
				// text in a single-byte encoding (Latin-1 / Windows-1252): lone lead bytes, lone continuation bytes and
				// overlong forms between ASCII - not UTF-8; accepted or refused, the same way under every delivery
				// (a single offending byte in the first set: a reader that looks at the bytes chunk by chunk sees it whole or not at all)
				docs = append(docs, []byte(map[string]string{
					"srt": "1\n00:00:01,000 --> 00:00:02,000\ncaf\xe9 au lait\n\n2\n00:00:03,000 --> 00:00:04,000\nplain\n",
					"vtt": "WEBVTT\n\n00:00:01.000 --> 00:00:02.000\ncaf\xe9 au lait\n\n00:00:03.000 --> 00:00:04.000\nplain\n",
					"ssa": "[Script Info]\nTitle: t\n\n[Events]\nFormat: Marked, Start, End, Text\nDialogue: Marked=0,0:00:01.00,0:00:02.00,caf\xe9 au lait\nDialogue: Marked=0,0:00:03.00,0:00:04.00,plain\n",
				}[format]), []byte(map[string]string{
					"srt": "1\n00:00:01,000 --> 00:00:02,000\nplain\n\n2\n00:00:03,000 --> 00:00:04,000\nna\xc3ve\n",
					"vtt": "WEBVTT\n\n00:00:01.000 --> 00:00:02.000\nplain\n\n00:00:03.000 --> 00:00:04.000\nna\xc3ve\n",
					"ssa": "[Script Info]\nTitle: t\n\n[Events]\nFormat: Marked, Start, End, Text\nDialogue: Marked=0,0:00:01.00,0:00:02.00,plain\nDialogue: Marked=0,0:00:03.00,0:00:04.00,na\xc3ve\n",
				}[format]))
				docs = append(docs, []byte(map[string]string{
					"srt": "1\n00:00:01,000 --> 00:00:02,000\ncaf\xe9 au lait\n\n2\n00:00:03,000 --> 00:00:04,000\nplain\n\n3\n00:00:05,000 --> 00:00:06,000\n\x80 \xe9\xe8 \xc0\x80 \xf0\x9f\x98 x\n",
					"vtt": "WEBVTT\n\n00:00:01.000 --> 00:00:02.000\ncaf\xe9 au lait\n\n00:00:03.000 --> 00:00:04.000\nplain\n\n00:00:05.000 --> 00:00:06.000\n\x80 \xe9\xe8 \xc0\x80 \xf0\x9f\x98 x\n",
					"ssa": "[Script Info]\nTitle: caf\xe9\n\n[Events]\nFormat: Marked, Start, End, Text\nDialogue: Marked=0,0:00:01.00,0:00:02.00,caf\xe9 au lait\nDialogue: Marked=0,0:00:03.00,0:00:04.00,\x80 \xe9\xe8 \xc0\x80 \xf0\x9f\x98 x\n",
				}[format]))
			}
			if format == "srt" || format == "vtt" || format == "ssa" {
				// the same text in UTF-16 (with a byte-order mark), holding characters outside the BMP: whatever the reader
				// makes of it, it makes the same of it under every delivery
				src := []rune(map[string]string{
					"srt": "1\r\n00:00:01,000 --> 00:00:02,000\r\nHello \U0001F600 world \U00010348\r\n",
					"vtt": "WEBVTT\r\n\r\nNOTE \U0001F600\r\n\r\n00:00:01.000 --> 00:00:02.000\r\n<v B\U00010348b>Hello \U0001F600 world\r\n",
					"ssa": "[Script Info]\r\nTitle: Smile \U0001F600\r\n\r\n[Events]\r\nFormat: Marked, Start, End, Text\r\nDialogue: Marked=0,0:00:01.00,0:00:02.00,Hello \U0001F600 world \U00010348\r\n",
				}[format])
				for i, order := range []binary.ByteOrder{binary.LittleEndian, binary.BigEndian} {
					{
						u := []byte{0xff, 0xfe}
						if i == 1 {
							u = []byte{0xfe, 0xff}
						}
						for _, v := range utf16.Encode(src) {
							var w [2]byte
							order.PutUint16(w[:], v)
							u = append(u, w[0], w[1])
						}
						if len(u) <= 6000 {
							docs = append(docs, u)
						}
					}
				}
			}
			// control characters inside and after the text (Ctrl-Z as DOS tools leave it, NUL, form feed, escape): bytes like
			// any others as far as delivery goes
			switch format {
			case "srt":
				docs = append(docs, []byte("1\n00:00:01,000 --> 00:00:02,000\nfirst \x1a cue\n\n2\n00:00:03,000 --> 00:00:04,000\nsec\x00ond\x0c\n\n3\n00:00:05,000 --> 00:00:06,000\nthird \x1b[0m\n\x1a"))
			case "vtt":
				docs = append(docs, []byte("WEBVTT\n\n00:00:01.000 --> 00:00:02.000\nfirst \x1a cue\n\n00:00:03.000 --> 00:00:04.000\nsec\x00ond\x0c\n\n00:00:05.000 --> 00:00:06.000\nthird \x1b[0m\n\x1a\x1a"))
			case "ssa":
				docs = append(docs, []byte("[Script Info]\nTitle: t\x1az\n\n[Events]\nFormat: Marked, Start, End, Style, Name, MarginL, MarginR, MarginV, Effect, Text\nDialogue: Marked=0,0:00:01.00,0:00:02.00,,,0,0,0,,first \x1a cue\nDialogue: Marked=0,0:00:03.00,0:00:04.00,,,0,0,0,,sec\x00ond\x0c\nDialogue: Marked=0,0:00:05.00,0:00:06.00,,,0,0,0,,third\n\x1a"))
			}
			if format == "ttml" {
				// characters XML does not allow (U+FFFE, U+FFFF, a C0 control) and the last ones it does (U+FFFD, U+E000)
				docs = append(docs, []byte("<tt xmlns=\"http://www.w3.org/ns/ttml\"><body><div><p begin=\"00:00:01.000\" end=\"00:00:02.000\">a\ufffd\ue000b</p><p begin=\"00:00:03.000\" end=\"00:00:04.000\">c\uffffd\ufffee\x01</p></div></body></tt>"))
				// an entity XML does not know (rejected, the same way under every delivery)
				docs = append(docs, []byte(`<tt xmlns="http://www.w3.org/ns/ttml"><body><div><p begin="00:00:01.000" end="00:00:02.000">a&nbsp;b &amp; c&nbsp;</p></div></body></tt>`))
			}
			if format == "ttml" {
				// CR LF line ends inside text that is kept verbatim (title, copyright) and inside paragraphs
				docs = append(docs, []byte("<?xml version=\"1.0\" encoding=\"UTF-8\"?>\r\n<tt xmlns=\"http://www.w3.org/ns/ttml\" xmlns:ttm=\"http://www.w3.org/ns/ttml#metadata\">\r\n  <head>\r\n    <metadata>\r\n      <ttm:title>A title\r\nover two lines</ttm:title>\r\n      <ttm:copyright>(c)\r\n\r\nsomeone</ttm:copyright>\r\n    </metadata>\r\n  </head>\r\n  <body>\r\n    <div>\r\n      <p begin=\"00:00:01.000\" end=\"00:00:02.000\">first\r\n        <br/>second</p>\r\n    </div>\r\n  </body>\r\n</tt>\r\n"))
			}
			if format == "ttml" && len(docs) > 0 {
				// something after the root element: a comment, a processing instruction, a second root, junk
				for i, tail := range []string{"\n<!-- trailing comment -->\n", "<?app done?>", "\n<tt xmlns=\"http://www.w3.org/ns/ttml\"><body><div><p begin=\"1s\" end=\"2s\">second root</p></div></body></tt>", "junk after the document <"} {
					if thorough() || i%2 == int(cfgSeed%2) {
						docs = append(docs, append(append([]byte(nil), docs[0]...), tail...))
					}
				}
			}
			if format == "stl" {
				// a file with a user-data block between two subtitle blocks
				for i := 1; i < 200; i++ {
					d := gen.Example(1000 + i)
					ud := false
					for o := 1024; o+256 <= len(d); o += 128 {
						ud = ud || d[o+3] == 0xfe
					}
					if ud && len(d) <= 4096 {
						docs = append(docs, d)
						break
					}
				}
			}
			for _, doc := range docs {
				for _, seekable := range []bool{true, false} {
					if job%cfgShards == cfgShard {
						c := c17Case{Format: format, Doc: doc, Seekable: seekable}
						ref := readCanon(format, c.reader(nil, false), c.Opts)
						for k := 0; k <= len(doc); k++ {
							for _, withEOF := range []bool{false, true} {
								if withEOF && k%7 != 0 {
									continue
								}
								c.Chunks, c.WithEOF = []int{k}, withEOF
								if k == 0 {
									c.Chunks = []int{0, 1}
								}
								kind := splitKind(format, doc, k)
								ev.CaseH(kind != "", mix(strHash(string(doc)), uint64(k), b2u(withEOF), b2u(seekable)), "split", "format-"+format, kind)
								total++
								if got := readCanon(format, c.reader(c.Chunks, withEOF), c.Opts); got != ref {
									cc := c
									cc.Chunks = append([]int(nil), c.Chunks...)
									verdict(t, "C17", "c17", cc, checkC17)
								}
							}
						}
						ev.Sample("split-"+format, map[string]any{"format": format, "document": clip(string(doc), 300), "bytes": len(doc), "schedules": "every split point k: chunks [k] then the rest"})
						// one-byte reads and halves; for the two block formats also a long run of empty reads in the middle of
						// a block (the block readers wait for their bytes; a line scanner may give up on such a stream, which
						// is its documented limit, not a matter of this property)
						scheds := [][]int{ones(len(doc)), {len(doc) / 2}, {1, 0, 0, 1, 0, 2}}
						if format == "stl" || format == "ts" {
							run := append([]int{len(doc)/2 + 3}, make([]int, 150)...)
							scheds = append(scheds, append(run, 5), append(append([]int{7}, make([]int, 101)...), 1))
						}
						for _, ch := range scheds {
							c.Chunks, c.WithEOF = ch, false
							ev.CaseH(true, mix(strHash(string(doc)), uint64(len(ch)), 77), "one-byte-or-half", "format-"+format)
							verdict(t, "C17", "c17", c, checkC17)
							c.WithEOF = true
							verdict(t, "C17", "c17", c, checkC17)
						}
					}
					job++
				}
			}
		}
		ev.Note("exhaustive-splits", fmt.Sprintf("every single split point (and every 7th one with data+EOF) of the documents of this shard: %d reads compared with the all-at-once result", total))
	})

	// Transport streams of a few packets only (the demultiplexer reads its first two packets on their own): every prefix
	// of 1..8 packets of generated streams and two null packets, with and without the PID, from both kinds of reader,
	// whole / whole with EOF / byte by byte / halves.
	sub(t, "short-streams", func(t *testing.T) {
		if cfgShard != 0 {
			return
		}
		gen := docGen("ts")
		streams := [][]byte{append(tsNullPacket(), tsNullPacket()...)}
		for i := 0; i < tier(3, 12); i++ {
			streams = append(streams, gen.Example(500+i))
		}
		for si, full := range streams {
			for n := 1; n <= 8 && n*188 <= len(full); n++ {
				doc := full[:n*188]
				for _, pid := range []int{0, ttxPID} {
					for _, seekable := range []bool{false, true} {
						for k, ch := range [][]int{{len(doc)}, ones(len(doc)), {len(doc) / 2}, {188}, {376}, {193}} {
							for _, withEOF := range []bool{true, false} {
								c := c17Case{Format: "ts", Doc: doc, Seekable: seekable, Chunks: ch, WithEOF: withEOF, Opts: readOpts{PID: pid}}
								ev.CaseH(true, mix(uint64(si), uint64(n), uint64(pid), b2u(seekable), uint64(k), b2u(withEOF)), "stream-of-a-few-packets", "format-ts")
								verdict(t, "C17", "c17", c, checkC17)
							}
						}
					}
				}
			}
		}
	})

	// Large documents: splits at the scanner / block buffer boundaries +-1.
	sub(t, "large", func(t *testing.T) {
		if cfgShard != 0 {
			return
		}
		for _, format := range []string{"srt", "vtt", "ssa"} {
			var doc []byte
			switch format {
			case "srt":
				var sb strings.Builder
				for i := 0; sb.Len() < 150000; i++ {
					fmt.Fprintf(&sb, "%d\r\n00:00:%02d,000 --> 00:00:%02d,500\r\nline %d of the large document\r\nsecond line\r\n\r\n", i+1, i%60, i%60, i)
				}
				doc = []byte(sb.String())
			case "vtt":
				var sb strings.Builder
				sb.WriteString("WEBVTT\r\n\r\n")
				for i := 0; sb.Len() < 150000; i++ {
					fmt.Fprintf(&sb, "%d\r\n00:00:%02d.000 --> 00:00:%02d.500\r\n<v Bob>line %d of the large document\r\nsecond line\r\n\r\n", i+1, i%60, i%60, i)
				}
				doc = []byte(sb.String())
			default:
				var sb strings.Builder
				sb.WriteString("[Script Info]\r\nTitle: large\r\n\r\n[Events]\r\nFormat: Marked, Start, End, Style, Name, MarginL, MarginR, MarginV, Effect, Text\r\n")
				for i := 0; sb.Len() < 150000; i++ {
					fmt.Fprintf(&sb, "Dialogue: Marked=0,0:00:%02d.00,0:00:%02d.50,,,0,0,0,,line %d of the large document\r\n", i%60, i%60, i)
				}
				doc = []byte(sb.String())
			}
			// the same document with one line longer than a line scanner buffers by default: rejected or not, the same way
			// under every delivery and from every kind of reader
			long := append(append(append([]byte(nil), doc[:len(doc)/2]...), bytes.Repeat([]byte("x"), 70000)...), doc[len(doc)/2:]...)
			for _, seekable := range []bool{true, false} {
				lc := c17Case{Format: format, Doc: long, Seekable: seekable, Chunks: []int{4096, 1, 65535, 2}}
				ev.CaseH(true, mix(strHash(format), 70000, b2u(seekable)), "line-over-64KiB", "format-"+format)
				verdict(t, "C17", "c17", lc, checkC17)
			}
			c := c17Case{Format: format, Doc: doc, Seekable: true}
			for _, base := range []int{4096, 8192, 65536, 131072} {
				for d := -2; d <= 2; d++ {
					k := base + d
					if k >= len(doc) {
						continue
					}
					for _, ch := range [][]int{{k}, {k, 1}, {k, 0, 1}} {
						c.Chunks = ch
						ev.CaseH(true, mix(strHash(format), uint64(k), uint64(len(ch))), "buffer-boundary-split", "format-"+format)
						verdict(t, "C17", "c17", c, checkC17)
					}
				}
			}
			// chunk sizes that walk every offset of a CRLF pair across the 4096-byte buffer
			for sz := 4090; sz <= 4100; sz++ {
				ch := make([]int, 0, len(doc)/sz+1)
				for n := 0; n < len(doc); n += sz {
					ch = append(ch, sz)
				}
				c.Chunks = ch
				ev.CaseH(true, mix(strHash(format), uint64(sz), 5), "buffer-boundary-split", "format-"+format)
				verdict(t, "C17", "c17", c, checkC17)
			}
		}
	})

	// A named pipe read through the file-level entry point: a file whose size is not known up front, fed in pieces.
	sub(t, "fifo", func(t *testing.T) {
		if cfgShard != 0 {
			return
		}
		dir := t.TempDir()
		for _, format := range []string{"srt", "vtt", "ssa", "ttml", "stl"} {
			doc := docGen(format).Example(7)
			if g := goldenDocs(format); len(g) > 0 && len(g[0]) < 20000 {
				doc = g[0]
			}
			want := readCanon(format, bytes.NewReader(doc), readOpts{})
			p := filepath.Join(dir, "piped."+format)
			if err := syscall.Mkfifo(p, 0o600); err != nil {
				t.Skipf("no named pipes here: %v", err)
			}
			done := make(chan struct{})
			go func() {
				defer close(done)
				w, err := os.OpenFile(p, os.O_WRONLY, 0)
				if err != nil {
					return
				}
				defer w.Close()
				for i := 0; i < len(doc); i += 1 + len(doc)/3 {
					j := i + 1 + len(doc)/3
					if j > len(doc) {
						j = len(doc)
					}
					if _, err := w.Write(doc[i:j]); err != nil {
						return
					}
				}
			}()
			s, err := astisub.OpenFile(p)
			got := canonResult(s, err)
			// unblock the writer whatever happened
			if r, err := os.OpenFile(p, os.O_RDONLY|syscall.O_NONBLOCK, 0); err == nil {
				_, _ = io.Copy(io.Discard, r)
				r.Close()
			}
			<-done
			ev.CaseH(true, strHash("fifo"+format), "named-pipe-through-open", "format-"+format)
			if got != want {
				writeReplay("C17", "c17", c17Case{Format: format, Doc: doc}, "OpenFile on a named pipe differs from ReadFrom on the same bytes")
				t.Fatalf("%s document of %d bytes read with OpenFile from a named pipe (written in three pieces) differs from the same bytes read at once\n--- at once ---\n%s\n--- pipe ---\n%s", format, len(doc), clip(want, 500), clip(got, 500))
			}
		}
	})

	rapidCheck(t, "C17/random", tier(1500, 200000), func(rt *rapid.T) {
		format := rapid.SampledFrom(allFormats).Draw(rt, "format")
		doc := docGen(format).Draw(rt, "doc")
		// invalid variants: truncation, a deleted slice, a flipped byte
		switch rapid.IntRange(0, 5).Draw(rt, "mut") {
		case 0:
			if len(doc) > 1 {
				doc = doc[:rapid.IntRange(0, len(doc)-1).Draw(rt, "trunc")]
			}
		case 1:
			if len(doc) > 4 {
				a := rapid.IntRange(0, len(doc)-2).Draw(rt, "cuta")
				b := rapid.IntRange(a, len(doc)-1).Draw(rt, "cutb")
				doc = append(append([]byte(nil), doc[:a]...), doc[b:]...)
			}
		case 2:
			if len(doc) > 0 {
				doc = append([]byte(nil), doc...)
				doc[rapid.IntRange(0, len(doc)-1).Draw(rt, "flipat")] ^= byte(1 << rapid.IntRange(0, 7).Draw(rt, "flipbit"))
			}
		}
		crossCap := false
		if format == "ts" {
			if rapid.IntRange(0, 2).Draw(rt, "nulllead") == 0 && len(doc) >= 188 && doc[0] == 0x47 {
				doc = append(append(tsNullPacket(), tsNullPacket()...), doc...)
				crossCap = true
				ev.Label("ts-two-leading-null-packets-both-reader-kinds")
			}
			if w := rapid.SampledFrom([]int{0, 0, 4, 4, 16}).Draw(rt, "widepackets"); w > 0 {
				doc = widenTS(doc, w)
				ev.Label(fmt.Sprintf("ts-packets-of-%d-bytes", 188+w))
			}
		}
		c := c17Case{Format: format, Doc: doc, WithEOF: rapid.Bool().Draw(rt, "witheof"), Seekable: format != "ts" || rapid.Bool().Draw(rt, "seekable"), CrossCap: crossCap}
		c.ViaOpen = rapid.IntRange(0, 2).Draw(rt, "viaopen") == 0
		if c.ViaOpen && c.Seekable {
			ev.Label("regular-file-through-open")
		}
		if format == "ts" && (rapid.Bool().Draw(rt, "pidopt") || crossCap) {
			// (finding the PID in the tables takes a second pass, which only a reader that can rewind allows: the
			// comparison between the two kinds of reader is made with the PID given)
			c.Opts.PID = ttxPID
		}
		if format == "stl" {
			c.Opts.IgnoreTCP = rapid.Bool().Draw(rt, "ignoretcp")
		}
		n := rapid.IntRange(1, 40).Draw(rt, "nchunks")
		zeros := 0
		for i := 0; i < n; i++ {
			sz := rapid.SampledFrom([]int{0, 1, 1, 2, 3, 7, 64, 127, 128, 129, 187, 188, 189, 1023, 1024, 1025, 4095, 4096, 4097}).Draw(rt, "chunk")
			if sz == 0 {
				zeros++
				if zeros > 3 {
					sz = 1
				}
			}
			if sz != 0 {
				zeros = 0
			}
			c.Chunks = append(c.Chunks, sz)
		}
		ev.Case(len(doc) > 0, fmt.Sprintf("%v", c), "random", "format-"+format)
		if len(doc) < 400 {
			ev.Sample("random", map[string]any{"format": format, "document": string(doc), "chunks": c.Chunks, "with_eof": c.WithEOF, "seekable": c.Seekable})
		}
		verdict(rt, "C17", "c17", c, checkC17)
	})
}

func ones(n int) []int {
	a := make([]int, n)
	for i := range a {
		a[i] = 1
	}
	return a
}

func b2u(b bool) uint64 {
	if b {
		return 1
	}
	return 0
}

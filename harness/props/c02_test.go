package props

import (
	"bytes"
	"fmt"
	"strings"
	"testing"

	astisub "github.com/asticode/go-astisub"
	"pgregory.net/rapid"
)

// C02 - WebVTT codec fidelity.

type c02ReadCase struct {
	Doc  vttDoc       `json:"doc"`
	Rend vttRendering `json:"rendering"`
}

type c02WriteCase struct {
	// Foreign: the list carries metadata of other formats; the file-level helper is exercised as well
	Foreign bool   `json:"foreign,omitempty"`
	Doc     vttDoc `json:"doc"`
}

func init() {
	register("c02read", checkC02Read)
	register("c02write", checkC02Write)
}

func checkC02Read(c c02ReadCase) string {
	b := renderVTT(c.Doc, c.Rend)
	s, err := astisub.ReadFromWebVTT(deliver(b))
	if err != nil {
		return fmt.Sprintf("reader rejected a well-formed document: %v\n--- document ---\n%q", err, clip(string(b), 700))
	}
	got, msg := projVTT(s)
	if msg != "" {
		return msg
	}
	want := c.Doc
	if !c.Rend.IDs {
		want.Cues = append([]vttCue(nil), want.Cues...)
		for i := range want.Cues {
			want.Cues[i].ID = 0
		}
	}
	// the reader keeps all STYLE lines in one definition: compare flattened
	want.Styles = [][]string{flatStyles(want.Styles)}
	if len(want.Styles[0]) == 0 {
		want.Styles = nil
	}
	if m := diffVTT(want, got, false, false); m != "" {
		return fmt.Sprintf("%s\n--- document (%d bytes) ---\n%q", m, len(b), clip(string(b), 700))
	}
	return rereadStable("vtt", b, readOpts{}, s)
}

func checkC02Write(c c02WriteCase) string {
	s := toSubtitlesVTT(c.Doc)
	if c.Foreign {
		addForeignMetadata("vtt", s)
		addForeignAttributes("vtt", s)
		priorFailedWrite("vtt", 5+len(s.Items)*37, len(s.Items)%3)
	}
	var buf bytes.Buffer
	err := s.WriteToWebVTT(&buf)
	if len(c.Doc.Cues) == 0 {
		if err != astisub.ErrNoSubtitlesToWrite {
			return fmt.Sprintf("writing an empty list returned %v, expected ErrNoSubtitlesToWrite", err)
		}
		return ""
	}
	if err != nil {
		return fmt.Sprintf("writer failed: %v", err)
	}
	out := buf.Bytes()
	s2, err := astisub.ReadFromWebVTT(bytes.NewReader(out))
	if err != nil {
		return fmt.Sprintf("library reader rejects the writer's output: %v\n--- output ---\n%q", err, clip(string(out), 700))
	}
	got, msg := projVTT(s2)
	if msg != "" {
		return msg
	}
	// the reader folds all STYLE lines into one definition
	if m := diffVTT(c.Doc, got, true, true); m != "" {
		return fmt.Sprintf("re-read by the library: %s\n--- output ---\n%q", m, clip(string(out), 700))
	}
	ind, err := decodeVTTIndep(out)
	if err != nil {
		return fmt.Sprintf("independent decoder rejects the writer's output: %v\n--- output ---\n%q", err, clip(string(out), 700))
	}
	if m := diffVTT(c.Doc, ind, true, true); m != "" {
		return fmt.Sprintf("independent decoder: %s\n--- output ---\n%q", m, clip(string(out), 700))
	}
	if c.Foreign {
		if m := fileWriteAgrees("vtt", s); m != "" {
			return m
		}
	}
	return ""
}

func c02Labels(d vttDoc, r *vttRendering) (bool, []string) {
	var ls []string
	add := func(c bool, l string) {
		if c {
			ls = append(ls, l)
		}
	}
	var regionRef, comment, deep, ts, voice, classes, sameNameDiff bool
	for _, c := range d.Cues {
		regionRef = regionRef || c.Region != ""
		comment = comment || len(c.Comments) > 0
		for _, l := range c.Lines {
			voice = voice || l.Voice != ""
			for k, run := range l.Runs {
				deep = deep || len(run.Tags) >= 2
				ts = ts || run.StartAt > 0
				for _, tg := range run.Tags {
					classes = classes || len(tg.Classes) > 0
				}
				if k > 0 {
					p := l.Runs[k-1].Tags
					for x := 0; x < len(p) && x < len(run.Tags); x++ {
						if p[x].Name == run.Tags[x].Name && !p[x].equal(run.Tags[x]) {
							sameNameDiff = true
						}
						if p[x].Name == run.Tags[x].Name && commonPrefix(p, run.Tags) < x {
							sameNameDiff = true
						}
					}
				}
			}
		}
	}
	add(regionRef, "region-ref")
	add(comment, "comment")
	add(deep, "tag-depth>=2")
	add(ts, "inline-timestamp")
	add(voice, "voice")
	add(classes, "tag-classes")
	add(sameNameDiff, "same-name-different-tag-or-parent")
	add(len(d.Styles) > 0, "style-block")
	add(len(d.Styles) > 1, "several-style-blocks")
	add(d.TSMap != nil, "timestamp-map")
	if r != nil {
		add(r.EOL != "\n", "non-lf-eol")
		add(r.BOM, "bom")
		add(r.ShortTimes, "mm:ss.ttt")
		add(!r.IDs, "ids-absent")
		add(r.CarryTags, "tags-carried-over-lines")
		add(r.RegionsLate && regionRef, "region-defined-late")
		add(r.HeaderTail != "", "header-tail")
	}
	return len(d.Cues) > 0 && len(ls) > 0, ls
}

func TestC02(t *testing.T) {
	runWitnesses(t, "C02")
	cliConvertCases(t, "C02", "vtt")
	rapidCheck(t, "C02/read", tier(3000, 300000), func(rt *rapid.T) {
		c := c02ReadCase{Doc: genVTTDoc(rt, false), Rend: genVTTRendering(rt)}
		if len(c.Doc.Cues) > 0 && rapid.IntRange(0, 24).Draw(rt, "huge") == 1 {
			base := c.Doc.Cues
			before := len(renderVTT(c.Doc, c.Rend))
			c.Doc.Cues = append(c.Doc.Cues, base...)
			for k := 70000 / (len(renderVTT(c.Doc, c.Rend)) - before + 1); k > 0; k-- {
				c.Doc.Cues = append(c.Doc.Cues, base...)
			}
			if c.Rend.IDs {
				for i := range c.Doc.Cues {
					if c.Doc.Cues[i].ID != 0 {
						c.Doc.Cues[i].ID = i + 1
					}
				}
			}
		}
		aligned := false
		if len(c.Doc.Cues) > 0 && strings.Contains(c.Rend.EOL, "\r") && rapid.IntRange(0, 5).Draw(rt, "align") == 0 {
			aligned = alignCR(rt, func() []byte { return renderVTT(c.Doc, c.Rend) }, func(n int) {
				c.Doc.Cues[0].Lines[0].Runs[0].Text += strings.Repeat("x", n)
			})
		}
		blankRuns := 0
		if rapid.IntRange(0, 2).Draw(rt, "blankrun") == 0 {
			// (drawn last) a run between two others, inside at least one open tag, holding nothing but a blank: the
			// usual way to separate two styled words; it is a run of the line like any other
			for i := range c.Doc.Cues {
				for j := range c.Doc.Cues[i].Lines {
					rs := c.Doc.Cues[i].Lines[j].Runs
					for k := 1; k+1 < len(rs); k++ {
						if len(rs[k].Tags) > 0 && rs[k].StartAt == 0 && rs[k+1].StartAt == 0 && strings.TrimSpace(rs[k-1].Text) != "" && strings.TrimSpace(rs[k+1].Text) != "" &&
							!strings.HasSuffix(rs[k-1].Text, " ") && !strings.HasPrefix(rs[k+1].Text, " ") &&
							fmt.Sprint(rs[k].Tags) != fmt.Sprint(rs[k-1].Tags) && fmt.Sprint(rs[k].Tags) != fmt.Sprint(rs[k+1].Tags) {
							rs[k].Text = " "
							blankRuns++
						}
					}
				}
			}
		}
		b := renderVTT(c.Doc, c.Rend)
		nt, ls := c02Labels(c.Doc, &c.Rend)
		if blankRuns > 0 {
			ls = append(ls, "blank-only-run-inside-a-tag")
		}
		if aligned {
			ls = append(ls, "cr-at-end-of-4096-byte-block")
		}
		if len(b) > 65536 {
			ls = append(ls, "over-64KiB")
		}
		ev.Case(nt, string(b), append(ls, "read")...)
		if nt && len(c.Doc.Cues) <= 2 {
			ev.Sample("read", map[string]any{"document": string(b), "model": c.Doc})
		}
		verdict(rt, "C02", "c02read", c, checkC02Read)
	})
	rapidCheck(t, "C02/write", tier(2000, 200000), func(rt *rapid.T) {
		c := c02WriteCase{Doc: genVTTDoc(rt, true), Foreign: rapid.IntRange(0, 2).Draw(rt, "foreign") == 0}
		nt, ls := c02Labels(c.Doc, nil)
		ev.Case(nt, fmt.Sprintf("w%v", c.Doc), append(ls, "write")...)
		if nt && len(c.Doc.Cues) <= 2 {
			ev.Sample("write", c.Doc)
		}
		verdict(rt, "C02", "c02write", c, checkC02Write)
	})
}

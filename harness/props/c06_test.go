package props

import (
	"bytes"
	"fmt"
	"os"
	"path/filepath"
	"testing"

	astisub "github.com/asticode/go-astisub"
	"pgregory.net/rapid"
)

// C06 - teletext-in-TS decoding returns the transmitted subtitle pages and timing.

func init() { register("c06", checkC06) }

func checkC06(s ttxStream) string {
	b, exp := s.render()
	o := astisub.TeletextOptions{}
	if s.OptPage {
		o.Page = s.pageOption()
	}
	if s.OptPID {
		o.PID = ttxPID
	}
	sub, err := astisub.ReadFromTeletext(bytes.NewReader(b), o)
	if err != nil {
		return fmt.Sprintf("reader failed on a well-formed stream (%d bytes, options %+v): %v", len(b), o, err)
	}
	if m := diffTTX(exp, sub); m != "" {
		return fmt.Sprintf("%s (options %+v, page %d/%d%d, serial %v)", m, o, s.Mag, s.Tens, s.Units, s.Serial)
	}
	first := canon(sub)
	// a page under the reserved national option (what its 13 national positions show is not laid down) still shows
	// what its own packets say: not what an earlier instance, under another option, left behind. The same stream with
	// every earlier instance moved to the English option must give the same text for it.
	if s.Designation == 0 {
		for k, e := range exp {
			anyText := false
			for _, l := range e.Lines {
				anyText = anyText || l.AnyText
			}
			if !anyText || k == 0 || k >= len(sub.Items) {
				continue
			}
			s2 := s
			s2.Instances = append([]ttxInstance(nil), s.Instances...)
			changed := false
			for i := range s2.Instances {
				in := &s2.Instances[i]
				if in.C12&in.C13&in.C14 == 1 {
					continue
				}
				changed = changed || in.C12+in.C13+in.C14 > 0
				in.C12, in.C13, in.C14 = 0, 0, 0
			}
			if !changed {
				break
			}
			b2, _ := s2.render()
			sub2, err := astisub.ReadFromTeletext(bytes.NewReader(b2), o)
			if err != nil || len(sub2.Items) != len(sub.Items) {
				break
			}
			if a, b := sub.Items[k].String(), sub2.Items[k].String(); a != b {
				return fmt.Sprintf("cue %d (reserved national option) reads %q after instances under other national options, %q after the same instances under the English option: what an earlier page selected leaks into it", k, a, b)
			}
			break
		}
	}
	// the same stream through the file-level entry point (a file, not a byte slice)
	if s.ViaFile {
		dir, err := os.MkdirTemp("", "c06")
		if err == nil {
			defer os.RemoveAll(dir)
			p := filepath.Join(dir, "stream.ts")
			if os.WriteFile(p, b, 0o644) == nil {
				fs, err := astisub.Open(astisub.Options{Filename: p, Teletext: o})
				if err != nil {
					return fmt.Sprintf("Open(stream.ts) failed on a stream ReadFromTeletext reads (options %+v): %v", o, err)
				}
				if canon(fs) != first {
					return fmt.Sprintf("Open(stream.ts) and ReadFromTeletext disagree on the same stream (options %+v)\n--- ReadFromTeletext ---\n%s\n--- Open ---\n%s", o, clip(first, 500), clip(canon(fs), 500))
				}
			}
		}
	}
	// what a stream denotes does not depend on what was read before in the same process: read other streams with
	// other national options, then this one again
	for _, primer := range [][3]uint8{{1, 0, 0}, {0, 0, 1}} {
		p := ttxStream{Mag: 3, Tens: 1, Units: 1, Instances: []ttxInstance{{PTS: 90000, C12: primer[0], C13: primer[1], C14: primer[2], Rows: []ttxRow{{Y: 2, Segs: []ttxSeg{{Text: "#$@[]{|}~"}}}}}}}
		pb, _ := p.render()
		_, _ = astisub.ReadFromTeletext(bytes.NewReader(pb), astisub.TeletextOptions{})
		again, err := astisub.ReadFromTeletext(bytes.NewReader(b), o)
		if err != nil {
			return fmt.Sprintf("second read of the same stream failed: %v", err)
		}
		if canon(again) != first {
			return fmt.Sprintf("the same stream reads differently after another stream (national option %v) was read in the same process\n--- first ---\n%s\n--- then ---\n%s", primer, clip(first, 500), clip(canon(again), 500))
		}
	}
	return ""
}

func c06Labels(s ttxStream) (bool, []string) {
	var ls []string
	add := func(c bool, l string) {
		if c {
			ls = append(ls, l)
		}
	}
	var split, nat, parity, multirun, erase, noflag, rebox bool
	for _, in := range s.Instances {
		noflag = noflag || in.NoFlag
		split = split || in.SplitAt > 0
		nat = nat || in.C12+in.C13+in.C14 > 0
		erase = erase || len(in.Rows) == 0
		for _, r := range in.Rows {
			parity = parity || len(r.BadParity) > 0
			multirun = multirun || len(r.Segs) > 1
			for _, sg := range r.Segs {
				rebox = rebox || sg.ReboxAt > 0
			}
		}
	}
	add(noflag, "instance-without-subtitle-flag")
	add(rebox, "two-boxes-on-a-row")
	add(!s.Serial, "parallel-mode-interleaved-distractor")
	add(s.Serial, "serial-mode")
	add(!s.OptPage, "auto-page")
	add(!s.OptPID, "auto-pid")
	add(split, "instance-split-across-pes")
	add(nat, "national-option")
	add(parity, "parity-error")
	add(multirun, "colour-size-run-split")
	add(erase, "erase-only-instance")
	add(s.HexDistractor, "hex-page-distractor")
	add(s.SecondTTXPID, "second-teletext-pid")
	add(s.Enhancement, "enhancement-packets")
	add(s.NonSubtitle || s.Stuffing, "stuffing-or-non-subtitle-units")
	add(s.LeadIn > 0, "time-origin-before-first-instance")
	add(s.Designation == 1, "x28-designation-of-selected-magazine")
	add(s.Designation == 2, "m29-designation-of-selected-magazine")
	add(s.Designation == 3, "m29-and-x28-designations-disagree")
	add(s.Designation == 4, "m29-before-first-header-selects-second-latin-row")
	add(s.Designation == 5, "m29-before-every-header-selects-second-latin-row")
	return len(s.Instances) > 0, ls
}

func TestC06(t *testing.T) {
	runWitnesses(t, "C06")
	rapidCheck(t, "C06/streams", tier(6000, 2000000), func(rt *rapid.T) {
		s := genTTXStream(rt)
		nt, ls := c06Labels(s)
		ev.Case(nt, fmt.Sprintf("%v", s), ls...)
		if len(s.Instances) <= 2 {
			ev.Sample("stream", s)
		}
		verdict(rt, "C06", "c06", s, checkC06)
	})
}

package props

import (
	"bytes"
	"fmt"
	"testing"

	astisub "github.com/asticode/go-astisub"
	"pgregory.net/rapid"
)

// C06 - teletext-in-TS decoding returns the transmitted subtitle pages and timing.

func init() { register("c06", checkC06) }

func checkC06(s ttxStream) string {
	b, exp := s.render()
	o := astisub.TeletextOptions{}
	if s.OptPage {
		o.Page = s.pageOption()
	}
	if s.OptPID {
		o.PID = ttxPID
	}
	sub, err := astisub.ReadFromTeletext(bytes.NewReader(b), o)
	if err != nil {
		return fmt.Sprintf("reader failed on a well-formed stream (%d bytes, options %+v): %v", len(b), o, err)
	}
	if m := diffTTX(exp, sub); m != "" {
		return fmt.Sprintf("%s (options %+v, page %d/%d%d, serial %v)", m, o, s.Mag, s.Tens, s.Units, s.Serial)
	}
	return ""
}

func c06Labels(s ttxStream) (bool, []string) {
	var ls []string
	add := func(c bool, l string) {
		if c {
			ls = append(ls, l)
		}
	}
	var split, nat, parity, multirun, erase bool
	for _, in := range s.Instances {
		split = split || in.SplitAt > 0
		nat = nat || in.C12+in.C13+in.C14 > 0
		erase = erase || len(in.Rows) == 0
		for _, r := range in.Rows {
			parity = parity || len(r.BadParity) > 0
			multirun = multirun || len(r.Segs) > 1
		}
	}
	add(!s.Serial, "parallel-mode-interleaved-distractor")
	add(s.Serial, "serial-mode")
	add(!s.OptPage, "auto-page")
	add(!s.OptPID, "auto-pid")
	add(split, "instance-split-across-pes")
	add(nat, "national-option")
	add(parity, "parity-error")
	add(multirun, "colour-size-run-split")
	add(erase, "erase-only-instance")
	add(s.HexDistractor, "hex-page-distractor")
	add(s.SecondTTXPID, "second-teletext-pid")
	add(s.Enhancement, "enhancement-packets")
	add(s.NonSubtitle || s.Stuffing, "stuffing-or-non-subtitle-units")
	add(s.LeadIn > 0, "time-origin-before-first-instance")
	add(s.Designation == 1, "x28-designation-of-selected-magazine")
	add(s.Designation == 2, "m29-designation-of-selected-magazine")
	return len(s.Instances) > 0, ls
}

func TestC06(t *testing.T) {
	runWitnesses(t, "C06")
	rapidCheck(t, "C06/streams", tier(6000, 300000), func(rt *rapid.T) {
		s := genTTXStream(rt)
		nt, ls := c06Labels(s)
		ev.Case(nt, fmt.Sprintf("%v", s), ls...)
		if len(s.Instances) <= 2 {
			ev.Sample("stream", s)
		}
		verdict(rt, "C06", "c06", s, checkC06)
	})
}

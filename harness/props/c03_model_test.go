package props

import (
	"fmt"
	"math/big"
	"reflect"
	"sort"
	"strconv"
	"strings"
	"time"

	astisub "github.com/asticode/go-astisub"
	"pgregory.net/rapid"
)

// Ground-truth model of a TTML document (C03).

// ttmlAttrNames are the 24 tts:* attributes the library models, by local name.
var ttmlAttrNames = []string{"backgroundColor", "color", "direction", "display", "displayAlign", "extent", "fontFamily", "fontSize", "fontStyle", "fontWeight",
	"lineHeight", "opacity", "origin", "overflow", "padding", "showBackground", "textAlign", "textDecoration", "textOutline", "unicodeBidi", "visibility", "wrapOption", "writingMode", "zIndex"}

var ttmlAttrValues = map[string][]string{
	"backgroundColor": {"#000000", "transparent", "rgba(0,0,0,128)"},
	"color":           {"white", "#ff0000", "#FFFF00"},
	"direction":       {"ltr", "rtl"},
	"display":         {"auto", "none"},
	"displayAlign":    {"before", "center", "after"},
	"extent":          {"80% 10%", "560px 62px", "auto", "80%  10%", " 560px 62px", "80%\t10%"},
	"fontFamily":      {"proportionalSansSerif", "Arial, sans-serif", "monospace"},
	"fontSize":        {"100%", "18px", "1c 2c"},
	"fontStyle":       {"normal", "italic", "oblique"},
	"fontWeight":      {"normal", "bold"},
	"lineHeight":      {"normal", "125%"},
	"opacity":         {"1", "0.5"},
	"origin":          {"10% 80%", "0px 0px", "auto", "10%   80%", "0px 0px "},
	"overflow":        {"visible", "hidden"},
	"padding":         {"0px", "1c 2c", "2px 4px 2px 4px"},
	"showBackground":  {"always", "whenActive"},
	"textAlign":       {"left", "center", "right", "start", "end"},
	"textDecoration":  {"none", "underline", "lineThrough"},
	"textOutline":     {"none", "black 1px", "red 2px 1px"},
	"unicodeBidi":     {"normal", "embed", "bidiOverride"},
	"visibility":      {"visible", "hidden"},
	"wrapOption":      {"wrap", "noWrap"},
	"writingMode":     {"lrtb", "tbrl", "rl"},
	"zIndex":          {"0", "3", "-2"},
}

type ttmlDef struct {
	ID    string            `json:"id"`
	Ref   string            `json:"ref,omitempty"` // style: parent style; region: style
	Attrs map[string]string `json:"attrs,omitempty"`
}

// ttmlTime is a time expression in one of the TTML syntaxes.
type ttmlTime struct {
	Form   string `json:"form"` // clock | clockfrac | clockframes | offset
	H      int64  `json:"h,omitempty"`
	M      int64  `json:"m,omitempty"`
	S      int64  `json:"s,omitempty"`
	Frac   string `json:"frac,omitempty"`   // 1-3 digits (clockfrac)
	Frames int64  `json:"frames,omitempty"` // clockframes
	Int    string `json:"int,omitempty"`    // offset: integer part digits
	Dec    string `json:"dec,omitempty"`    // offset: decimal digits (may be empty)
	Metric string `json:"metric,omitempty"` // h m s ms f t
}

func (t ttmlTime) String() string {
	switch t.Form {
	case "clock":
		return fmt.Sprintf("%02d:%02d:%02d", t.H, t.M, t.S)
	case "clockfrac":
		return fmt.Sprintf("%02d:%02d:%02d.%s", t.H, t.M, t.S, t.Frac)
	case "clockframes":
		return fmt.Sprintf("%02d:%02d:%02d:%02d", t.H, t.M, t.S, t.Frames)
	default:
		s := t.Int
		if t.Dec != "" {
			s += "." + t.Dec
		}
		return s + t.Metric
	}
}

// exactNs evaluates the expression exactly (rational nanoseconds).
func (t ttmlTime) exactNs(frameRate, tickRate int64) *big.Rat {
	ns := func(n int64) *big.Rat { return new(big.Rat).SetInt64(n) }
	hms := ns(((t.H*60+t.M)*60 + t.S) * 1_000_000_000)
	switch t.Form {
	case "clock":
		return hms
	case "clockfrac":
		f, _ := new(big.Rat).SetString("0." + t.Frac)
		return hms.Add(hms, f.Mul(f, ns(1_000_000_000)))
	case "clockframes":
		if frameRate > 0 {
			hms.Add(hms, new(big.Rat).SetFrac64(t.Frames*1_000_000_000, frameRate))
		}
		return hms
	}
	v, _ := new(big.Rat).SetString(t.Int + "." + t.Dec + "0")
	switch t.Metric {
	case "h":
		return v.Mul(v, ns(3600_000_000_000))
	case "m":
		return v.Mul(v, ns(60_000_000_000))
	case "s":
		return v.Mul(v, ns(1_000_000_000))
	case "ms":
		return v.Mul(v, ns(1_000_000))
	case "f":
		if frameRate > 0 {
			return v.Mul(v, new(big.Rat).SetFrac64(1_000_000_000, frameRate))
		}
		return ns(0)
	case "t":
		if tickRate > 0 {
			return v.Mul(v, new(big.Rat).SetFrac64(1_000_000_000, tickRate))
		}
		return ns(0)
	}
	return ns(0)
}

type ttmlRun struct {
	Text  string            `json:"text"`
	Span  bool              `json:"span"` // false: anonymous character data (no style, no attrs)
	Style string            `json:"style,omitempty"`
	Attrs map[string]string `json:"attrs,omitempty"`
}

type ttmlCue struct {
	Begin  ttmlTime          `json:"begin"`
	End    ttmlTime          `json:"end"`
	Region string            `json:"region,omitempty"`
	Style  string            `json:"style,omitempty"`
	Attrs  map[string]string `json:"attrs,omitempty"`
	Lines  [][]ttmlRun       `json:"lines"`
}

type ttmlDoc struct {
	Lang      string    `json:"lang,omitempty"`
	Title     string    `json:"title,omitempty"`
	Copyright string    `json:"copyright,omitempty"`
	FrameRate int64     `json:"frame_rate,omitempty"`
	TickRate  int64     `json:"tick_rate,omitempty"`
	Styles    []ttmlDef `json:"styles,omitempty"`
	Regions   []ttmlDef `json:"regions,omitempty"`
	Cues      []ttmlCue `json:"cues"`
}

type ttmlRendering struct {
	Indent     string `json:"indent"`               // "" = single line; otherwise elements on their own lines
	PIndent    bool   `json:"p_indent"`             // put each child of <p> on its own line (only when every run is a span)
	BrForm     int    `json:"br_form,omitempty"`    // 0 <br/>, 1 <BR/>, 2 <tt:br/>
	AnonBreak  bool   `json:"anon_break,omitempty"` // the source line ends right after text written directly in <p> (before a span, a <br/> or </p>)
	StylePfx   string `json:"style_pfx"`            // "tts", "s", "" (unprefixed)
	XMLID      bool   `json:"xml_id"`               // xml:id vs id
	Decl       bool   `json:"decl"`                 // <?xml ...?>
	NumericRef int    `json:"numeric_ref"`          // 0 named entities, 1 decimal refs, 2 hex refs
	BrInSpan   bool   `json:"br_in_span"`           // merge a line break between two identically styled spans into one span holding <br/>
	BrEdge     bool   `json:"br_edge"`              // put the <br/> of a line break as first child of the following span
	TwoDivs    bool   `json:"two_divs"`
	BrLong     bool   `json:"br_long"` // <br></br> instead of <br/>
	EOL        string `json:"eol"`
}

func xmlEscapeText(s string, mode int) string {
	var sb strings.Builder
	for _, c := range s {
		switch c {
		case '&', '<', '>', '"':
			switch mode {
			case 1:
				fmt.Fprintf(&sb, "&#%d;", c)
			case 2:
				fmt.Fprintf(&sb, "&#x%X;", c)
			default:
				sb.WriteString(map[rune]string{'&': "&amp;", '<': "&lt;", '>': "&gt;", '"': "&quot;"}[c])
			}
		case '\t':
			sb.WriteString("&#9;")
		case '\n':
			// a line feed inside a title or copyright: as such, or as a character reference
			sb.WriteString([]string{"\n", "&#10;", "&#xA;"}[mode%3])
		default:
			if mode > 0 && c > 0x7f && c%3 == 0 {
				fmt.Fprintf(&sb, "&#x%X;", c)
			} else {
				sb.WriteRune(c)
			}
		}
	}
	return sb.String()
}

func renderTTMLAttrs(attrs map[string]string, r ttmlRendering) string {
	keys := make([]string, 0, len(attrs))
	for k := range attrs {
		keys = append(keys, k)
	}
	sort.Strings(keys)
	s := ""
	for _, k := range keys {
		name := k
		if r.StylePfx != "" {
			name = r.StylePfx + ":" + k
		}
		s += fmt.Sprintf(` %s="%s"`, name, xmlEscapeText(attrs[k], 0))
	}
	return s
}

func sameSpan(a, b ttmlRun) bool {
	return a.Span && b.Span && a.Style == b.Style && reflect.DeepEqual(a.Attrs, b.Attrs) || (a.Span && b.Span && a.Style == b.Style && len(a.Attrs) == 0 && len(b.Attrs) == 0)
}

func renderTTML(d ttmlDoc, r ttmlRendering) []byte {
	var sb strings.Builder
	nl := func(depth int) {
		if r.Indent != "" {
			sb.WriteString(r.EOL)
			for i := 0; i < depth; i++ {
				sb.WriteString(r.Indent)
			}
		}
	}
	if r.Decl {
		sb.WriteString(`<?xml version="1.0" encoding="UTF-8"?>`)
		if r.Indent != "" {
			sb.WriteString(r.EOL)
		}
	}
	idAttr := "id"
	if r.XMLID {
		idAttr = "xml:id"
	}
	sb.WriteString(`<tt xmlns="http://www.w3.org/ns/ttml" xmlns:tt="http://www.w3.org/ns/ttml" xmlns:ttm="http://www.w3.org/ns/ttml#metadata" xmlns:ttp="http://www.w3.org/ns/ttml#parameter"`)
	if r.StylePfx != "" {
		fmt.Fprintf(&sb, ` xmlns:%s="http://www.w3.org/ns/ttml#styling"`, r.StylePfx)
	}
	if d.Lang != "" {
		fmt.Fprintf(&sb, ` xml:lang="%s"`, d.Lang)
	}
	if d.FrameRate > 0 {
		fmt.Fprintf(&sb, ` ttp:frameRate="%d"`, d.FrameRate)
	}
	if d.TickRate > 0 {
		fmt.Fprintf(&sb, ` ttp:tickRate="%d"`, d.TickRate)
	}
	sb.WriteString(">")
	nl(1)
	sb.WriteString("<head>")
	if d.Title != "" || d.Copyright != "" {
		nl(2)
		sb.WriteString("<metadata>")
		if d.Title != "" {
			nl(3)
			sb.WriteString("<ttm:title>" + xmlEscapeText(d.Title, r.NumericRef) + "</ttm:title>")
		}
		if d.Copyright != "" {
			nl(3)
			sb.WriteString("<ttm:copyright>" + xmlEscapeText(d.Copyright, r.NumericRef) + "</ttm:copyright>")
		}
		nl(2)
		sb.WriteString("</metadata>")
	}
	if len(d.Styles) > 0 {
		nl(2)
		sb.WriteString("<styling>")
		for _, st := range d.Styles {
			nl(3)
			fmt.Fprintf(&sb, `<style %s="%s"`, idAttr, st.ID)
			if st.Ref != "" {
				fmt.Fprintf(&sb, ` style="%s"`, st.Ref)
			}
			sb.WriteString(renderTTMLAttrs(st.Attrs, r) + "/>")
		}
		nl(2)
		sb.WriteString("</styling>")
	}
	if len(d.Regions) > 0 {
		nl(2)
		sb.WriteString("<layout>")
		for _, rg := range d.Regions {
			nl(3)
			fmt.Fprintf(&sb, `<region %s="%s"`, idAttr, rg.ID)
			if rg.Ref != "" {
				fmt.Fprintf(&sb, ` style="%s"`, rg.Ref)
			}
			sb.WriteString(renderTTMLAttrs(rg.Attrs, r) + "></region>")
		}
		nl(2)
		sb.WriteString("</layout>")
	}
	nl(1)
	sb.WriteString("</head>")
	nl(1)
	sb.WriteString("<body>")
	nl(2)
	sb.WriteString("<div>")
	br := "<br/>"
	if r.BrLong {
		br = "<br></br>"
	}
	switch r.BrForm {
	case 1:
		// the element in upper case
		br = strings.ReplaceAll(br, "br", "BR")
	case 2:
		// the element with the prefix the TTML namespace is also bound to
		br = strings.ReplaceAll(strings.ReplaceAll(br, "</br", "</tt:br"), "<br", "<tt:br")
	}
	for ci, c := range d.Cues {
		if r.TwoDivs && ci > 0 && ci == len(d.Cues)/2 {
			nl(2)
			sb.WriteString("</div>")
			nl(2)
			sb.WriteString("<div>")
		}
		nl(3)
		fmt.Fprintf(&sb, `<p begin="%s" end="%s"`, c.Begin.String(), c.End.String())
		if c.Region != "" {
			fmt.Fprintf(&sb, ` region="%s"`, c.Region)
		}
		if c.Style != "" {
			fmt.Fprintf(&sb, ` style="%s"`, c.Style)
		}
		sb.WriteString(renderTTMLAttrs(c.Attrs, r) + ">")
		allSpans := true
		for _, l := range c.Lines {
			for _, run := range l {
				if !run.Span {
					allSpans = false
				}
			}
		}
		own := r.PIndent && allSpans && r.Indent != ""
		openSpan := func(run ttmlRun) {
			sb.WriteString("<span")
			if run.Style != "" {
				fmt.Fprintf(&sb, ` style="%s"`, run.Style)
			}
			sb.WriteString(renderTTMLAttrs(run.Attrs, r) + ">")
		}
		spanOpen := false
		var cur ttmlRun
		for li, l := range c.Lines {
			if len(l) == 0 && li > 0 {
				// an empty line: nothing but its line break
				if spanOpen && !r.BrInSpan {
					sb.WriteString("</span>")
					spanOpen = false
				}
				sb.WriteString(br)
			}
			for ri, run := range l {
				lineBreakBefore := li > 0 && ri == 0
				if lineBreakBefore {
					if spanOpen && r.BrInSpan && sameSpan(cur, run) {
						// keep the span open: the break goes inside it
						sb.WriteString(br)
						sb.WriteString(xmlEscapeText(run.Text, r.NumericRef))
						continue
					}
					if spanOpen {
						sb.WriteString("</span>")
						spanOpen = false
					}
					if r.BrEdge && run.Span {
						if own {
							nl(4)
						}
						openSpan(run)
						sb.WriteString(br)
						sb.WriteString(xmlEscapeText(run.Text, r.NumericRef))
						spanOpen, cur = true, run
						continue
					}
					if own {
						nl(4)
					}
					sb.WriteString(br)
				} else if spanOpen {
					sb.WriteString("</span>")
					spanOpen = false
				}
				if run.Span {
					if own {
						nl(4)
					}
					openSpan(run)
					sb.WriteString(xmlEscapeText(run.Text, r.NumericRef))
					spanOpen, cur = true, run
				} else {
					sb.WriteString(xmlEscapeText(run.Text, r.NumericRef))
					if r.AnonBreak && r.Indent != "" && (ri == len(l)-1 || l[ri+1].Span) {
						nl(4)
					}
				}
			}
		}
		if spanOpen {
			sb.WriteString("</span>")
		}
		if own {
			nl(3)
		}
		sb.WriteString("</p>")
	}
	nl(2)
	sb.WriteString("</div>")
	nl(1)
	sb.WriteString("</body>")
	nl(0)
	sb.WriteString("</tt>")
	if r.Indent != "" {
		sb.WriteString(r.EOL)
	}
	return []byte(sb.String())
}

// ---------------------------------------------------------------------------
// observed side: projection of the library's result

type ttmlObsRun struct {
	Text  string
	Style string
	Attrs map[string]string
}

type ttmlObsCue struct {
	Begin, End int64 // ns
	Region     string
	Style      string
	Attrs      map[string]string
	Lines      [][]ttmlObsRun
}

type ttmlObs struct {
	Lang, Title, Copyright string
	FrameRate              int64
	Styles, Regions        map[string]ttmlDef
	Cues                   []ttmlObsCue
}

func attrsOf(sa *astisub.StyleAttributes) map[string]string {
	m := map[string]string{}
	if sa == nil {
		return m
	}
	put := func(k string, v *string) {
		if v != nil {
			m[k] = *v
		}
	}
	put("backgroundColor", sa.TTMLBackgroundColor)
	put("color", sa.TTMLColor)
	put("direction", sa.TTMLDirection)
	put("display", sa.TTMLDisplay)
	put("displayAlign", sa.TTMLDisplayAlign)
	put("extent", sa.TTMLExtent)
	put("fontFamily", sa.TTMLFontFamily)
	put("fontSize", sa.TTMLFontSize)
	put("fontStyle", sa.TTMLFontStyle)
	put("fontWeight", sa.TTMLFontWeight)
	put("lineHeight", sa.TTMLLineHeight)
	put("opacity", sa.TTMLOpacity)
	put("origin", sa.TTMLOrigin)
	put("overflow", sa.TTMLOverflow)
	put("padding", sa.TTMLPadding)
	put("showBackground", sa.TTMLShowBackground)
	put("textAlign", sa.TTMLTextAlign)
	put("textDecoration", sa.TTMLTextDecoration)
	put("textOutline", sa.TTMLTextOutline)
	put("unicodeBidi", sa.TTMLUnicodeBidi)
	put("visibility", sa.TTMLVisibility)
	put("wrapOption", sa.TTMLWrapOption)
	put("writingMode", sa.TTMLWritingMode)
	if sa.TTMLZIndex != nil {
		m["zIndex"] = strconv.Itoa(*sa.TTMLZIndex)
	}
	return m
}

func setAttrs(sa *astisub.StyleAttributes, m map[string]string) {
	p := func(k string) *string {
		if v, ok := m[k]; ok {
			c := v
			return &c
		}
		return nil
	}
	sa.TTMLBackgroundColor = p("backgroundColor")
	sa.TTMLColor = p("color")
	sa.TTMLDirection = p("direction")
	sa.TTMLDisplay = p("display")
	sa.TTMLDisplayAlign = p("displayAlign")
	sa.TTMLExtent = p("extent")
	sa.TTMLFontFamily = p("fontFamily")
	sa.TTMLFontSize = p("fontSize")
	sa.TTMLFontStyle = p("fontStyle")
	sa.TTMLFontWeight = p("fontWeight")
	sa.TTMLLineHeight = p("lineHeight")
	sa.TTMLOpacity = p("opacity")
	sa.TTMLOrigin = p("origin")
	sa.TTMLOverflow = p("overflow")
	sa.TTMLPadding = p("padding")
	sa.TTMLShowBackground = p("showBackground")
	sa.TTMLTextAlign = p("textAlign")
	sa.TTMLTextDecoration = p("textDecoration")
	sa.TTMLTextOutline = p("textOutline")
	sa.TTMLUnicodeBidi = p("unicodeBidi")
	sa.TTMLVisibility = p("visibility")
	sa.TTMLWrapOption = p("wrapOption")
	sa.TTMLWritingMode = p("writingMode")
	if v, ok := m["zIndex"]; ok {
		n, _ := strconv.Atoi(v)
		sa.TTMLZIndex = &n
	}
}

func projTTML(s *astisub.Subtitles) (ttmlObs, string) {
	o := ttmlObs{Styles: map[string]ttmlDef{}, Regions: map[string]ttmlDef{}}
	if s.Metadata != nil {
		o.Lang, o.Title, o.Copyright, o.FrameRate = s.Metadata.Language, s.Metadata.Title, s.Metadata.TTMLCopyright, int64(s.Metadata.Framerate)
	}
	for id, st := range s.Styles {
		if st == nil || st.ID != id {
			return o, fmt.Sprintf("style map key %q does not match its definition", id)
		}
		d := ttmlDef{ID: id, Attrs: attrsOf(st.InlineStyle)}
		if st.Style != nil {
			d.Ref = st.Style.ID
			if s.Styles[d.Ref] != st.Style {
				return o, fmt.Sprintf("style %q: its parent %q is not the definition held by the style map", id, d.Ref)
			}
		}
		o.Styles[id] = d
	}
	for id, rg := range s.Regions {
		if rg == nil || rg.ID != id {
			return o, fmt.Sprintf("region map key %q does not match its definition", id)
		}
		d := ttmlDef{ID: id, Attrs: attrsOf(rg.InlineStyle)}
		if rg.Style != nil {
			d.Ref = rg.Style.ID
			if s.Styles[d.Ref] != rg.Style {
				return o, fmt.Sprintf("region %q: its style %q is not the definition held by the style map", id, d.Ref)
			}
		}
		o.Regions[id] = d
	}
	for i, it := range s.Items {
		c := ttmlObsCue{Begin: int64(it.StartAt), End: int64(it.EndAt), Attrs: attrsOf(it.InlineStyle)}
		if it.Region != nil {
			c.Region = it.Region.ID
			if s.Regions[c.Region] != it.Region {
				return o, fmt.Sprintf("cue %d: region %q is not the definition held by the region map", i, c.Region)
			}
		}
		if it.Style != nil {
			c.Style = it.Style.ID
			if s.Styles[c.Style] != it.Style {
				return o, fmt.Sprintf("cue %d: style %q is not the definition held by the style map", i, c.Style)
			}
		}
		for _, l := range it.Lines {
			var runs []ttmlObsRun
			for _, li := range l.Items {
				r := ttmlObsRun{Text: li.Text, Attrs: attrsOf(li.InlineStyle)}
				if li.Style != nil {
					r.Style = li.Style.ID
					if s.Styles[r.Style] != li.Style {
						return o, fmt.Sprintf("cue %d: run style %q is not the definition held by the style map", i, r.Style)
					}
				}
				runs = append(runs, r)
			}
			c.Lines = append(c.Lines, runs)
		}
		o.Cues = append(o.Cues, c)
	}
	return o, ""
}

var ttmlLangs = map[string]string{"zh": "chinese", "en": "english", "fr": "french", "ja": "japanese", "no": "norwegian"}

func attrsEq(a, b map[string]string) bool {
	if len(a) == 0 && len(b) == 0 {
		return true
	}
	return reflect.DeepEqual(a, b)
}

func normObsLines(lines [][]ttmlObsRun) [][]ttmlObsRun {
	var out [][]ttmlObsRun
	for _, l := range lines {
		var nl []ttmlObsRun
		for _, r := range l {
			if r.Text == "" {
				continue
			}
			if n := len(nl); n > 0 && nl[n-1].Style == r.Style && attrsEq(nl[n-1].Attrs, r.Attrs) {
				nl[n-1].Text += r.Text
			} else {
				nl = append(nl, r)
			}
		}
		out = append(out, nl)
	}
	return out
}

// diffTTML compares an observation with the model. exactTimes: per-cue exact
// rationals (ns) for begin and end.
func diffTTML(d ttmlDoc, o ttmlObs, who string) string {
	wantLang := ""
	if len(d.Lang) >= 2 {
		wantLang = ttmlLangs[d.Lang[:2]]
	}
	if o.Lang != wantLang {
		return fmt.Sprintf("%s: language %q, expected %q (xml:lang=%q)", who, o.Lang, wantLang, d.Lang)
	}
	if o.Title != d.Title || o.Copyright != d.Copyright {
		return fmt.Sprintf("%s: title/copyright %q/%q, expected %q/%q", who, o.Title, o.Copyright, d.Title, d.Copyright)
	}
	if len(o.Styles) != len(d.Styles) {
		return fmt.Sprintf("%s: %d styles, expected %d", who, len(o.Styles), len(d.Styles))
	}
	for _, st := range d.Styles {
		g, ok := o.Styles[st.ID]
		if !ok {
			return fmt.Sprintf("%s: style %q missing", who, st.ID)
		}
		if g.Ref != st.Ref {
			return fmt.Sprintf("%s: style %q inherits from %q, expected %q", who, st.ID, g.Ref, st.Ref)
		}
		if !attrsEq(g.Attrs, st.Attrs) {
			return fmt.Sprintf("%s: style %q attributes %v, expected %v", who, st.ID, g.Attrs, st.Attrs)
		}
	}
	if len(o.Regions) != len(d.Regions) {
		return fmt.Sprintf("%s: %d regions, expected %d", who, len(o.Regions), len(d.Regions))
	}
	for _, rg := range d.Regions {
		g, ok := o.Regions[rg.ID]
		if !ok {
			return fmt.Sprintf("%s: region %q missing", who, rg.ID)
		}
		if g.Ref != rg.Ref {
			return fmt.Sprintf("%s: region %q has style %q, expected %q", who, rg.ID, g.Ref, rg.Ref)
		}
		if !attrsEq(g.Attrs, rg.Attrs) {
			return fmt.Sprintf("%s: region %q attributes %v, expected %v", who, rg.ID, g.Attrs, rg.Attrs)
		}
	}
	if len(o.Cues) != len(d.Cues) {
		return fmt.Sprintf("%s: %d cues, expected %d", who, len(o.Cues), len(d.Cues))
	}
	one := new(big.Rat).SetInt64(1)
	for i, c := range d.Cues {
		g := o.Cues[i]
		for k, pair := range []struct {
			got  int64
			expr ttmlTime
		}{{g.Begin, c.Begin}, {g.End, c.End}} {
			want := pair.expr.exactNs(d.FrameRate, d.TickRate)
			diff := new(big.Rat).Sub(new(big.Rat).SetInt64(pair.got), want)
			if diff.Abs(diff).Cmp(one) >= 0 {
				return fmt.Sprintf("%s: cue %d boundary %d: %q (frameRate %d, tickRate %d) resolved to %d ns, it means %s ns", who, i, k, pair.expr.String(), d.FrameRate, d.TickRate, pair.got, want.FloatString(3))
			}
		}
		if g.Region != c.Region || g.Style != c.Style {
			return fmt.Sprintf("%s: cue %d region/style %q/%q, expected %q/%q", who, i, g.Region, g.Style, c.Region, c.Style)
		}
		if !attrsEq(g.Attrs, c.Attrs) {
			return fmt.Sprintf("%s: cue %d inline attributes %v, expected %v", who, i, g.Attrs, c.Attrs)
		}
		var want [][]ttmlObsRun
		for _, l := range c.Lines {
			var runs []ttmlObsRun
			for _, r := range l {
				runs = append(runs, ttmlObsRun{Text: r.Text, Style: r.Style, Attrs: r.Attrs})
			}
			want = append(want, runs)
		}
		want, got := normObsLines(want), normObsLines(g.Lines)
		if len(want) != len(got) {
			return fmt.Sprintf("%s: cue %d has %d lines %v, expected %d lines %v", who, i, len(got), got, len(want), want)
		}
		for j := range want {
			if len(want[j]) != len(got[j]) {
				return fmt.Sprintf("%s: cue %d line %d: runs %v, expected %v", who, i, j, got[j], want[j])
			}
			for k := range want[j] {
				a, b := want[j][k], got[j][k]
				if a.Text != b.Text || a.Style != b.Style || !attrsEq(a.Attrs, b.Attrs) {
					return fmt.Sprintf("%s: cue %d line %d run %d: %+v, expected %+v", who, i, j, k, b, a)
				}
			}
		}
	}
	return ""
}

// toSubtitlesTTML converts the model to the public types (write direction).
func toSubtitlesTTML(d ttmlDoc) *astisub.Subtitles {
	s := astisub.NewSubtitles()
	s.Metadata = &astisub.Metadata{Title: d.Title, TTMLCopyright: d.Copyright}
	if len(d.Lang) >= 2 {
		s.Metadata.Language = ttmlLangs[d.Lang[:2]]
	}
	for _, st := range d.Styles {
		sa := &astisub.StyleAttributes{}
		setAttrs(sa, st.Attrs)
		s.Styles[st.ID] = &astisub.Style{ID: st.ID, InlineStyle: sa}
	}
	for _, st := range d.Styles {
		if st.Ref != "" {
			s.Styles[st.ID].Style = s.Styles[st.Ref]
		}
	}
	for _, rg := range d.Regions {
		sa := &astisub.StyleAttributes{}
		setAttrs(sa, rg.Attrs)
		r := &astisub.Region{ID: rg.ID, InlineStyle: sa}
		if rg.Ref != "" {
			r.Style = s.Styles[rg.Ref]
		}
		s.Regions[rg.ID] = r
	}
	for _, c := range d.Cues {
		it := &astisub.Item{
			StartAt: time.Duration(ratFloorNs(c.Begin.exactNs(d.FrameRate, d.TickRate))),
			EndAt:   time.Duration(ratFloorNs(c.End.exactNs(d.FrameRate, d.TickRate))),
		}
		if len(c.Attrs) > 0 {
			it.InlineStyle = &astisub.StyleAttributes{}
			setAttrs(it.InlineStyle, c.Attrs)
		}
		if c.Region != "" {
			it.Region = s.Regions[c.Region]
		}
		if c.Style != "" {
			it.Style = s.Styles[c.Style]
		}
		for _, l := range c.Lines {
			ln := astisub.Line{}
			for _, r := range l {
				li := astisub.LineItem{Text: r.Text}
				if len(r.Attrs) > 0 {
					li.InlineStyle = &astisub.StyleAttributes{}
					setAttrs(li.InlineStyle, r.Attrs)
				}
				if r.Style != "" {
					li.Style = s.Styles[r.Style]
				}
				ln.Items = append(ln.Items, li)
			}
			it.Lines = append(it.Lines, ln)
		}
		s.Items = append(s.Items, it)
	}
	return s
}

func ratFloorNs(r *big.Rat) int64 {
	q := new(big.Int).Div(r.Num(), r.Denom())
	return q.Int64()
}

// ---------------------------------------------------------------------------
// Generators

var ttmlTextOpts = textOpts{
	extra:    []string{"&amp;", "&lt;", "<br/>", "<span>", "</p>", "&", "<", ">", "\"", "'", "]]>", "<!--", "&#10;", "a<b", "\t", "\ufffd", "\ufffc\ue000", "\U0001F600"},
	nbsp:     true,
	replChar: true,
}

func genAttrs(t *rapid.T, label string, max int) map[string]string {
	n := rapid.SampledFrom([]int{0, 0, 1, 1, 2, 3, max}).Draw(t, label+"n")
	if n == 0 {
		return nil
	}
	m := map[string]string{}
	for i := 0; i < n; i++ {
		k := rapid.SampledFrom(ttmlAttrNames).Draw(t, label+"k")
		m[k] = rapid.SampledFrom(ttmlAttrValues[k]).Draw(t, label+"v")
	}
	return m
}

func genTTMLTime(t *rapid.T, frameRate, tickRate int64, msGrid bool, label string) ttmlTime {
	h := rapid.SampledFrom([]int64{0, 0, 0, 1, 9, 10, 23, 99, 100, 123, 1000}).Draw(t, label+"h")
	m := rapid.Int64Range(0, 59).Draw(t, label+"m")
	s := rapid.Int64Range(0, 59).Draw(t, label+"s")
	if msGrid {
		return ttmlTime{Form: "clockfrac", H: h, M: m, S: s, Frac: fmt.Sprintf("%03d", rapid.IntRange(0, 999).Draw(t, label+"f"))}
	}
	forms := []string{"clock", "clockfrac", "clockfrac", "offset", "offset"}
	if frameRate > 0 {
		forms = append(forms, "clockframes", "offsetf")
	}
	if tickRate > 0 {
		forms = append(forms, "offsett")
	}
	switch rapid.SampledFrom(forms).Draw(t, label+"form") {
	case "clock":
		return ttmlTime{Form: "clock", H: h, M: m, S: s}
	case "clockfrac":
		nd := rapid.IntRange(1, 3).Draw(t, label+"nd")
		fr := fmt.Sprintf("%03d", rapid.IntRange(0, 999).Draw(t, label+"f"))[:nd]
		return ttmlTime{Form: "clockfrac", H: h, M: m, S: s, Frac: fr}
	case "clockframes":
		return ttmlTime{Form: "clockframes", H: h, M: m, S: s, Frames: rapid.Int64Range(0, frameRate-1).Draw(t, label+"ff")}
	case "offsetf":
		return ttmlTime{Form: "offset", Int: strconv.FormatInt(rapid.Int64Range(0, 100000).Draw(t, label+"nf"), 10), Metric: "f"}
	case "offsett":
		return ttmlTime{Form: "offset", Int: strconv.FormatInt(rapid.Int64Range(0, tickRate*4000).Draw(t, label+"nt"), 10), Metric: "t"}
	default:
		metric := rapid.SampledFrom([]string{"h", "m", "s", "s", "ms"}).Draw(t, label+"metric")
		max := map[string]int64{"h": 99, "m": 5999, "s": 359999, "ms": 359999999}[metric]
		tt := ttmlTime{Form: "offset", Int: strconv.FormatInt(rapid.Int64Range(0, max).Draw(t, label+"n"), 10), Metric: metric}
		if rapid.Bool().Draw(t, label+"hasdec") {
			nd := rapid.IntRange(1, 3).Draw(t, label+"nd")
			tt.Dec = fmt.Sprintf("%03d", rapid.IntRange(0, 999).Draw(t, label+"dec"))[:nd]
		}
		return tt
	}
}

func genTTMLDoc(t *rapid.T, write bool) ttmlDoc {
	d := ttmlDoc{
		Lang:      rapid.SampledFrom([]string{"", "en", "fr", "zh", "ja", "no", "en-GB", "de", "fr-CA"}).Draw(t, "lang"),
		Title:     rapid.SampledFrom([]string{"", "", "Title", "A & B <c>", "标题", "Line one\nline two", "two  spaces and\ta tab"}).Draw(t, "title"),
		Copyright: rapid.SampledFrom([]string{"", "", "(c) 2020 \"X\"", "Copyright", "(c) A\n(c) B\n"}).Draw(t, "copyright"),
	}
	if !write {
		d.FrameRate = rapid.SampledFrom([]int64{0, 0, 24, 25, 30, 50, 60}).Draw(t, "framerate")
		d.TickRate = rapid.SampledFrom([]int64{0, 0, 1, 1000, 90000, 10000000}).Draw(t, "tickrate")
	}
	ids := []string{"s0", "s1", "a", "B", "_x", "s10"}
	ns := rapid.SampledFrom([]int{0, 1, 2, 3, 4, 5}).Draw(t, "nstyles")
	for i := 0; i < ns; i++ {
		st := ttmlDef{ID: ids[i], Attrs: genAttrs(t, "sa", 6)}
		// parent among the *other* styles with a smaller or larger index: a forest (parent index < own index avoids cycles),
		// rendered in an order that may place children before parents
		if i > 0 && rapid.IntRange(0, 2).Draw(t, "hasparent") > 0 {
			st.Ref = ids[rapid.IntRange(0, i-1).Draw(t, "parent")]
		}
		d.Styles = append(d.Styles, st)
	}
	if len(d.Styles) > 1 && rapid.Bool().Draw(t, "shuffle") {
		p := genPerm(t, len(d.Styles), "sperm")
		sh := make([]ttmlDef, len(d.Styles))
		for i, j := range p {
			sh[i] = d.Styles[j]
		}
		d.Styles = sh
	}
	nr := rapid.SampledFrom([]int{0, 0, 1, 2, 3}).Draw(t, "nregions")
	rids := []string{"r0", "bottom", "top"}
	for i := 0; i < nr; i++ {
		rg := ttmlDef{ID: rids[i], Attrs: genAttrs(t, "ra", 4)}
		if ns > 0 && rapid.Bool().Draw(t, "rstyle") {
			rg.Ref = rapid.SampledFrom(d.Styles).Draw(t, "rstyleid").ID
		}
		d.Regions = append(d.Regions, rg)
	}
	nc := rapid.IntRange(0, 6).Draw(t, "cues")
	for i := 0; i < nc; i++ {
		c := ttmlCue{
			Begin: genTTMLTime(t, d.FrameRate, d.TickRate, write, "b"),
			End:   genTTMLTime(t, d.FrameRate, d.TickRate, write, "e"),
			Attrs: genAttrs(t, "ca", 3),
		}
		if nr > 0 && rapid.Bool().Draw(t, "hasregion") {
			c.Region = rapid.SampledFrom(d.Regions).Draw(t, "region").ID
		}
		if ns > 0 && rapid.Bool().Draw(t, "hasstyle") {
			c.Style = rapid.SampledFrom(d.Styles).Draw(t, "style").ID
		}
		nl := rapid.IntRange(1, 3).Draw(t, "lines")
		for j := 0; j < nl; j++ {
			nrn := rapid.IntRange(1, 3).Draw(t, "runs")
			var runs []ttmlRun
			for k := 0; k < nrn; k++ {
				run := ttmlRun{Text: genText(t, ttmlTextOpts), Span: true}
				if !write && rapid.IntRange(0, 3).Draw(t, "anon") == 0 {
					run.Span = false
					if rapid.IntRange(0, 2).Draw(t, "trailingblank") == 0 {
						run.Text += " "
					}
				}
				if run.Span {
					run.Attrs = genAttrs(t, "pa", 2)
					if ns > 0 && rapid.IntRange(0, 2).Draw(t, "runstyle") == 0 {
						run.Style = rapid.SampledFrom(d.Styles).Draw(t, "runstyleid").ID
					}
				}
				if k > 0 && rapid.Bool().Draw(t, "lead") {
					run.Text = " " + run.Text
				}
				// a span holding nothing but a blank (the usual way to separate two styled words)
				if run.Span && k > 0 && k < nrn-1 && rapid.IntRange(0, 2).Draw(t, "blankspan") == 0 {
					run.Text = " "
				}
				runs = append(runs, run)
			}
			// continuation: first run of the line may repeat the last span of the previous line (br inside a span)
			if j > 0 && rapid.IntRange(0, 2).Draw(t, "cont") == 0 {
				prev := c.Lines[j-1][len(c.Lines[j-1])-1]
				if prev.Span {
					runs[0].Span, runs[0].Style, runs[0].Attrs = true, prev.Style, prev.Attrs
				}
			}
			c.Lines = append(c.Lines, runs)
		}
		d.Cues = append(d.Cues, c)
	}
	return d
}

// addEmptyLines gives some cues an empty line: two line breaks in a row, a break right after <p> or right before </p>.
func addEmptyLines(t *rapid.T, d *ttmlDoc) {
	for i := range d.Cues {
		c := &d.Cues[i]
		if rapid.IntRange(0, 9).Draw(t, "contentless") == 0 {
			// a paragraph without any content: a cue all the same (one line without runs)
			c.Lines = [][]ttmlRun{{}}
			continue
		}
		if rapid.IntRange(0, 3).Draw(t, "emptyline") == 0 {
			at := rapid.IntRange(0, len(c.Lines)).Draw(t, "emptyat")
			ls := append([][]ttmlRun(nil), c.Lines[:at]...)
			ls = append(ls, []ttmlRun{})
			c.Lines = append(ls, c.Lines[at:]...)
		}
	}
}

func genTTMLRendering(t *rapid.T) ttmlRendering {
	return ttmlRendering{
		Indent:     rapid.SampledFrom([]string{"", "  ", "    ", "\t"}).Draw(t, "indent"),
		PIndent:    rapid.Bool().Draw(t, "pindent"),
		StylePfx:   rapid.SampledFrom([]string{"tts", "tts", "s", ""}).Draw(t, "pfx"),
		XMLID:      rapid.Bool().Draw(t, "xmlid"),
		Decl:       rapid.Bool().Draw(t, "decl"),
		NumericRef: rapid.IntRange(0, 2).Draw(t, "numref"),
		BrInSpan:   rapid.Bool().Draw(t, "brinspan"),
		BrEdge:     rapid.IntRange(0, 3).Draw(t, "bredge") == 0,
		TwoDivs:    rapid.IntRange(0, 3).Draw(t, "twodivs") == 0,
		BrLong:     rapid.IntRange(0, 3).Draw(t, "brlong") == 0,
		AnonBreak:  rapid.IntRange(0, 2).Draw(t, "anonbreak") == 0,
		BrForm:     rapid.SampledFrom([]int{0, 0, 1, 2}).Draw(t, "brform"),
		EOL:        rapid.SampledFrom([]string{"\n", "\n", "\r\n"}).Draw(t, "eol"),
	}
}

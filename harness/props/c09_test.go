package props

import (
	"fmt"
	"testing"
	"time"

	astisub "github.com/asticode/go-astisub"
	"pgregory.net/rapid"
)

// C09 - Sync (Subtitles.Add): executable specification
//
//   survivors = cues with end+d > 0, original relative order, same pointers
//   start'    = max(0, start+d); end' = end+d; everything else untouched
//   Add(d) then Add(-d) restores every cue neither clamped nor removed.

type c09Case struct {
	Cues []cueSpec `json:"cues"`
	D    int64     `json:"d"`
	// Cap: extra capacity of the Items slice (the implementation deletes in place)
	Cap int `json:"cap"`
	// History: the Subtitles value went through other operations first, while it held other cues (ordered, merged,
	// fragmented, unfragmented); the caller then put the cues of this case into its public Items field
	History bool `json:"history,omitempty"`
}

func init() { register("c09", checkC09) }

func checkC09(c c09Case) string {
	b := buildList(c.Cues)
	if c.Cap > 0 {
		grown := make([]*astisub.Item, len(b.sub.Items), len(b.sub.Items)+c.Cap)
		copy(grown, b.sub.Items)
		b.sub.Items = grown
	}
	if c.History {
		keep := b.sub.Items
		b.sub.Items = []*astisub.Item{{StartAt: time.Second, EndAt: 2 * time.Second, Lines: textLines("h")}, {StartAt: 3 * time.Second, EndAt: 9 * time.Second, Lines: textLines("h")}}
		b.sub.Order()
		b.sub.Merge(astisub.NewSubtitles())
		b.sub.Fragment(2 * time.Second)
		b.sub.Unfragment()
		b.sub.Items = keep
	}
	d := time.Duration(c.D)
	b.sub.Add(d)
	if m := b.metaDiff(); m != "" {
		return m
	}

	// expected
	type exp struct {
		idx     int
		s, e    int64
		clamped bool
	}
	var want []exp
	for i, cu := range c.Cues {
		if cu.E+c.D > 0 {
			s := cu.S + c.D
			cl := false
			if s < 0 {
				s, cl = 0, true
			}
			want = append(want, exp{i, s, cu.E + c.D, cl})
		}
	}
	if len(b.sub.Items) != len(want) {
		return fmt.Sprintf("after Add(%d): %d cues survive, specification says %d; in: %s out: %s", c.D, len(b.sub.Items), len(want), fmtSpecs(c.Cues), fmtItems(b.sub.Items))
	}
	for k, w := range want {
		it := b.sub.Items[k]
		if it != b.items[w.idx] {
			return fmt.Sprintf("position %d holds original cue #%d, specification says #%d (order/identity); in: %s d=%d out: %s", k, b.indexOf(it), w.idx, fmtSpecs(c.Cues), c.D, fmtItems(b.sub.Items))
		}
		if int64(it.StartAt) != w.s || int64(it.EndAt) != w.e {
			return fmt.Sprintf("cue #%d became [%d,%d), specification says [%d,%d); d=%d in: %s", w.idx, int64(it.StartAt), int64(it.EndAt), w.s, w.e, c.D, fmtSpecs(c.Cues))
		}
		if m := contentDiff(it, b.snaps[w.idx]); m != "" {
			return fmt.Sprintf("cue #%d: %s", w.idx, m)
		}
	}
	if len(b.sub.Styles) != 1 || len(b.sub.Regions) != 1 || b.sub.Styles["st"] != b.style || b.sub.Regions["rg"] != b.reg {
		return "style/region maps modified by Add"
	}
	// another list being shifted, cut, merged ... is none of this list's business
	before := timeline(b.sub)
	unrelatedActivity()
	if after := timeline(b.sub); after != before {
		return fmt.Sprintf("the list changed while operations ran on another, unrelated list: %s -> %s", before, after)
	}
	// inverse
	b.sub.Add(-d)
	k := 0
	for _, w := range want {
		// after the second shift a cue may disappear again only if its end <= 0, impossible for
		// unclamped survivors unless the original end was <= 0 (not removed means e+d>0, e may be 0 or
		// less only if d>0; then e+d-d = e <= 0 is removed by the second call, legitimately).
		orig := c.Cues[w.idx]
		if orig.E <= 0 {
			continue // second call removes it per the same specification
		}
		if k >= len(b.sub.Items) || b.sub.Items[k] != b.items[w.idx] {
			return fmt.Sprintf("after Add(d);Add(-d) cue #%d missing or out of order; out: %s", w.idx, fmtItems(b.sub.Items))
		}
		it := b.sub.Items[k]
		k++
		if w.clamped || orig.S < 0 {
			// clamped by the first shift, or (start below zero to begin with) by the second one
			continue
		}
		if int64(it.StartAt) != orig.S || int64(it.EndAt) != orig.E {
			return fmt.Sprintf("Add(%d);Add(%d) did not restore unclamped cue #%d: [%d,%d) vs original [%d,%d)", c.D, -c.D, w.idx, int64(it.StartAt), int64(it.EndAt), orig.S, orig.E)
		}
	}
	// a third shift of the same cue objects (forwards: nothing to clamp or remove unless an end is still at or below
	// zero): every cue moves by exactly that much, whatever happened to it before
	type se struct{ s, e int64 }
	var now []se
	for _, it := range b.sub.Items {
		now = append(now, se{int64(it.StartAt), int64(it.EndAt)})
	}
	const third int64 = 7 * nsMs
	kept := append([]*astisub.Item(nil), b.sub.Items...)
	b.sub.Add(time.Duration(third))
	j := 0
	for i, it := range kept {
		if now[i].e+third <= 0 {
			continue
		}
		ws := now[i].s + third
		if ws < 0 {
			ws = 0
		}
		if j >= len(b.sub.Items) || b.sub.Items[j] != it || int64(it.StartAt) != ws || int64(it.EndAt) != now[i].e+third {
			return fmt.Sprintf("third shift (by %d) of cues already shifted by %d and %d: cue that was [%d,%d) is [%d,%d), specification says [%d,%d)", third, c.D, -c.D, now[i].s, now[i].e, int64(it.StartAt), int64(it.EndAt), ws, now[i].e+third)
		}
		j++
	}
	return ""
}

func c09NonTrivial(c c09Case) (bool, []string) {
	removed, clamped, consec := 0, 0, false
	prevRemoved := false
	for _, cu := range c.Cues {
		r := cu.E+c.D <= 0
		if r {
			removed++
			if prevRemoved {
				consec = true
			}
		} else if cu.S+c.D < 0 {
			clamped++
		}
		prevRemoved = r
	}
	var ls []string
	for _, cu := range c.Cues {
		if cu.S < 0 {
			ls = append(ls, "negative-start-before-the-shift")
			break
		}
	}
	if removed > 0 {
		ls = append(ls, "removal")
	}
	if clamped > 0 {
		ls = append(ls, "clamp")
	}
	if consec {
		ls = append(ls, "consecutive-removals")
	}
	if removed > 0 && removed < len(c.Cues) {
		ls = append(ls, "partial-removal")
	}
	return removed > 0 || clamped > 0, ls
}

func TestC09(t *testing.T) {
	runWitnesses(t, "C09")
	cliCases(t, "C09", "sync")

	// Exhaustive: all lists of <=3 cues with 0<=s<=e<=4 (unit 1 ms) x d in -6..3, sharded by index.
	sub(t, "grid", func(t *testing.T) {
		var pairs [][2]int64
		for s := int64(0); s <= 4; s++ {
			for e := s; e <= 4; e++ {
				pairs = append(pairs, [2]int64{s, e})
			}
		}
		idx := 0
		var rec func(prefix []cueSpec, depth int)
		rec = func(prefix []cueSpec, depth int) {
			for d := int64(-6); d <= 3; d++ {
				if idx%cfgShards == cfgShard {
					c := c09Case{Cues: append([]cueSpec(nil), prefix...), D: d * nsMs, Cap: int(idx % 2)}
					nt, ls := c09NonTrivial(c)
					ev.Case(nt, fmt.Sprintf("g%v", c), append(ls, "grid")...)
					if nt {
						ev.Sample("grid", c)
					}
					verdict(t, "C09", "c09", c, checkC09)
				}
				idx++
			}
			if depth == 3 {
				return
			}
			for _, p := range pairs {
				rec(append(prefix, cueSpec{S: p[0] * nsMs, E: p[1] * nsMs, T: opTexts[depth%2]}), depth+1)
			}
		}
		rec(nil, 0)
		ev.Note("exhaustive-grid", fmt.Sprintf("all %d (list,d) pairs: lists of <=3 cues with 0<=s<=e<=4 ms, d in -6..3 ms, over all shards", idx))
	})

	rapidCheck(t, "C09/random", tier(20000, 8000000), func(rt *rapid.T) {
		span := rapid.SampledFrom([]int64{24 * nsHour, 24 * nsHour, 24 * nsHour, 130 * nsHour, 1000 * nsHour, 6000 * nsHour}).Draw(rt, "span")
		cues := genCues(rt, 0, 8, span, opTextsWide)
		if span > 24*nsHour {
			// (a capture running for days, times in a format with more than two hour digits)
			ev.Label("instants-beyond-100-hours")
		}
		if rapid.IntRange(0, 3).Draw(rt, "negative") == 0 && len(cues) > 0 {
			// boundaries below zero (as a linear correction or an earlier hand edit may leave them): start <= end still holds
			off := rapid.SampledFrom([]int64{1, nsMs, 5 * nsMs, cues[0].E + 1, cues[len(cues)-1].S + nsMs}).Draw(rt, "negoff")
			for i := range cues {
				cues[i].S, cues[i].E = cues[i].S-off, cues[i].E-off
			}
		}
		var maxEnd int64
		for _, cu := range cues {
			if cu.E > maxEnd {
				maxEnd = cu.E
			}
		}
		var d int64
		switch rapid.IntRange(0, 5).Draw(rt, "dk") {
		case 0: // exactly on a boundary of some cue
			if len(cues) > 0 {
				cu := rapid.SampledFrom(cues).Draw(rt, "dc")
				d = -rapid.SampledFrom([]int64{cu.S, cu.E}).Draw(rt, "db") + rapid.Int64Range(-1, 1).Draw(rt, "dd")
			}
		case 1:
			d = rapid.Int64Range(-maxEnd-1, 0).Draw(rt, "d")
		case 2:
			d = rapid.Int64Range(0, 24*nsHour).Draw(rt, "d")
		default:
			d = rapid.Int64Range(-maxEnd-1, 24*nsHour).Draw(rt, "d")
		}
		if d < -maxEnd-1 {
			d = -maxEnd - 1
		}
		c := c09Case{Cues: cues, D: d, Cap: rapid.IntRange(0, 2).Draw(rt, "cap"), History: rapid.IntRange(0, 3).Draw(rt, "history") == 0}
		nt, ls := c09NonTrivial(c)
		ev.Case(nt, fmt.Sprintf("%v", c), append(ls, "random")...)
		if nt {
			ev.Sample("random", c)
		}
		verdict(rt, "C09", "c09", c, checkC09)
	})
}

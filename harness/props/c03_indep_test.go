package props

import (
	"bytes"
	"encoding/xml"
	"fmt"
	"io"
	"regexp"
	"strconv"
	"strings"
)

// Independent TTML decoder: a raw token walk over encoding/xml (the property
// allows encoding/xml), own time-expression evaluator, own <br/>/span walker.

var (
	indepClockRe  = regexp.MustCompile(`^(\d{2,}):(\d{2}):(\d{2})(?:\.(\d+)|:(\d{2,}))?$`)
	indepOffsetRe = regexp.MustCompile(`^(\d+)(?:\.(\d+))?(h|m|s|ms|f|t)$`)
)

func parseTTMLTimeIndep(s string) (ttmlTime, error) {
	if m := indepClockRe.FindStringSubmatch(s); m != nil {
		h, _ := strconv.ParseInt(m[1], 10, 64)
		mi, _ := strconv.ParseInt(m[2], 10, 64)
		se, _ := strconv.ParseInt(m[3], 10, 64)
		if mi > 59 || se > 59 {
			return ttmlTime{}, fmt.Errorf("minutes/seconds out of range in %q", s)
		}
		switch {
		case m[4] != "":
			return ttmlTime{Form: "clockfrac", H: h, M: mi, S: se, Frac: m[4]}, nil
		case m[5] != "":
			f, _ := strconv.ParseInt(m[5], 10, 64)
			return ttmlTime{Form: "clockframes", H: h, M: mi, S: se, Frames: f}, nil
		}
		return ttmlTime{Form: "clock", H: h, M: mi, S: se}, nil
	}
	if m := indepOffsetRe.FindStringSubmatch(s); m != nil {
		return ttmlTime{Form: "offset", Int: m[1], Dec: m[2], Metric: m[3]}, nil
	}
	return ttmlTime{}, fmt.Errorf("not a TTML time expression: %q", s)
}

const ttsNS = "http://www.w3.org/ns/ttml#styling"

func indepAttrs(se xml.StartElement) (id, style, region, begin, end string, attrs map[string]string) {
	attrs = map[string]string{}
	known := map[string]bool{}
	for _, n := range ttmlAttrNames {
		known[n] = true
	}
	for _, a := range se.Attr {
		switch {
		case a.Name.Local == "id" && (a.Name.Space == "" || a.Name.Space == "xml" || a.Name.Space == "http://www.w3.org/XML/1998/namespace"):
			id = a.Value
		case a.Name.Local == "style" && a.Name.Space == "":
			style = a.Value
		case a.Name.Local == "region" && a.Name.Space == "":
			region = a.Value
		case a.Name.Local == "begin" && a.Name.Space == "":
			begin = a.Value
		case a.Name.Local == "end" && a.Name.Space == "":
			end = a.Value
		case a.Name.Space == ttsNS && known[a.Name.Local]:
			attrs[a.Name.Local] = a.Value
		}
	}
	return
}

func decodeTTMLIndep(b []byte) (ttmlObs, error) {
	o := ttmlObs{Styles: map[string]ttmlDef{}, Regions: map[string]ttmlDef{}}
	dec := xml.NewDecoder(bytes.NewReader(b))
	var path []string
	var cue *ttmlObsCue
	var line []ttmlObsRun
	var spanDepth int
	var curRun *ttmlObsRun
	var textTarget *string
	var frameRate int64
	for {
		tok, err := dec.Token()
		if err == io.EOF {
			break
		}
		if err != nil {
			return o, err
		}
		switch t := tok.(type) {
		case xml.StartElement:
			path = append(path, t.Name.Local)
			p := strings.Join(path, "/")
			switch {
			case p == "tt":
				for _, a := range t.Attr {
					if a.Name.Local == "lang" {
						if len(a.Value) >= 2 {
							o.Lang = ttmlLangs[a.Value[:2]]
						}
					}
					if a.Name.Local == "frameRate" {
						frameRate, _ = strconv.ParseInt(a.Value, 10, 64)
					}
				}
			case p == "tt/head/metadata/title":
				textTarget = &o.Title
			case p == "tt/head/metadata/copyright":
				textTarget = &o.Copyright
			case p == "tt/head/styling/style":
				id, style, _, _, _, attrs := indepAttrs(t)
				o.Styles[id] = ttmlDef{ID: id, Ref: style, Attrs: attrs}
			case p == "tt/head/layout/region":
				id, style, _, _, _, attrs := indepAttrs(t)
				o.Regions[id] = ttmlDef{ID: id, Ref: style, Attrs: attrs}
			case p == "tt/body/div/p":
				_, style, region, begin, end, attrs := indepAttrs(t)
				bt, err := parseTTMLTimeIndep(begin)
				if err != nil {
					return o, err
				}
				et, err := parseTTMLTimeIndep(end)
				if err != nil {
					return o, err
				}
				cue = &ttmlObsCue{Begin: ratFloorNs(bt.exactNs(frameRate, 0)), End: ratFloorNs(et.exactNs(frameRate, 0)), Region: region, Style: style, Attrs: attrs}
				line = nil
			case cue != nil && t.Name.Local == "br":
				cue.Lines = append(cue.Lines, line)
				line = nil
				if curRun != nil {
					// a break inside a span: the span continues on the next line
					c := *curRun
					c.Text = ""
					curRun = &c
				}
			case cue != nil && t.Name.Local == "span":
				spanDepth++
				if spanDepth > 1 {
					return o, fmt.Errorf("nested span")
				}
				_, style, _, _, _, attrs := indepAttrs(t)
				curRun = &ttmlObsRun{Style: style, Attrs: attrs}
			}
		case xml.EndElement:
			if cue != nil && t.Name.Local == "span" {
				spanDepth--
				curRun = nil
			}
			if strings.Join(path, "/") == "tt/body/div/p" {
				cue.Lines = append(cue.Lines, line)
				o.Cues = append(o.Cues, *cue)
				cue = nil
			}
			textTarget = nil
			path = path[:len(path)-1]
		case xml.CharData:
			s := string(t)
			if textTarget != nil {
				*textTarget += s
				continue
			}
			if cue == nil {
				continue
			}
			if curRun != nil {
				if s != "" {
					r := *curRun
					r.Text = s
					line = append(line, r)
				}
			} else if strings.TrimSpace(s) != "" {
				line = append(line, ttmlObsRun{Text: s})
			}
		}
	}
	o.FrameRate = frameRate
	return o, nil
}

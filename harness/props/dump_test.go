package props

import (
	"fmt"
	"reflect"
	"sort"
	"strings"
	"time"

	astisub "github.com/asticode/go-astisub"
)

// canon renders any value of the public types as a canonical string: pointers
// are followed and numbered in first-visit order (so aliasing and identity are
// part of the dump, and cycles terminate), maps are printed in key order.
func canon(v any) string {
	c := &canonizer{ids: map[uintptr]int{}}
	c.walk(reflect.ValueOf(v), 0)
	return c.sb.String()
}

type canonizer struct {
	sb  strings.Builder
	ids map[uintptr]int
}

var (
	durType  = reflect.TypeOf(time.Duration(0))
	timeType = reflect.TypeOf(time.Time{})
)

func (c *canonizer) walk(v reflect.Value, depth int) {
	if !v.IsValid() {
		c.sb.WriteString("nil")
		return
	}
	if depth > 64 {
		c.sb.WriteString("<deep>")
		return
	}
	switch v.Type() {
	case durType:
		fmt.Fprintf(&c.sb, "%dns", v.Int())
		return
	case timeType:
		t := v.Interface().(time.Time)
		c.sb.WriteString(t.UTC().Format(time.RFC3339Nano))
		return
	}
	switch v.Kind() {
	case reflect.Ptr:
		if v.IsNil() {
			c.sb.WriteString("nil")
			return
		}
		p := v.Pointer()
		if id, ok := c.ids[p]; ok {
			fmt.Fprintf(&c.sb, "&%d", id)
			return
		}
		id := len(c.ids) + 1
		c.ids[p] = id
		fmt.Fprintf(&c.sb, "&%d=", id)
		c.walk(v.Elem(), depth+1)
	case reflect.Interface:
		if v.IsNil() {
			c.sb.WriteString("nil")
			return
		}
		c.walk(v.Elem(), depth+1)
	case reflect.Struct:
		c.sb.WriteString("{")
		first := true
		for i := 0; i < v.NumField(); i++ {
			f := v.Type().Field(i)
			if f.PkgPath != "" {
				continue
			}
			fv := v.Field(i)
			if isZero(fv) {
				continue
			}
			if !first {
				c.sb.WriteString(" ")
			}
			first = false
			c.sb.WriteString(f.Name + ":")
			c.walk(fv, depth+1)
		}
		c.sb.WriteString("}")
	case reflect.Slice:
		if v.IsNil() {
			c.sb.WriteString("nil")
			return
		}
		c.sb.WriteString("[")
		for i := 0; i < v.Len(); i++ {
			if i > 0 {
				c.sb.WriteString(" ")
			}
			c.walk(v.Index(i), depth+1)
		}
		c.sb.WriteString("]")
	case reflect.Map:
		if v.IsNil() {
			c.sb.WriteString("nil")
			return
		}
		keys := v.MapKeys()
		sort.Slice(keys, func(i, j int) bool { return fmt.Sprint(keys[i].Interface()) < fmt.Sprint(keys[j].Interface()) })
		c.sb.WriteString("map[")
		for i, k := range keys {
			if i > 0 {
				c.sb.WriteString(" ")
			}
			fmt.Fprintf(&c.sb, "%v:", k.Interface())
			c.walk(v.MapIndex(k), depth+1)
		}
		c.sb.WriteString("]")
	case reflect.String:
		fmt.Fprintf(&c.sb, "%q", v.String())
	default:
		fmt.Fprintf(&c.sb, "%v", v.Interface())
	}
}

func isZero(v reflect.Value) bool {
	switch v.Kind() {
	case reflect.Ptr, reflect.Interface, reflect.Map, reflect.Slice:
		return v.IsNil()
	case reflect.Struct:
		return false
	}
	return v.IsZero()
}

// canonResult dumps what a reader returned: the value, or the fact of failing.
func canonResult(s *astisub.Subtitles, err error) string {
	if err != nil {
		return "ERROR"
	}
	return canon(s)
}

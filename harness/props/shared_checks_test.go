package props

import (
	"bytes"
	"fmt"
	"io"
	"os"
	"path/filepath"
	"reflect"
	"testing/iotest"
	"time"

	astisub "github.com/asticode/go-astisub"
)

// Checks shared by the per-format fidelity properties (C01-C05).

// addForeignMetadata fills the metadata fields that the destination format has no place for with values as another
// format's reader would leave them: what the written document denotes may not change.
func addForeignMetadata(format string, s *astisub.Subtitles) {
	if s.Metadata == nil {
		s.Metadata = &astisub.Metadata{}
	}
	m := s.Metadata
	ssa := func() {
		one, x := 1, 384
		timer := 100.0
		m.SSACollisions, m.SSAOriginalScript, m.SSAPlayDepth, m.SSAPlayResX, m.SSATimer, m.SSAWrapStyle = "Normal", "someone", &one, &x, &timer, "0"
	}
	stl := func() {
		d := time.Date(2020, 2, 3, 0, 0, 0, 0, time.UTC)
		m.STLCountryOfOrigin, m.STLCreationDate, m.STLEditorName, m.STLPublisher, m.STLTranslatorName = "FRA", &d, "ed", "pub", "tr"
		m.STLOriginalEpisodeTitle, m.STLRevisionNumber = "episode", 3
	}
	switch format {
	case "srt":
		m.Comments, m.Title, m.Language, m.TTMLCopyright, m.Framerate = []string{"a script comment"}, "title", astisub.LanguageFrench, "(c)", 25
		ssa()
		stl()
		m.WebVTTTimestampMap = &astisub.WebVTTTimestampMap{Local: time.Second, MpegTS: 900000}
	case "vtt":
		m.Comments, m.Title, m.Language, m.TTMLCopyright, m.Framerate = []string{"a script comment", "another"}, "title", astisub.LanguageFrench, "(c)", 25
		ssa()
		stl()
	case "ttml":
		m.Comments = []string{"a script comment"}
		ssa()
		stl()
		m.WebVTTTimestampMap = &astisub.WebVTTTimestampMap{Local: time.Second, MpegTS: 900000}
	case "ssa":
		m.Language, m.TTMLCopyright, m.Framerate = astisub.LanguageFrench, "(c)", 25
		stl()
		m.WebVTTTimestampMap = &astisub.WebVTTTimestampMap{Local: time.Second, MpegTS: 900000}
	case "stl":
		m.Comments, m.TTMLCopyright = []string{"a script comment"}, "(c)"
		ssa()
		m.WebVTTTimestampMap = &astisub.WebVTTTimestampMap{Local: time.Second, MpegTS: 900000}
	}
}

// fileWriteAgrees writes the list through the file-level helper under every extension of the format and compares the
// files with what the writer hands to an io.Writer; the caller's list may not change.
func fileWriteAgrees(format string, s *astisub.Subtitles) string {
	restore := astisub.Now
	astisub.Now = func() time.Time { return c19NowA }
	defer func() { astisub.Now = restore }()
	var ref bytes.Buffer
	if err := writeFormat(format, s, &ref); err != nil {
		return ""
	}
	dir, err := os.MkdirTemp("", "filewrite")
	if err != nil {
		return ""
	}
	defer os.RemoveAll(dir)
	exts := map[string][]string{"srt": {"srt", "SRT"}, "vtt": {"vtt"}, "ttml": {"ttml"}, "ssa": {"ssa", "ass"}, "stl": {"stl"}}[format]
	before := canon(s)
	for _, ext := range exts {
		p := filepath.Join(dir, "out."+ext)
		// the path already holds an older, longer document
		_ = os.WriteFile(p, append(append([]byte(nil), ref.Bytes()...), bytes.Repeat([]byte("9\n99:00:00,000 --> 99:00:01,000\nstale\n\n"), 20)...), 0o644)
		if err := s.Write(p); err != nil {
			return fmt.Sprintf("Write(out.%s) failed although the %s writer accepts the list: %v", ext, format, err)
		}
		b, _ := os.ReadFile(p)
		if !bytes.Equal(b, ref.Bytes()) {
			return fmt.Sprintf("the file written by Write(out.%s) differs from what the %s writer produces for the same list\n--- file ---\n%s\n--- writer ---\n%s", ext, format, clip(string(b), 700), clip(ref.String(), 700))
		}
		if after := canon(s); after != before {
			return fmt.Sprintf("Write(out.%s) modified the list it was given\n--- before ---\n%s\n--- after ---\n%s", ext, clip(before, 500), clip(after, 500))
		}
	}
	return ""
}

// priorFailedWrite makes the process go through a write of another list that fails half way (the destination breaks):
// what a later, unrelated write produces may not depend on it.
func priorFailedWrite(format string, failAt, mode int) {
	o := buildList([]cueSpec{{S: 0, E: nsMs * 1000, T: "leftover|of a failed write"}, {S: 2000 * nsMs, E: 3000 * nsMs, T: "second leftover"}})
	o.sub.Metadata = &astisub.Metadata{Framerate: 25, STLDisplayStandardCode: "0", Title: "leftover"}
	func() {
		defer func() { _ = recover() }()
		_ = writeFormat(format, o.sub, &faultWriter{k: failAt, mode: mode})
	}()
}

// addForeignAttributes sets, on every attribute set of the list, attributes that belong to other formats than the
// destination (as a reader of another format, or its propagation step, leaves them): the destination's own
// attributes decide what is written.
func addForeignAttributes(format string, s *astisub.Subtitles) {
	col := "lime"
	t, two := true, 2
	f := 1.5
	each := func(sa *astisub.StyleAttributes) {
		if sa == nil {
			return
		}
		if format != "srt" {
			sa.SRTBold, sa.SRTItalics, sa.SRTUnderline = true, true, true
		}
		if format != "srt" && format != "ttml" && format != "vtt" {
			sa.SRTColor = &col
		}
		if format != "ssa" {
			sa.SSAFontName, sa.SSAFontSize, sa.SSABold, sa.SSAAlignment = "Zapf", &f, &t, &two
		}
		if format != "stl" {
			sa.STLBoxing, sa.STLItalics, sa.TeletextDoubleHeight, sa.TeletextSpacesBefore = &t, &t, &t, &two
		}
		if format != "vtt" && format != "ttml" {
			sa.WebVTTAlign, sa.WebVTTLine, sa.WebVTTBold = "end", "10%", true
		}
		if format == "ttml" && sa.TTMLTextAlign != nil && *sa.TTMLTextAlign != "end" {
			// both alignments present and different (a TTML value edited after a WebVTT one was propagated)
			sa.WebVTTAlign = "end"
		}
	}
	for _, st := range s.Styles {
		each(st.InlineStyle)
	}
	for _, rg := range s.Regions {
		each(rg.InlineStyle)
	}
	for _, it := range s.Items {
		each(it.InlineStyle)
		for li := range it.Lines {
			for ri := range it.Lines[li].Items {
				each(it.Lines[li].Items[ri].InlineStyle)
			}
		}
	}
}

// deliver returns a reader over doc whose way of handing out the bytes is a function of the document (so that a case
// replays the same way): everything at once, one byte at a time, half of what is asked, the last bytes with io.EOF.
func deliver(doc []byte) io.Reader {
	switch (len(doc) + int(strHash(string(doc))%7)) % 4 {
	case 1:
		return iotest.OneByteReader(bytes.NewReader(doc))
	case 2:
		return iotest.HalfReader(bytes.NewReader(doc))
	case 3:
		return iotest.DataErrReader(bytes.NewReader(doc))
	}
	return bytes.NewReader(doc)
}

// scribble edits everything a caller may edit in a list it got from a reader.
func scribble(s *astisub.Subtitles) {
	mark := "scribble"
	edit := func(sa *astisub.StyleAttributes) {
		if sa == nil {
			return
		}
		// first through the pointers the reader handed out (what they point at is the caller's as well; colours
		// excepted: they are the package's exported colour values, shared by design) ...
		v := reflect.ValueOf(sa).Elem()
		for i := 0; i < v.NumField(); i++ {
			f := v.Field(i)
			if f.Kind() != reflect.Ptr || f.IsNil() || !f.Elem().CanSet() {
				continue
			}
			switch e := f.Elem(); e.Kind() {
			case reflect.Bool:
				e.SetBool(!e.Bool())
			case reflect.Int, reflect.Int8, reflect.Int16, reflect.Int32, reflect.Int64:
				e.SetInt(e.Int() + 1)
			case reflect.Uint8:
				e.SetUint(e.Uint() + 1)
			case reflect.Float64:
				e.SetFloat(e.Float() + 1)
			case reflect.String:
				e.SetString(e.String() + "~")
			}
		}
		// ... then by replacing them
		sa.SRTBold, sa.SRTItalics, sa.WebVTTAlign, sa.SSAFontName, sa.SSAEffect = true, true, mark, mark, mark
		sa.TTMLColor, sa.SRTColor, sa.TTMLBackgroundColor, sa.TTMLFontFamily = &mark, &mark, &mark, &mark
		z := 7
		sa.TTMLZIndex, sa.SSALayer = &z, &z
		sa.WebVTTTags = append(sa.WebVTTTags, astisub.WebVTTTag{Name: "u"})
		sa.WebVTTStyles = append(sa.WebVTTStyles, mark)
		t := true
		sa.STLItalics, sa.TeletextDoubleHeight = &t, &t
	}
	if s.Metadata != nil {
		s.Metadata.Title, s.Metadata.Language, s.Metadata.Framerate = mark, mark, 99
		s.Metadata.Comments = append(s.Metadata.Comments, mark)
	}
	for _, st := range s.Styles {
		edit(st.InlineStyle)
		st.Style = nil
	}
	for _, rg := range s.Regions {
		edit(rg.InlineStyle)
		rg.Style = nil
	}
	for _, it := range s.Items {
		edit(it.InlineStyle)
		it.StartAt, it.EndAt, it.Index = it.StartAt+time.Hour, it.EndAt+time.Hour, it.Index+1000
		it.Comments = append(it.Comments, mark)
		for li := range it.Lines {
			it.Lines[li].VoiceName = mark
			for ri := range it.Lines[li].Items {
				it.Lines[li].Items[ri].Text += mark
				edit(it.Lines[li].Items[ri].InlineStyle)
			}
		}
	}
	s.Styles[mark] = &astisub.Style{ID: mark}
	s.Regions[mark] = &astisub.Region{ID: mark}
}

// poisonDocs are documents that leave a reader in as "dirty" a final state as the format allows: emphasis never closed,
// a floating accent with no letter after it, a line that is not understood, an error half way.
var poisonDocs = map[string][][]byte{
	"srt":  {[]byte("1\n00:00:01,000 --> 00:00:02,000\n<i><b><u><font color=\"#abcdef\">never closed\n"), []byte("1\n00:00:01,000 --> x\n")},
	"vtt":  {[]byte("WEBVTT\n\nRegion: id=zz width=10%\n\nSTYLE\n::cue { color: lime }\n\nNOTE pending comment\n\n9\n00:00:01.000 --> 00:00:02.000 region:zz align:left\n<v Nobody><c.x><i><00:00:01.500>never closed\n"), []byte("WEBVTT\n\n00:00:01.000 --> x\n")},
	"ssa":  {[]byte("[Script Info]\n; pending\nTitle: poison\nScriptType: v4.00+\nTimer: 50\n\n[V4+ Styles]\nFormat: Name, Fontname, Bold\nStyle: Default,Zapf,-1\n\n[Events]\nFormat: Layer, Start, End, Style, Text\nDialogue: 3,0:00:01.00,0:00:02.00,*Default,{\\i1}never closed\n"), []byte("[Events]\nDialogue: 0,0:00:01.00\n")},
	"ttml": {[]byte(`<tt xmlns="http://www.w3.org/ns/ttml" xmlns:tts="http://www.w3.org/ns/ttml#styling" xml:lang="de" xmlns:ttp="http://www.w3.org/ns/ttml#parameter" ttp:frameRate="24" ttp:tickRate="7"><head><styling><style xml:id="s0" tts:color="lime"/></styling><layout><region xml:id="r0" tts:origin="1% 2%"/></layout></head><body><div><p begin="1s" end="2s" style="s0" region="r0">poison<br/></p></div></body></tt>`), []byte(`<tt xmlns="http://www.w3.org/ns/ttml"><body><div><p begin="1s" end="2s" style="nope">x</p></div></body></tt>`)},
}

func init() {
	// STL: an open-subtitling file whose only text ends with a floating accent, and one that is rejected right after an accent
	d := stlDoc{GSI: stlGSI{Rate: 25, DSC: "0", LC: "09", MNC: 40, MNR: 23, CD: "200101", RD: "200101", TCP: stlTC{}}}
	d.Cues = []stlCue{{In: stlTC{S: 1}, Out: stlTC{S: 2}, VP: 20, JC: 2, Rows: [][]stlRun{{{Text: "e", Color: -1}}}}}
	if b, ok := renderSTL(d); ok && len(b) >= 1024+128 {
		a := append([]byte(nil), b...)
		copy(a[1024+16:], []byte{'e', 0xc2}) // acute accent, nothing after it but padding
		c := append([]byte(nil), b...)
		copy(c[1024+16:], []byte{'e', 0xc8, 0x0b}) // diaeresis, then a teletext control code: rejected in open subtitling
		poisonDocs["stl"] = [][]byte{a, c}
	}
}

// rereadStable checks that what a document denotes depends neither on what the caller did to an earlier result nor on
// which other documents the process read in between. first is the result already verified against the model.
func rereadStable(format string, doc []byte, o readOpts, first *astisub.Subtitles) string {
	want := canon(first)
	scribble(first)
	for _, p := range poisonDocs[format] {
		func() {
			defer func() { _ = recover() }()
			_, _ = readFormat(format, bytes.NewReader(p), readOpts{})
		}()
	}
	again, err := readFormat(format, bytes.NewReader(doc), o)
	if err != nil {
		return fmt.Sprintf("second read of the same document failed: %v", err)
	}
	if got := canon(again); got != want {
		return fmt.Sprintf("the same document reads differently the second time (in between, the caller edited the first result and the process read other %s documents)\n--- first ---\n%s\n--- second ---\n%s", format, clip(want, 900), clip(got, 900))
	}
	// the file-level opener is the same reader behind a file name, options included (one document in three)
	if strHash(string(doc))%3 == 0 {
		dir, err := os.MkdirTemp("", "reread")
		if err != nil {
			return ""
		}
		defer os.RemoveAll(dir)
		ext := map[string][]string{"srt": {"srt", "SRT"}, "vtt": {"vtt", "Vtt"}, "ssa": {"ssa", "ass", "ASS"}, "ttml": {"ttml", "TTML"}, "stl": {"stl", "STL"}, "ts": {"ts"}}[format]
		p := filepath.Join(dir, "in."+ext[len(doc)%len(ext)])
		if os.WriteFile(p, doc, 0o644) != nil {
			return ""
		}
		opened, err := astisub.Open(astisub.Options{Filename: p, STL: astisub.STLOptions{IgnoreTimecodeStartOfProgramme: o.IgnoreTCP}, Teletext: astisub.TeletextOptions{Page: o.Page, PID: o.PID}})
		if err != nil {
			return fmt.Sprintf("Open(%s) fails on a document the %s reader accepts: %v", filepath.Base(p), format, err)
		}
		if got := canon(opened); got != want {
			return fmt.Sprintf("Open(%s) with options %+v returns something else than the %s reader given the same bytes and options\n--- reader ---\n%s\n--- Open ---\n%s", filepath.Base(p), o, format, clip(want, 900), clip(got, 900))
		}
	}
	return ""
}

package props

import (
	"bytes"
	"fmt"
	"strings"
	"testing"

	astisub "github.com/asticode/go-astisub"
	"pgregory.net/rapid"
)

// C04 - SSA/ASS codec fidelity.

type c04ReadCase struct {
	Doc  ssaDoc       `json:"doc"`
	Rend ssaRendering `json:"rendering"`
	// Entry: 0 ReadFromSSA, 1 ReadFromSSAWithOptions without callbacks, 2/3 with one of the two callbacks only
	Entry int `json:"entry,omitempty"`
}

type c04WriteCase struct {
	// Foreign: the list carries metadata of other formats; the file-level helper is exercised as well
	Foreign bool   `json:"foreign,omitempty"`
	Doc     ssaDoc `json:"doc"`
	// OddKeys: the style map is keyed by something else than the style names (a list put together by hand): a style is
	// what its ID says
	OddKeys bool `json:"odd_keys,omitempty"`
}

func init() {
	register("c04read", checkC04Read)
	register("c04write", checkC04Write)
}

func checkC04Read(c c04ReadCase) string {
	b := renderSSA(c.Doc, c.Rend)
	var s *astisub.Subtitles
	var err error
	switch c.Entry {
	case 1:
		// no callbacks at all
		s, err = astisub.ReadFromSSAWithOptions(bytes.NewReader(b), astisub.SSAOptions{})
	case 2:
		s, err = astisub.ReadFromSSAWithOptions(bytes.NewReader(b), astisub.SSAOptions{OnUnknownSectionName: func(string) {}})
	case 3:
		s, err = astisub.ReadFromSSAWithOptions(bytes.NewReader(b), astisub.SSAOptions{OnInvalidLine: func(string) {}})
	default:
		s, err = astisub.ReadFromSSA(deliver(b))
	}
	if err != nil {
		return fmt.Sprintf("reader rejected a well-formed document: %v\n--- document ---\n%s", err, clip(string(b), 1500))
	}
	got, msg := projSSA(s)
	if msg != "" {
		return msg
	}
	// what the document denotes, given the columns the rendering carries
	want := c.Doc
	if c.Rend.CommentInBody {
		want.Comments = append([]string(nil), want.Comments...)
		if len(c.Doc.Styles) > 0 && !c.Rend.EventsFirst {
			want.Comments = append(want.Comments, "a comment inside the styles section")
		}
		if len(c.Doc.Events) > 1 {
			want.Comments = append(want.Comments, "a comment between events")
		}
		if len(c.Doc.Styles) > 0 && c.Rend.EventsFirst {
			want.Comments = append(want.Comments, "a comment inside the styles section")
		}
	}
	x := ssaExpect{margins: map[string]bool{}}
	has := map[string]bool{}
	for _, col := range c.Rend.EventCols {
		has[col] = true
	}
	x.hasLayer, x.hasMarked = has["Layer"], has["Marked"]
	x.margins["MarginL"], x.margins["MarginR"], x.margins["MarginV"] = has["MarginL"], has["MarginR"], has["MarginV"]
	want.Events = append([]ssaEventM(nil), want.Events...)
	for i := range want.Events {
		e := &want.Events[i]
		if !has["Style"] {
			e.Style = ""
		}
		if !has["Name"] {
			e.Name = ""
		}
		if !has["Effect"] {
			e.Effect = ""
		}
	}
	if m := diffSSA(want, got, "reader", x); m != "" {
		return fmt.Sprintf("%s\n--- document (%d bytes) ---\n%s", m, len(b), clip(string(b), 1500))
	}
	return rereadStable("ssa", b, readOpts{}, s)
}

func checkC04Write(c c04WriteCase) string {
	s := toSubtitlesSSA(c.Doc)
	if c.OddKeys {
		m := map[string]*astisub.Style{}
		for id, st := range s.Styles {
			m["key-of-"+id] = st
		}
		s.Styles = m
	}
	if c.Foreign {
		addForeignMetadata("ssa", s)
		addForeignAttributes("ssa", s)
		priorFailedWrite("ssa", 5+len(s.Items)*37, len(s.Items)%3)
	}
	var buf bytes.Buffer
	err := s.WriteToSSA(&buf)
	if len(c.Doc.Events) == 0 {
		if err != astisub.ErrNoSubtitlesToWrite {
			return fmt.Sprintf("writing an empty list returned %v, expected ErrNoSubtitlesToWrite", err)
		}
		return ""
	}
	if err != nil {
		return fmt.Sprintf("writer failed: %v", err)
	}
	out := buf.Bytes()
	v4plus := c.Doc.Info["ScriptType"] == "v4.00+"
	x := ssaExpect{hasLayer: v4plus, hasMarked: !v4plus, margins: map[string]bool{"MarginL": true, "MarginR": true, "MarginV": true}}
	s2, err := astisub.ReadFromSSA(bytes.NewReader(out))
	if err != nil {
		return fmt.Sprintf("library reader rejects the writer's output: %v\n--- output ---\n%s", err, clip(string(out), 1500))
	}
	got, msg := projSSA(s2)
	if msg != "" {
		return msg
	}
	if m := diffSSA(c.Doc, got, "re-read by the library", x); m != "" {
		return fmt.Sprintf("%s\n--- output ---\n%s", m, clip(string(out), 1500))
	}
	ind, err := decodeSSAIndep(out)
	if err != nil {
		return fmt.Sprintf("independent decoder rejects the writer's output: %v\n--- output ---\n%s", err, clip(string(out), 1500))
	}
	if m := diffSSA(c.Doc, ind, "independent decoder", x); m != "" {
		return fmt.Sprintf("%s\n--- output ---\n%s", m, clip(string(out), 1500))
	}
	// idempotence: W(R(W(m))) == W(m)
	var buf2 bytes.Buffer
	if err := s2.WriteToSSA(&buf2); err != nil {
		return fmt.Sprintf("second write failed: %v", err)
	}
	if !bytes.Equal(buf2.Bytes(), out) {
		return fmt.Sprintf("reading what was written and writing again changes the bytes\n--- first ---\n%s\n--- second ---\n%s", clip(string(out), 1200), clip(buf2.String(), 1200))
	}
	if c.Foreign {
		if m := fileWriteAgrees("ssa", s); m != "" {
			return m
		}
	}
	return ""
}

func c04Labels(d ssaDoc, r *ssaRendering) (bool, []string) {
	var ls []string
	add := func(c bool, l string) {
		if c {
			ls = append(ls, l)
		}
	}
	var override, brk, trueBool, hetero bool
	for _, e := range d.Events {
		brk = brk || len(e.Lines) > 1
		for _, l := range e.Lines {
			for _, run := range l {
				override = override || run.Effect != ""
			}
		}
	}
	for i, st := range d.Styles {
		for _, v := range st.Bools {
			trueBool = trueBool || v
		}
		if i > 0 && fmt.Sprint(styleColsOf(st)) != fmt.Sprint(styleColsOf(d.Styles[0])) {
			hetero = true
		}
	}
	add(override, "override-block")
	add(brk, "line-break")
	add(len(d.Styles) >= 2, "styles>=2")
	add(trueBool, "true-boolean")
	add(hetero, "heterogeneous-style-columns")
	add(len(d.Info) > 0, "script-info")
	add(d.Info["ScriptType"] == "v4.00+", "v4plus-scripttype")
	for _, e := range d.Events {
		for _, l := range e.Lines {
			add(len(l) == 0, "empty-line")
		}
	}
	if r != nil {
		add(fmt.Sprint(r.StyleCols) != fmt.Sprint(append([]string{"Name"}, filterCols(r.StyleCols)...)), "permuted-style-columns")
		add(r.ColorMode > 0, "hex-or-negative-colour")
		add(r.Junk || r.UnknownSec, "junk-or-unknown-section")
		add(r.EOL != "\n", "non-lf-eol")
		add(r.OtherEvents, "non-dialogue-events")
		add(r.EventsFirst, "events-before-styles")
		add(r.StarStyle, "star-style-ref")
		add(r.V4Plus, "v4plus-layout")
		add(len(r.EventCols) < 10, "event-column-subset")
	}
	return len(d.Events) > 0 && len(ls) > 0, ls
}

func styleColsOf(st ssaStyleM) []string {
	m := map[string]bool{}
	if st.Fontname != nil {
		m["Fontname"] = true
	}
	for k := range st.Bools {
		m[k] = true
	}
	for k := range st.Colors {
		m[k] = true
	}
	for k := range st.Floats {
		m[k] = true
	}
	for k := range st.Ints {
		m[k] = true
	}
	return sortedKeys(m)
}

func filterCols(cols []string) []string {
	present := map[string]bool{}
	for _, c := range cols {
		present[c] = true
	}
	var out []string
	for _, c := range ssaStyleCols {
		if present[c] {
			out = append(out, c)
		}
	}
	return out
}

// addEmptySSALines gives some events an empty line: two \\N in a row, a text starting or ending with \\N.
func addEmptySSALines(t *rapid.T, d *ssaDoc) {
	for i := range d.Events {
		e := &d.Events[i]
		if rapid.IntRange(0, 3).Draw(t, "emptyline") == 0 {
			at := rapid.IntRange(0, len(e.Lines)).Draw(t, "emptyat")
			ls := append([][]ssaRun(nil), e.Lines[:at]...)
			ls = append(ls, []ssaRun{})
			e.Lines = append(ls, e.Lines[at:]...)
		}
	}
}

func TestC04(t *testing.T) {
	runWitnesses(t, "C04")
	cliConvertCases(t, "C04", "ssa")
	rapidCheck(t, "C04/read", tier(3000, 300000), func(rt *rapid.T) {
		doc, cols := genSSADoc(rt, false)
		addEmptySSALines(rt, &doc)
		c := c04ReadCase{Doc: doc, Rend: genSSARendering(rt, cols), Entry: rapid.SampledFrom([]int{0, 0, 1, 1, 2, 3}).Draw(rt, "entry")}
		if len(c.Doc.Events) > 0 && rapid.IntRange(0, 24).Draw(rt, "huge") == 1 {
			base := c.Doc.Events
			before := len(renderSSA(c.Doc, c.Rend))
			c.Doc.Events = append(c.Doc.Events, base...)
			for k := 70000 / (len(renderSSA(c.Doc, c.Rend)) - before + 1); k > 0; k-- {
				c.Doc.Events = append(c.Doc.Events, base...)
			}
		}
		aligned := false
		if len(c.Doc.Events) > 0 && strings.Contains(c.Rend.EOL, "\r") && rapid.IntRange(0, 5).Draw(rt, "align") == 0 {
			aligned = alignCR(rt, func() []byte { return renderSSA(c.Doc, c.Rend) }, func(n int) {
				if len(c.Doc.Comments) > 0 {
					c.Doc.Comments[0] += strings.Repeat("x", n)
				} else if v, ok := c.Doc.Info["Title"]; ok {
					c.Doc.Info["Title"] = v + strings.Repeat("x", n)
				}
			})
		}
		b := renderSSA(c.Doc, c.Rend)
		nt, ls := c04Labels(c.Doc, &c.Rend)
		if aligned {
			ls = append(ls, "cr-at-end-of-4096-byte-block")
		}
		if len(b) > 65536 {
			ls = append(ls, "over-64KiB")
		}
		ev.Case(nt, string(b), append(ls, "read")...)
		if nt && len(c.Doc.Events) <= 2 {
			ev.Sample("read", map[string]any{"document": string(b)})
		}
		verdict(rt, "C04", "c04read", c, checkC04Read)
	})
	rapidCheck(t, "C04/write", tier(2000, 200000), func(rt *rapid.T) {
		doc, _ := genSSADoc(rt, true)
		addEmptySSALines(rt, &doc)
		c := c04WriteCase{Doc: doc, Foreign: rapid.IntRange(0, 2).Draw(rt, "foreign") == 0, OddKeys: rapid.IntRange(0, 4).Draw(rt, "oddkeys") == 0}
		nt, ls := c04Labels(c.Doc, nil)
		if c.OddKeys && len(c.Doc.Styles) > 0 {
			ls = append(ls, "style-map-keyed-by-something-else-than-the-names")
		}
		ev.Case(nt, fmt.Sprintf("w%v", c), append(ls, "write")...)
		if nt && len(c.Doc.Events) <= 2 {
			ev.Sample("write", c.Doc)
		}
		verdict(rt, "C04", "c04write", c, checkC04Write)
	})
}

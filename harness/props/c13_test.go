package props

import (
	"bytes"
	"fmt"
	"reflect"
	"sort"
	"strings"
	"testing"
	"time"

	astisub "github.com/asticode/go-astisub"
	"pgregory.net/rapid"
)

// C13 - Optimize drops only unreachable definitions; RemoveStyling drops only styling.

type c13Style struct {
	ID     string `json:"id"`
	Parent string `json:"parent,omitempty"`
}

type c13Region struct {
	ID    string `json:"id"`
	Style string `json:"style,omitempty"`
}

type c13Run struct {
	Text  string `json:"text"`
	Style string `json:"style,omitempty"`
}

type c13Cue struct {
	Start  int64    `json:"start_ms"`
	End    int64    `json:"end_ms"`
	Style  string   `json:"style,omitempty"`
	Region string   `json:"region,omitempty"`
	Runs   []c13Run `json:"runs"`
	// Bare: no cue-level inline attributes (styling, if any, sits on the runs only)
	Bare bool `json:"bare,omitempty"`
}

type c13Case struct {
	Styles  []c13Style  `json:"styles"`
	Regions []c13Region `json:"regions"`
	Cues    []c13Cue    `json:"cues"`
	// Source: "" = built from the public types; "ttml" = obtained by parsing a TTML document rendered from the graph
	Source string `json:"source"`
	// RemoveStyling: check RemoveStyling instead of Optimize
	RemoveStyling bool `json:"remove_styling"`
	// list built without the constructor: one or both definition maps are nil (Source "" only)
	NilStyles  bool `json:"nil_styles_map,omitempty"`
	NilRegions bool `json:"nil_regions_map,omitempty"`
	// CopyRefs (Source ""): cues and runs point at their own Style values (same identifier, no inheritance link) instead
	// of the objects stored in the map, as after a Merge or in a list put together by hand; definitions go by identifier
	CopyRefs bool `json:"copy_refs,omitempty"`
	// Dangling (Source ""): the last cue and its last run name a style, and the cue a region, that the list does not
	// define (a list put together by hand). Such a reference resolves neither before nor after: Optimize may not invent a
	// definition for it, and every writer must behave after Optimize as it did before
	Dangling bool `json:"dangling,omitempty"`
	// Anon (Source ""): the list defines a style and a region whose identifier is the empty string (what the TTML reader
	// makes of definitions without xml:id); the first cue refers to the region, its first run to the style
	Anon bool `json:"anonymous_definitions,omitempty"`
}

func init() { register("c13", checkC13) }

func buildC13(c c13Case) (*astisub.Subtitles, string) {
	if c.Source == "ttml" {
		d := ttmlDoc{}
		for _, st := range c.Styles {
			d.Styles = append(d.Styles, ttmlDef{ID: st.ID, Ref: st.Parent, Attrs: map[string]string{"color": "white"}})
		}
		for _, rg := range c.Regions {
			d.Regions = append(d.Regions, ttmlDef{ID: rg.ID, Ref: rg.Style, Attrs: map[string]string{"origin": "10% 80%"}})
		}
		for _, cu := range c.Cues {
			tc := ttmlCue{Begin: msClock(cu.Start), End: msClock(cu.End), Style: cu.Style, Region: cu.Region}
			var runs []ttmlRun
			for _, r := range cu.Runs {
				runs = append(runs, ttmlRun{Text: r.Text, Span: true, Style: r.Style})
			}
			tc.Lines = [][]ttmlRun{runs}
			d.Cues = append(d.Cues, tc)
		}
		b := renderTTML(d, ttmlRendering{StylePfx: "tts", XMLID: true, EOL: "\n"})
		s, err := astisub.ReadFromTTML(bytes.NewReader(b))
		if err != nil {
			return nil, "TTML reader rejected the generated document: " + err.Error()
		}
		return s, ""
	}
	if c.Source == "ssa" {
		// styles (no inheritance in SSA) referenced by events through the Style column; run styles do not exist
		d := ssaDoc{Info: map[string]string{"Title": "t"}}
		for _, st := range c.Styles {
			f := "Arial"
			d.Styles = append(d.Styles, ssaStyleM{Name: st.ID, Fontname: &f})
		}
		for _, cu := range c.Cues {
			e := ssaEventM{Start: cu.Start / 10, End: cu.End / 10, Style: cu.Style}
			var runs []ssaRun
			for _, r := range cu.Runs {
				runs = append(runs, ssaRun{Text: r.Text})
			}
			e.Lines = [][]ssaRun{runs}
			d.Events = append(d.Events, e)
		}
		r := ssaRendering{EOL: "\n", InfoHeader: "[Script Info]", StylesHeader: "[V4 Styles]", EventsHeader: "[Events]", StyleCols: []string{"Name", "Fontname"},
			EventCols: []string{"Marked", "Start", "End", "Style", "Name", "MarginL", "MarginR", "MarginV", "Effect", "Text"}, KeySpace: true, TrueAs: "-1"}
		s, err := astisub.ReadFromSSA(bytes.NewReader(renderSSA(d, r)))
		if err != nil {
			return nil, "SSA reader rejected the generated document: " + err.Error()
		}
		return s, ""
	}
	if c.Source == "vtt" {
		// regions referenced by cues, plus a STYLE block (the default style definition no cue refers to)
		d := vttDoc{Styles: [][]string{{"::cue { color: red }"}}}
		for _, rg := range c.Regions {
			d.Regions = append(d.Regions, vttRegion{ID: rg.ID, Width: "40%"})
		}
		for _, cu := range c.Cues {
			vc := vttCue{Start: cu.Start, End: cu.End, Region: cu.Region}
			var runs []vttRun
			for _, r := range cu.Runs {
				runs = append(runs, vttRun{Text: r.Text})
			}
			vc.Lines = []vttLine{{Runs: runs}}
			d.Cues = append(d.Cues, vc)
		}
		s, err := astisub.ReadFromWebVTT(bytes.NewReader(renderVTT(d, vttRendering{EOL: "\n", SettingsSep: " "})))
		if err != nil {
			return nil, "WebVTT reader rejected the generated document: " + err.Error()
		}
		return s, ""
	}
	if c.Source == "srt" {
		// SubRip knows no definitions: all styling sits on the runs
		var sb strings.Builder
		for i, cu := range c.Cues {
			fmt.Fprintf(&sb, "%d\n%s --> %s\n", i+1, strings.Replace(msClock(cu.Start).String(), ".", ",", 1), strings.Replace(msClock(cu.End).String(), ".", ",", 1))
			for k, r := range cu.Runs {
				tag := []string{"b", "i", "u"}[(i+k)%3]
				fmt.Fprintf(&sb, "<%s>%s</%s>", tag, r.Text, tag)
			}
			sb.WriteString("\n\n")
		}
		s, err := astisub.ReadFromSRT(strings.NewReader(sb.String()))
		if err != nil {
			return nil, "SRT reader rejected the generated document: " + err.Error()
		}
		return s, ""
	}
	s := astisub.NewSubtitles()
	if c.NilStyles {
		s.Styles = nil
	}
	if c.NilRegions {
		s.Regions = nil
	}
	s.Metadata = &astisub.Metadata{Framerate: 25, STLDisplayStandardCode: "0"}
	for _, st := range c.Styles {
		col := "white"
		s.Styles[st.ID] = &astisub.Style{ID: st.ID, InlineStyle: &astisub.StyleAttributes{TTMLColor: &col, SSAFontName: "f" + st.ID}}
	}
	for _, st := range c.Styles {
		if st.Parent != "" {
			s.Styles[st.ID].Style = s.Styles[st.Parent]
		}
	}
	for _, rg := range c.Regions {
		r := &astisub.Region{ID: rg.ID, InlineStyle: &astisub.StyleAttributes{WebVTTWidth: "40%"}}
		if rg.Style != "" {
			r.Style = s.Styles[rg.Style]
		}
		s.Regions[rg.ID] = r
	}
	for _, cu := range c.Cues {
		it := &astisub.Item{StartAt: time.Duration(cu.Start) * time.Millisecond, EndAt: time.Duration(cu.End) * time.Millisecond, InlineStyle: &astisub.StyleAttributes{WebVTTAlign: "left"}}
		if cu.Bare {
			it.InlineStyle = nil
		}
		ref := func(id string) *astisub.Style {
			if c.CopyRefs {
				return &astisub.Style{ID: id, InlineStyle: &astisub.StyleAttributes{SSAFontName: "copy" + id}}
			}
			return s.Styles[id]
		}
		if cu.Style != "" {
			it.Style = ref(cu.Style)
			if it.InlineStyle != nil && !c.CopyRefs {
				// the cue repeats, inline, what its style already says
				white := "white"
				it.InlineStyle.TTMLColor = &white
				it.InlineStyle.SSAFontName = "f" + cu.Style
			}
		}
		if cu.Region != "" {
			it.Region = s.Regions[cu.Region]
		}
		ln := astisub.Line{VoiceName: "v"}
		for _, r := range cu.Runs {
			li := astisub.LineItem{Text: r.Text, InlineStyle: &astisub.StyleAttributes{SRTBold: true}}
			if len(cu.Runs)%2 == 1 {
				// an inline timestamp (WebVTT): timing, not styling
				li.StartAt = time.Duration(cu.Start)*time.Millisecond + 250*time.Millisecond
			}
			if len(cu.Runs)%2 == 0 {
				// what a teletext or teletext-mode STL reader leaves on a run
				two, t := 2, true
				li.InlineStyle = &astisub.StyleAttributes{TeletextSpacesBefore: &two, TeletextSpacesAfter: &two, TeletextDoubleHeight: &t, STLBoxing: &t}
			}
			if r.Style != "" {
				li.Style = ref(r.Style)
			}
			ln.Items = append(ln.Items, li)
		}
		it.Lines = []astisub.Line{ln}
		s.Items = append(s.Items, it)
	}
	if c.Anon && len(s.Items) > 0 && s.Styles != nil && s.Regions != nil {
		col := "white"
		s.Styles[""] = &astisub.Style{ID: "", InlineStyle: &astisub.StyleAttributes{TTMLColor: &col}}
		s.Regions[""] = &astisub.Region{ID: "", InlineStyle: &astisub.StyleAttributes{WebVTTWidth: "40%"}}
		s.Items[0].Region = s.Regions[""]
		s.Items[0].Lines[0].Items[0].Style = s.Styles[""]
	}
	if c.Dangling && len(s.Items) > 0 {
		it := s.Items[len(s.Items)-1]
		if it.Style == nil {
			it.Style = &astisub.Style{ID: "ghost"}
		}
		if it.Region == nil {
			it.Region = &astisub.Region{ID: "ghostregion"}
		}
		if l := it.Lines[0].Items; l[len(l)-1].Style == nil {
			l[len(l)-1].Style = &astisub.Style{ID: "ghostrun", Style: &astisub.Style{ID: "ghostparent"}}
		}
	}
	return s, ""
}

func msClock(ms int64) ttmlTime {
	return ttmlTime{Form: "clockfrac", H: ms / 3600000, M: ms / 60000 % 60, S: ms / 1000 % 60, Frac: fmt.Sprintf("%03d", ms%1000)}
}

// reachOf computes the reachability closure over the object graph of a list (by identifier): cue -> style, run -> style,
// cue -> region -> style, style -> parent*. It is the harness's own traversal, used for lists obtained by parsing.
func reachOf(s *astisub.Subtitles) (styles, regions map[string]bool) {
	styles, regions = map[string]bool{}, map[string]bool{}
	var mark func(st *astisub.Style)
	mark = func(st *astisub.Style) {
		for st != nil && !styles[st.ID] {
			styles[st.ID] = true
			st = st.Style
		}
	}
	for _, it := range s.Items {
		mark(it.Style)
		for _, l := range it.Lines {
			for _, li := range l.Items {
				mark(li.Style)
			}
		}
		if it.Region != nil {
			regions[it.Region.ID] = true
			mark(it.Region.Style)
		}
	}
	// only definitions actually present count
	for id := range styles {
		if _, ok := s.Styles[id]; !ok {
			delete(styles, id)
		}
	}
	for id := range regions {
		if _, ok := s.Regions[id]; !ok {
			delete(regions, id)
		}
	}
	return
}

// reach computes the reachability closure of the reference graph, from the model alone.
func reachC13(c c13Case) (styles, regions map[string]bool) {
	styles, regions = map[string]bool{}, map[string]bool{}
	parent := map[string]string{}
	for _, st := range c.Styles {
		parent[st.ID] = st.Parent
	}
	regStyle := map[string]string{}
	for _, rg := range c.Regions {
		regStyle[rg.ID] = rg.Style
	}
	var mark func(id string)
	mark = func(id string) {
		for id != "" && !styles[id] {
			styles[id] = true
			id = parent[id]
		}
	}
	for _, cu := range c.Cues {
		mark(cu.Style)
		for _, r := range cu.Runs {
			mark(r.Style)
		}
		if cu.Region != "" {
			regions[cu.Region] = true
			mark(regStyle[cu.Region])
		}
	}
	return
}

type cueProj struct {
	S, E  time.Duration
	Text  string
	Voice string
	// Runs: the inline timestamps of the runs (timing, too)
	Runs []time.Duration
}

func projCues(s *astisub.Subtitles) []cueProj {
	var out []cueProj
	for _, it := range s.Items {
		p := cueProj{S: it.StartAt, E: it.EndAt}
		var ls []string
		for _, l := range it.Lines {
			ls = append(ls, l.String())
			if l.VoiceName != "" {
				p.Voice = l.VoiceName
			}
			for _, li := range l.Items {
				if li.StartAt != 0 {
					p.Runs = append(p.Runs, li.StartAt)
				}
			}
		}
		p.Text = strings.Join(ls, "|")
		out = append(out, p)
	}
	return out
}

type writerFn struct {
	name  string
	write func(*astisub.Subtitles, *bytes.Buffer) error
	read  func([]byte) (*astisub.Subtitles, error)
}

var allWriters = []writerFn{
	{"srt", func(s *astisub.Subtitles, b *bytes.Buffer) error { return s.WriteToSRT(b) }, func(b []byte) (*astisub.Subtitles, error) { return astisub.ReadFromSRT(bytes.NewReader(b)) }},
	{"ssa", func(s *astisub.Subtitles, b *bytes.Buffer) error { return s.WriteToSSA(b) }, func(b []byte) (*astisub.Subtitles, error) { return astisub.ReadFromSSA(bytes.NewReader(b)) }},
	{"stl", func(s *astisub.Subtitles, b *bytes.Buffer) error { return s.WriteToSTL(b) }, func(b []byte) (*astisub.Subtitles, error) {
		return astisub.ReadFromSTL(bytes.NewReader(b), astisub.STLOptions{})
	}},
	{"ttml", func(s *astisub.Subtitles, b *bytes.Buffer) error { return s.WriteToTTML(b) }, func(b []byte) (*astisub.Subtitles, error) { return astisub.ReadFromTTML(bytes.NewReader(b)) }},
	{"vtt", func(s *astisub.Subtitles, b *bytes.Buffer) error { return s.WriteToWebVTT(b) }, func(b []byte) (*astisub.Subtitles, error) { return astisub.ReadFromWebVTT(bytes.NewReader(b)) }},
}

// writeOutcomes is writeReadAll for lists some writers or readers may refuse: the outcome per format is the error or the
// cues read back; a panic is an outcome too (reported as such).
func writeOutcomes(s *astisub.Subtitles) map[string]string {
	restore := astisub.Now
	astisub.Now = func() time.Time { return time.Date(2021, 3, 4, 0, 0, 0, 0, time.UTC) }
	defer func() { astisub.Now = restore }()
	out := map[string]string{}
	for _, w := range allWriters {
		func() {
			defer func() {
				if r := recover(); r != nil {
					out[w.name] = fmt.Sprintf("PANIC: %v", r)
				}
			}()
			var buf bytes.Buffer
			if err := w.write(s, &buf); err != nil {
				out[w.name] = "writer: " + err.Error()
				return
			}
			s2, err := w.read(buf.Bytes())
			if err != nil {
				// the message names a line number, which moves when definitions go
				out[w.name] = "the reader rejects what the writer produced"
				return
			}
			out[w.name] = fmt.Sprintf("%+v", projCues(s2))
		}()
	}
	return out
}

func writeReadAll(s *astisub.Subtitles) (map[string][]cueProj, string) {
	restore := astisub.Now
	astisub.Now = func() time.Time { return time.Date(2021, 3, 4, 0, 0, 0, 0, time.UTC) }
	defer func() { astisub.Now = restore }()
	out := map[string][]cueProj{}
	for _, w := range allWriters {
		var buf bytes.Buffer
		if err := w.write(s, &buf); err != nil {
			return nil, fmt.Sprintf("%s writer failed: %v", w.name, err)
		}
		s2, err := w.read(buf.Bytes())
		if err != nil {
			return nil, fmt.Sprintf("%s reader rejects what the %s writer produced: %v", w.name, w.name, err)
		}
		out[w.name] = projCues(s2)
	}
	return out, ""
}

func checkC13(c c13Case) string {
	s, msg := buildC13(c)
	if msg != "" {
		return msg
	}
	// snapshots
	items := append([]*astisub.Item(nil), s.Items...)
	snaps := make([]itemSnap, len(items))
	times := make([][2]time.Duration, len(items))
	for i, it := range items {
		snaps[i] = snapItem(it)
		times[i] = [2]time.Duration{it.StartAt, it.EndAt}
	}
	styleDefs := map[string]*astisub.Style{}
	for k, v := range s.Styles {
		styleDefs[k] = v
	}
	regionDefs := map[string]*astisub.Region{}
	for k, v := range s.Regions {
		regionDefs[k] = v
	}

	if c.RemoveStyling {
		before := projCues(s)
		s.RemoveStyling()
		if !reflect.DeepEqual(before, projCues(s)) {
			return fmt.Sprintf("RemoveStyling changed timing/text/voice/order: %+v -> %+v", before, projCues(s))
		}
		if len(s.Items) != len(items) {
			return "RemoveStyling changed the number of cues"
		}
		if len(s.Styles) != 0 || len(s.Regions) != 0 {
			return fmt.Sprintf("RemoveStyling left %d styles and %d regions", len(s.Styles), len(s.Regions))
		}
		for i, it := range s.Items {
			if it != items[i] {
				return "RemoveStyling reordered or replaced cues"
			}
			if it.Style != nil || it.Region != nil || it.InlineStyle != nil {
				return fmt.Sprintf("cue %d still carries a style, region or inline attributes", i)
			}
			for _, l := range it.Lines {
				for _, li := range l.Items {
					if li.Style != nil || li.InlineStyle != nil {
						return fmt.Sprintf("cue %d: a run still carries a style or inline attributes", i)
					}
				}
			}
		}
		// the caller then puts a definition back into the list it owns; another list has its styling removed: that one
		// is left without definitions all the same
		if s.Styles != nil && s.Regions != nil {
			s.Styles["later"] = &astisub.Style{ID: "later"}
			s.Regions["later"] = &astisub.Region{ID: "later"}
		}
		other, _ := buildC13(c13Case{Styles: []c13Style{{ID: "s0"}}, Cues: []c13Cue{{Start: 0, End: 1000, Style: "s0", Runs: []c13Run{{Text: "x"}}}}})
		if other != nil {
			other.RemoveStyling()
			if len(other.Styles) != 0 || len(other.Regions) != 0 {
				return fmt.Sprintf("RemoveStyling on another list, after the caller added definitions to the first one, leaves %d styles and %d regions", len(other.Styles), len(other.Regions))
			}
		}
		return ""
	}

	var refBefore map[string][]cueProj
	var outcomeBefore map[string]string
	if len(items) > 0 {
		var m string
		// reference: the un-optimized list written and re-read the same way (on a deep-enough copy: writers are pure, C19)
		if c.Dangling || c.Anon {
			outcomeBefore = writeOutcomes(s)
		} else if refBefore, m = writeReadAll(s); m != "" {
			return "before Optimize: " + m
		}
	}
	wantS, wantR := reachC13(c)
	if c.Anon && len(c.Cues) > 0 {
		// the first cue's region and its first run's style were replaced by the anonymous definitions
		c2 := c
		c2.Cues = append([]c13Cue(nil), c.Cues...)
		c2.Cues[0].Region = ""
		c2.Cues[0].Runs = append([]c13Run(nil), c.Cues[0].Runs...)
		c2.Cues[0].Runs[0].Style = ""
		wantS, wantR = reachC13(c2)
		wantS[""], wantR[""] = true, true
	} else if c.Source == "ssa" || c.Source == "vtt" {
		// parsed sources carry definitions the case model does not list (e.g. the WebVTT default style): traverse the object graph
		wantS, wantR = reachOf(s)
	} else if gs, gr := reachOf(s); !c.CopyRefs && !c.Dangling && fmt.Sprint(len(gs), len(gr)) != fmt.Sprint(len(wantS), len(wantR)) {
		return fmt.Sprintf("harness: model closure (%d styles, %d regions) and object-graph closure (%d, %d) disagree", len(wantS), len(wantR), len(gs), len(gr))
	}
	s.Optimize()
	if len(items) == 0 {
		// an empty list is left alone
		if len(s.Styles) != len(styleDefs) || len(s.Regions) != len(regionDefs) {
			return fmt.Sprintf("Optimize on a list without cues changed the definitions: %d styles, %d regions left of %d, %d", len(s.Styles), len(s.Regions), len(styleDefs), len(regionDefs))
		}
		return ""
	}
	var gotS, gotR, expS, expR []string
	for id, st := range s.Styles {
		gotS = append(gotS, id)
		if styleDefs[id] != st {
			return fmt.Sprintf("style %q is not the original definition any more", id)
		}
	}
	for id, rg := range s.Regions {
		gotR = append(gotR, id)
		if regionDefs[id] != rg {
			return fmt.Sprintf("region %q is not the original definition any more", id)
		}
	}
	for id := range wantS {
		expS = append(expS, id)
	}
	for id := range wantR {
		expR = append(expR, id)
	}
	sort.Strings(gotS)
	sort.Strings(gotR)
	sort.Strings(expS)
	sort.Strings(expR)
	if fmt.Sprint(gotS) != fmt.Sprint(expS) {
		return fmt.Sprintf("styles kept %v, reachable from the cues (directly, through runs, regions or inheritance): %v", gotS, expS)
	}
	if fmt.Sprint(gotR) != fmt.Sprint(expR) {
		return fmt.Sprintf("regions kept %v, reachable from the cues: %v", gotR, expR)
	}
	// every reference left still resolves
	for id, st := range s.Styles {
		if st.Style != nil && s.Styles[st.Style.ID] != st.Style {
			return fmt.Sprintf("style %q inherits from %q which is no longer defined", id, st.Style.ID)
		}
	}
	for id, rg := range s.Regions {
		if rg.Style != nil && s.Styles[rg.Style.ID] != rg.Style {
			return fmt.Sprintf("region %q refers to style %q which is no longer defined", id, rg.Style.ID)
		}
	}
	// cues untouched
	if len(s.Items) != len(items) {
		return "Optimize changed the number of cues"
	}
	for i, it := range s.Items {
		if it != items[i] || it.StartAt != times[i][0] || it.EndAt != times[i][1] {
			return fmt.Sprintf("Optimize touched cue %d", i)
		}
		if m := contentDiff(it, snaps[i]); m != "" {
			return fmt.Sprintf("Optimize touched cue %d: %s", i, m)
		}
	}
	// idempotent
	s.Optimize()
	if len(s.Styles) != len(expS) || len(s.Regions) != len(expR) {
		return "a second Optimize changed the definitions again"
	}
	if c.Dangling || c.Anon {
		after := writeOutcomes(s)
		for _, w := range allWriters {
			if after[w.name] != outcomeBefore[w.name] {
				return fmt.Sprintf("%s: a list with a reference to something it does not define is handled differently after Optimize: %s; before: %s", w.name, clip(after[w.name], 400), clip(outcomeBefore[w.name], 400))
			}
		}
		return ""
	}
	// still writable to every format, same cues as the un-optimized list written the same way
	after, m := writeReadAll(s)
	if m != "" {
		return "after Optimize: " + m
	}
	for _, w := range allWriters {
		if !reflect.DeepEqual(after[w.name], refBefore[w.name]) {
			return fmt.Sprintf("%s: cues read back after Optimize %+v differ from those of the un-optimized list %+v", w.name, after[w.name], refBefore[w.name])
		}
	}
	// the caller then drops the last cue (public field) and optimizes again: what only that cue reached goes
	if !c.CopyRefs && len(s.Items) >= 2 {
		full := s.Items
		s.Items = s.Items[:len(s.Items)-1]
		s2, r2 := reachOf(s)
		s.Optimize()
		if len(s.Styles) != len(s2) || len(s.Regions) != len(r2) {
			return fmt.Sprintf("Optimize after the caller dropped the last cue keeps %d styles and %d regions, %d and %d are reachable from the remaining cues", len(s.Styles), len(s.Regions), len(s2), len(r2))
		}
		for id := range s.Styles {
			if !s2[id] {
				return fmt.Sprintf("Optimize after the caller dropped the last cue keeps style %q, which no remaining cue reaches", id)
			}
		}
		s.Items = full
	}
	return ""
}

func TestC13(t *testing.T) {
	runWitnesses(t, "C13")
	cliCases(t, "C13", "optimize")
	ids := []string{"s0", "s1", "S0", "s3", "S1", "s5"} // s0/S0 and s1/S1 differ by case only: two identifiers
	rids := []string{"r0", "r1", "r2"}
	rapidCheck(t, "C13/graphs", tier(4000, 3000000), func(rt *rapid.T) {
		c := c13Case{}
		c.Source = rapid.SampledFrom([]string{"", "", "", "ttml", "ttml", "ssa", "vtt", "srt"}).Draw(rt, "source")
		ns := rapid.IntRange(0, 6).Draw(rt, "nstyles")
		nr := rapid.IntRange(0, 3).Draw(rt, "nregions")
		if c.Source == "" {
			// a list put together by hand may lack either map
			switch rapid.IntRange(0, 9).Draw(rt, "nilmaps") {
			case 0:
				c.NilStyles, ns = true, 0
			case 1:
				c.NilRegions, nr = true, 0
			case 2:
				c.NilStyles, c.NilRegions, ns, nr = true, true, 0, 0
			}
		}
		if c.Source == "srt" {
			ns, nr = 0, 0
		}
		for i := 0; i < ns; i++ {
			st := c13Style{ID: ids[i]}
			if i > 0 && rapid.IntRange(0, 2).Draw(rt, "hasparent") > 0 {
				// chains up to depth 4: prefer the previous style as parent
				if rapid.Bool().Draw(rt, "chain") {
					st.Parent = ids[i-1]
				} else {
					st.Parent = ids[rapid.IntRange(0, i-1).Draw(rt, "parent")]
				}
			}
			c.Styles = append(c.Styles, st)
		}
		for i := 0; i < nr; i++ {
			rg := c13Region{ID: rids[i]}
			if c.Source == "" || c.Source == "vtt" {
				// styles and regions live in separate maps: the same identifier may name one of each
				rg.ID = []string{"s1", "r1", "s3"}[i]
			}
			if ns > 0 && rapid.Bool().Draw(rt, "rstyle") {
				rg.Style = ids[rapid.IntRange(0, ns-1).Draw(rt, "rstyleid")]
			}
			c.Regions = append(c.Regions, rg)
		}
		nc := rapid.SampledFrom([]int{0, 1, 1, 2, 3, 4}).Draw(rt, "ncues")
		unordered := c.Source == "" && rapid.IntRange(0, 2).Draw(rt, "unordered") == 0
		c.CopyRefs = c.Source == "" && rapid.IntRange(0, 3).Draw(rt, "copyrefs") == 0
		for i := 0; i < nc; i++ {
			cu := c13Cue{Start: int64(i) * 2000, End: int64(i)*2000 + 1500}
			if unordered {
				// cues in any order: nothing in the property asks for an ordered list
				cu.Start, cu.End = int64(nc-1-i)*2000, int64(nc-1-i)*2000+1500
			}
			cu.Bare = c.Source == "" && rapid.IntRange(0, 2).Draw(rt, "bare") == 0
			if ns > 0 && rapid.IntRange(0, 2).Draw(rt, "cstyle") == 0 {
				cu.Style = ids[rapid.IntRange(0, ns-1).Draw(rt, "cstyleid")]
			}
			if nr > 0 && rapid.IntRange(0, 2).Draw(rt, "cregion") == 0 {
				cu.Region = c.Regions[rapid.IntRange(0, nr-1).Draw(rt, "cregionid")].ID
			}
			nrun := rapid.IntRange(1, 2).Draw(rt, "nruns")
			for k := 0; k < nrun; k++ {
				r := c13Run{Text: fmt.Sprintf("text%d%c", i, 'a'+k)}
				if ns > 0 && rapid.IntRange(0, 3).Draw(rt, "rstyle") == 0 {
					r.Style = ids[rapid.IntRange(0, ns-1).Draw(rt, "runstyleid")]
				}
				cu.Runs = append(cu.Runs, r)
			}
			c.Cues = append(c.Cues, cu)
		}
		c.RemoveStyling = rapid.IntRange(0, 4).Draw(rt, "removestyling") == 0
		c.Dangling = c.Source == "" && nc > 0 && rapid.IntRange(0, 5).Draw(rt, "dangling") == 0
		c.Anon = c.Source == "" && nc > 0 && !c.NilStyles && !c.NilRegions && rapid.IntRange(0, 5).Draw(rt, "anon") == 0
		if c.RemoveStyling && nc > 0 && rapid.Bool().Draw(rt, "bracetext") {
			// text is text, whatever it looks like (no writer or reader is involved in this case)
			cu := &c.Cues[rapid.IntRange(0, nc-1).Draw(rt, "bracecue")]
			cu.Runs[0].Text = rapid.SampledFrom([]string{"{\\an8}top", "a{\\i1}b{\\i0}", "{\\o/} hurray", "{x} <i>y</i> &amp;", "\\d{\\d+}x"}).Draw(rt, "bracetextv")
		}
		// labels
		wantS, wantR := reachC13(c)
		direct := map[string]bool{}
		for _, cu := range c.Cues {
			direct[cu.Style] = true
			for _, r := range cu.Runs {
				direct[r.Style] = true
			}
		}
		onlyIndirect := false
		for id := range wantS {
			if !direct[id] {
				onlyIndirect = true
			}
		}
		removed := len(wantS) < len(c.Styles) || len(wantR) < len(c.Regions)
		kept := len(wantS)+len(wantR) > 0
		var ls []string
		if onlyIndirect {
			ls = append(ls, "reachable-only-by-inheritance-or-region")
		}
		if removed && kept {
			ls = append(ls, "some-removed-some-kept")
		}
		if len(c.Cues) == 0 {
			ls = append(ls, "empty-list")
		}
		if c.RemoveStyling {
			ls = append(ls, "remove-styling")
		}
		ls = append(ls, "source-"+c.Source)
		if c.CopyRefs {
			ls = append(ls, "cues-hold-their-own-style-values")
		}
		if c.Dangling {
			ls = append(ls, "reference-to-an-undefined-style-or-region")
		}
		if c.Anon {
			ls = append(ls, "definitions-with-an-empty-identifier")
		}
		if unordered && nc > 1 {
			ls = append(ls, "unordered-cues")
		}
		if c.NilStyles != c.NilRegions {
			ls = append(ls, "one-definition-map-nil")
		}
		for _, cu := range c.Cues {
			if (cu.Bare && cu.Style == "" && cu.Region == "") || c.Source == "srt" {
				ls = append(ls, "styling-on-runs-only")
				break
			}
		}
		nt := len(c.Cues) > 0 && (onlyIndirect || (removed && kept))
		ev.Case(nt, fmt.Sprintf("%v", c), ls...)
		if nt {
			ev.Sample("graph", c)
		}
		verdict(rt, "C13", "c13", c, checkC13)
	})
}

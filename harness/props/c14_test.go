package props

import (
	"fmt"
	"sort"
	"testing"
	"time"

	astisub "github.com/asticode/go-astisub"
	"pgregory.net/rapid"
)

// C14 - ForceDuration: executable specification (from the statement)
//
//   precondition: starts ordered, ends non-decreasing, d >= 1 ms
//   if the list lasts exactly d (end of the last cue): unchanged
//   remove cues with start >= d; cues with end > d end at d; others untouched
//   filler && (no cue left || last end < d): append [d-1ms, d) with placeholder text
//   !filler: nothing appended

type c14Case struct {
	Cues   []cueSpec `json:"cues"`
	D      int64     `json:"d"`
	Filler bool      `json:"filler"`
	// D2 > 0: a second call ForceDuration(D2, Filler2) on the list the first call left (when that list is still well formed)
	D2      int64 `json:"d2,omitempty"`
	Filler2 bool  `json:"filler2,omitempty"`
}

func init() { register("c14", checkC14) }

// c14Stage checks one call against the specification. items / snaps / cues describe the list before the call.
func c14Stage(b *builtList, items []*astisub.Item, snaps []itemSnap, cues []cueSpec, d int64, filler bool, stage string) string {
	b.sub.ForceDuration(time.Duration(d), filler)
	if m := b.metaDiff(); m != "" {
		return m
	}
	got := b.sub.Items
	ctx := func() string {
		return fmt.Sprintf("%sin: %s d=%d filler=%v out: %s", stage, fmtSpecs(cues), d, filler, fmtItems(got))
	}
	type exp struct {
		idx  int
		s, e int64
	}
	var want []exp
	exact := len(cues) > 0 && cues[len(cues)-1].E == d
	if exact {
		for i, cu := range cues {
			want = append(want, exp{i, cu.S, cu.E})
		}
	} else {
		for i, cu := range cues {
			if cu.S >= d {
				continue
			}
			e := cu.E
			if e > d {
				e = d
			}
			want = append(want, exp{i, cu.S, e})
		}
	}
	needFiller := filler && !exact && (len(want) == 0 || want[len(want)-1].e < d)
	n := len(want)
	if needFiller {
		n++
	}
	if len(got) != n {
		return fmt.Sprintf("%d cues after ForceDuration, specification says %d (filler expected: %v); %s", len(got), n, needFiller, ctx())
	}
	for k, w := range want {
		it := got[k]
		if it != items[w.idx] {
			return fmt.Sprintf("position %d: expected original cue #%d; %s", k, w.idx, ctx())
		}
		if int64(it.StartAt) != w.s || int64(it.EndAt) != w.e {
			return fmt.Sprintf("cue #%d is [%d,%d), specification says [%d,%d); %s", w.idx, int64(it.StartAt), int64(it.EndAt), w.s, w.e, ctx())
		}
		if m := contentDiff(it, snaps[w.idx]); m != "" {
			return fmt.Sprintf("cue #%d: %s", w.idx, m)
		}
	}
	if needFiller {
		f := got[len(got)-1]
		if int64(f.StartAt) != d-nsMs || int64(f.EndAt) != d {
			return fmt.Sprintf("filler is [%d,%d), expected [%d,%d); %s", int64(f.StartAt), int64(f.EndAt), d-nsMs, d, ctx())
		}
		if f.String() == "" {
			return "filler has no placeholder text; " + ctx()
		}
		if m := snapDiff(snapItem(f), fillerRefSnap); m != "" {
			return fmt.Sprintf("the filler differs from the plain placeholder cue a fresh list gets (%s): index %d, style %v, region %v, inline %v; %s", m, f.Index, f.Style != nil, f.Region != nil, f.InlineStyle != nil, ctx())
		}
		if f.String() != fillerRef {
			return fmt.Sprintf("filler text is %q, the first filler this process obtained read %q (the placeholder depends on earlier calls); %s", f.String(), fillerRef, ctx())
		}
		for _, it := range items {
			if it == f {
				return "filler is one of the cues the list already had; " + ctx()
			}
		}
	}
	// resulting duration
	if (needFiller || exact || (len(want) > 0 && want[len(want)-1].e == d)) && int64(b.sub.Duration()) != d {
		return fmt.Sprintf("list lasts %d after ForceDuration(%d); %s", int64(b.sub.Duration()), d, ctx())
	}
	return ""
}

// fillerRef / fillerRefSnap: the placeholder text and the whole non-time content of a filler obtained on an empty list
// before any other call of this process.
var fillerRef, fillerRefSnap = func() (string, itemSnap) {
	s := astisub.NewSubtitles()
	s.ForceDuration(time.Second, true)
	if len(s.Items) != 1 {
		return "?", itemSnap{}
	}
	return s.Items[0].String(), snapItem(s.Items[0])
}()

func checkC14(c c14Case) string {
	b := buildList(c.Cues)
	// whatever happens, the caller finally edits the cues it owns (fillers included): later calls must not notice
	defer func() {
		for _, it := range b.sub.Items {
			for li := range it.Lines {
				it.Lines[li].VoiceName = "edited"
				for ri := range it.Lines[li].Items {
					it.Lines[li].Items[ri].Text += "!"
				}
			}
		}
	}()
	if m := c14Stage(b, b.items, b.snaps, c.Cues, c.D, c.Filler, ""); m != "" {
		return m
	}
	if c.D2 <= 0 {
		return ""
	}
	// second call on what the first one left, provided that list still meets the precondition
	items := append([]*astisub.Item(nil), b.sub.Items...)
	var cues []cueSpec
	var snaps []itemSnap
	for i, it := range items {
		cues = append(cues, cueSpec{S: int64(it.StartAt), E: int64(it.EndAt), T: itemText(it)})
		snaps = append(snaps, snapItem(it))
		if i > 0 && (cues[i].S < cues[i-1].S || cues[i].E < cues[i-1].E) {
			return ""
		}
	}
	return c14Stage(b, items, snaps, cues, c.D2, c.Filler2, "second call; ")
}

func c14Class(c c14Case) (bool, []string) {
	var ls []string
	n := len(c.Cues)
	if n == 0 {
		ls = append(ls, "empty-list")
	} else {
		last := c.Cues[n-1].E
		switch {
		case c.D == last:
			ls = append(ls, "d-equals-duration")
		case c.D > last:
			ls = append(ls, "d-after-end")
		case c.D <= c.Cues[0].S:
			ls = append(ls, "d-at-or-before-first-start")
		}
		for _, cu := range c.Cues {
			if c.D == cu.S {
				ls = append(ls, "d-on-a-start")
			}
			if c.D == cu.E {
				ls = append(ls, "d-on-an-end")
			}
			if cu.S < c.D && c.D < cu.E {
				ls = append(ls, "d-inside-a-cue")
			}
		}
		inGap := false
		for i := 0; i+1 < n; i++ {
			if c.Cues[i].E < c.D && c.D < c.Cues[i+1].S {
				inGap = true
			}
		}
		if inGap {
			ls = append(ls, "d-in-a-gap")
		}
	}
	if c.Filler {
		ls = append(ls, "filler")
	}
	nt := n > 0 && c.D != c.Cues[n-1].E
	return nt, dedup(ls)
}

func dedup(ls []string) []string {
	sort.Strings(ls)
	out := ls[:0]
	for i, l := range ls {
		if i == 0 || l != ls[i-1] {
			out = append(out, l)
		}
	}
	return out
}

// wellFormed: starts ordered, ends non-decreasing.
func makeWellFormed(cs []cueSpec) []cueSpec {
	sort.SliceStable(cs, func(i, j int) bool { return cs[i].S < cs[j].S })
	var maxE int64
	for i := range cs {
		if cs[i].E < maxE {
			cs[i].E = maxE
		}
		if cs[i].E < cs[i].S {
			cs[i].E = cs[i].S
		}
		maxE = cs[i].E
	}
	return cs
}

func TestC14(t *testing.T) {
	runWitnesses(t, "C14")

	// Exhaustive: well-formed timelines of <=4 cues on the 0..8 grid (unit 1 ms), d in 1..10, filler in {false,true}.
	sub(t, "grid", func(t *testing.T) {
		const max = 8
		idx := 0
		cur := make([]cueSpec, 0, 4)
		var rec func(minS, minE int64)
		rec = func(minS, minE int64) {
			for d := int64(1); d <= max+2; d++ {
				for f := 0; f < 2; f++ {
					if idx%cfgShards == cfgShard {
						c := c14Case{Cues: append([]cueSpec(nil), cur...), D: d * nsMs, Filler: f == 1}
						nt, ls := c14Class(c)
						var key uint64
						if nt {
							key = strHash(fmt.Sprintf("%v", c))
						}
						ev.CaseH(nt, key, ls...)
						if nt && idx%3000 == 0 {
							ev.Sample("grid", c)
						}
						verdict(t, "C14", "c14", c, checkC14)
					}
					idx++
				}
			}
			if len(cur) == 4 {
				return
			}
			for s := minS; s <= max; s++ {
				lo := s
				if minE > lo {
					lo = minE
				}
				for e := lo; e <= max; e++ {
					cur = append(cur, cueSpec{S: s * nsMs, E: e * nsMs, T: opTexts[len(cur)%3]})
					rec(s, e)
					cur = cur[:len(cur)-1]
				}
			}
		}
		rec(0, 0)
		ev.Note("exhaustive-grid", fmt.Sprintf("all %d (well-formed timeline of <=4 cues on the 0..8 ms grid, d in 1..10 ms, filler) triples, over all shards", idx))
	})

	rapidCheck(t, "C14/random", tier(20000, 8000000), func(rt *rapid.T) {
		maxT := rapid.SampledFrom([]int64{30 * nsMs, 5000 * nsMs, 3600 * 1000 * nsMs}).Draw(rt, "range")
		cues := makeWellFormed(genCues(rt, 0, 8, maxT, []string{"a", "b", "c", "...", "~", ""}))
		if n := len(cues); n > 0 && rapid.IntRange(0, 5).Draw(rt, "fillerlike") == 0 {
			// a genuine cue that looks like a filler: one millisecond of "..."
			cues[n-1].T, cues[n-1].E = "...", cues[n-1].S+nsMs
			cues = makeWellFormed(cues)
		}
		var d int64
		switch rapid.IntRange(0, 3).Draw(rt, "dk") {
		case 0:
			if len(cues) > 0 {
				cu := rapid.SampledFrom(cues).Draw(rt, "dc")
				d = rapid.SampledFrom([]int64{cu.S, cu.E, (cu.S + cu.E) / 2}).Draw(rt, "db") + rapid.SampledFrom([]int64{0, 0, 1, -1, nsMs, -nsMs}).Draw(rt, "dd")
			}
		case 1:
			d = rapid.Int64Range(1, maxT/nsMs+10).Draw(rt, "dms") * nsMs
		default:
			d = rapid.Int64Range(nsMs, maxT+10*nsMs).Draw(rt, "d")
		}
		if d < nsMs {
			d = nsMs
		}
		c := c14Case{Cues: cues, D: d, Filler: rapid.Bool().Draw(rt, "filler")}
		nt, ls := c14Class(c)
		if rapid.IntRange(0, 2).Draw(rt, "again") == 0 {
			// e.g. a list forced to d1 and later to a longer or shorter d2
			c.D2 = d + rapid.SampledFrom([]int64{nsMs, 2 * nsMs, 1000 * nsMs, -nsMs, -2 * nsMs, 1, 500 * nsMs}).Draw(rt, "d2delta")
			if c.D2 < nsMs {
				c.D2 = nsMs
			}
			c.Filler2 = rapid.Bool().Draw(rt, "filler2")
			ls = append(ls, "second-call")
		}
		ev.Case(nt, fmt.Sprintf("%v", c), append(ls, "random")...)
		if nt {
			ev.Sample("random", c)
		}
		verdict(rt, "C14", "c14", c, checkC14)
	})
}

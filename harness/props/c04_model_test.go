package props

import (
	"fmt"
	"math"
	"reflect"
	"sort"
	"strconv"
	"strings"
	"time"

	astisub "github.com/asticode/go-astisub"
	"pgregory.net/rapid"
)

// Ground-truth model of a SubStation Alpha document (C04).

var (
	ssaBoolCols  = []string{"Bold", "Italic", "Strikeout", "Underline"}
	ssaColorCols = []string{"PrimaryColour", "SecondaryColour", "OutlineColour", "BackColour"}
	ssaFloatCols = []string{"AlphaLevel", "Angle", "Fontsize", "ScaleX", "ScaleY", "Outline", "Shadow", "Spacing"}
	ssaIntCols   = []string{"Alignment", "BorderStyle", "Encoding", "MarginL", "MarginR", "MarginV"}
	ssaStyleCols = append(append(append(append([]string{"Fontname"}, ssaBoolCols...), ssaColorCols...), ssaFloatCols...), ssaIntCols...)
	ssaInfoKeys  = []string{"Collisions", "Original Editing", "Original Script", "Original Timing", "Original Translation", "PlayDepth", "PlayResX", "PlayResY",
		"ScriptType", "Script Updated By", "Synch Point", "Timer", "Title", "Update Details", "WrapStyle"}
)

type ssaColor struct {
	A uint8 `json:"a"`
	B uint8 `json:"b"`
	G uint8 `json:"g"`
	R uint8 `json:"r"`
}

func (c ssaColor) u32() uint32 {
	return uint32(c.A)<<24 | uint32(c.B)<<16 | uint32(c.G)<<8 | uint32(c.R)
}

// ssaStyleM: a column is present for the style iff its key is in the map.
type ssaStyleM struct {
	Name     string              `json:"name"`
	Fontname *string             `json:"fontname,omitempty"`
	Bools    map[string]bool     `json:"bools,omitempty"`
	Colors   map[string]ssaColor `json:"colors,omitempty"`
	Floats   map[string]int64    `json:"floats_milli,omitempty"` // value * 1000
	Ints     map[string]int      `json:"ints,omitempty"`
}

type ssaRun struct {
	Text   string `json:"text"`
	Effect string `json:"effect,omitempty"` // "{...}" override block in front of the text
}

type ssaEventM struct {
	Start   int64  `json:"start_cs"`
	End     int64  `json:"end_cs"`
	Layer   *int   `json:"layer,omitempty"`
	Marked  *bool  `json:"marked,omitempty"`
	MarginL *int   `json:"margin_l,omitempty"`
	MarginR *int   `json:"margin_r,omitempty"`
	MarginV *int   `json:"margin_v,omitempty"`
	Effect  string `json:"effect,omitempty"`
	Name    string `json:"name,omitempty"`
	Style   string `json:"style,omitempty"`
	// Ghost: what the Style cell of an event without a style holds: the name of a style the script does not define
	// (also not without a leading '*', also not in another case) - the event denotes no style
	Ghost string     `json:"ghost,omitempty"`
	Lines [][]ssaRun `json:"lines"`
}

type ssaDoc struct {
	Info     map[string]string `json:"info,omitempty"` // script info, values as written (ints/floats in canonical form)
	Comments []string          `json:"comments,omitempty"`
	Styles   []ssaStyleM       `json:"styles,omitempty"`
	Events   []ssaEventM       `json:"events"`
}

type ssaRendering struct {
	EOL           string   `json:"eol"`
	BOM           bool     `json:"bom"`
	V4Plus        bool     `json:"v4plus"`
	StylesHeader  string   `json:"styles_header"`
	InfoHeader    string   `json:"info_header"`
	EventsHeader  string   `json:"events_header"`
	StyleCols     []string `json:"style_cols"` // order of the style columns incl. "Name"
	EventCols     []string `json:"event_cols"` // order of the event columns, Text last
	FormatSpace   bool     `json:"format_space"`
	ShortHour     bool     `json:"short_hour"`
	ColorMode     int      `json:"color_mode"` // 0 decimal, 1 &H hex 8 digits upper, 2 &H hex lower, 3 hex minimal digits (>=6), 4 negative decimal when alpha>=0x80
	Tertiary      bool     `json:"tertiary"`
	BreakUpper    bool     `json:"break_upper"`         // \N instead of \n
	BreakMix      bool     `json:"break_mix,omitempty"` // both forms inside one event, alternating
	LeadComment   bool     `json:"lead_comment,omitempty"`
	ForeignCols   bool     `json:"foreign_cols,omitempty"` // the Format lines list a column of another tool's dialect too (ignored, cells and all)
	Junk          bool     `json:"junk"`
	UnknownSec    bool     `json:"unknown_section"`
	OtherEvents   bool     `json:"other_events"`
	StarStyle     bool     `json:"star_style"`
	KeySpace      bool     `json:"key_space"` // "Key: value" vs "Key:value"
	CommentInBody bool     `json:"comment_in_body"`
	TrueAs        string   `json:"true_as"`                // "-1" (specification)
	EventsFirst   bool     `json:"events_first,omitempty"` // the events section comes before the styles section
}

func fmtSSATime(cs int64, short bool) string {
	h := cs / 360000
	m := cs / 6000 % 60
	s := cs / 100 % 60
	c := cs % 100
	if short {
		return fmt.Sprintf("%d:%02d:%02d.%02d", h, m, s, c)
	}
	return fmt.Sprintf("%02d:%02d:%02d.%02d", h, m, s, c)
}

func fmtMilli(v int64) string {
	s := strconv.FormatFloat(float64(v)/1000, 'f', -1, 64)
	return s
}

func fmtSSAColor(c ssaColor, mode int) string {
	v := c.u32()
	switch mode {
	case 1:
		return fmt.Sprintf("&H%08X", v)
	case 2:
		return fmt.Sprintf("&H%08x", v)
	case 3:
		return fmt.Sprintf("&H%06X", v)
	case 4:
		return strconv.FormatInt(int64(int32(v)), 10)
	case 6:
		return fmt.Sprintf("&H%X", v)
	}
	return strconv.FormatUint(uint64(v), 10)
}

func (st ssaStyleM) cell(col string, r ssaRendering) string {
	switch {
	case col == "Name":
		return st.Name
	case col == "Fontname":
		if st.Fontname != nil {
			return *st.Fontname
		}
		return ""
	case col == "TertiaryColour":
		return fmtSSAColor(st.Colors["OutlineColour"], r.ColorMode)
	}
	if v, ok := st.Bools[col]; ok {
		if v {
			return r.TrueAs
		}
		return "0"
	}
	if v, ok := st.Colors[col]; ok {
		if r.ColorMode == 5 {
			// both radices in one document: decimal for the primary and outline colours, hexadecimal for the others
			if col == "PrimaryColour" || col == "OutlineColour" {
				return fmtSSAColor(v, 0)
			}
			return fmtSSAColor(v, 6)
		}
		return fmtSSAColor(v, r.ColorMode)
	}
	if v, ok := st.Floats[col]; ok {
		return fmtMilli(v)
	}
	if v, ok := st.Ints[col]; ok {
		return strconv.Itoa(v)
	}
	return ""
}

func renderSSAText(lines [][]ssaRun, upper bool, mix ...bool) string {
	brk := []string{"\\n", "\\N"}
	if upper {
		brk = []string{"\\N", "\\n"}
	}
	if len(mix) == 0 || !mix[0] {
		brk[1] = brk[0]
	}
	out := ""
	for i, l := range lines {
		if i > 0 {
			out += brk[(i-1)%2]
		}
		for _, r := range l {
			out += r.Effect + r.Text
		}
	}
	return out
}

func renderSSA(d ssaDoc, r ssaRendering) []byte {
	var lines []string
	emit := func(l string) { lines = append(lines, l) }
	kv := func(k, v string) string {
		if r.KeySpace {
			return k + ": " + v
		}
		return k + ":" + v
	}
	if r.UnknownSec {
		emit("[Aegisub Project Garbage]")
		emit("Last Style Storage: Default")
		emit("Dialogue: not, an, event")
		emit("junk without colon")
		emit("; looks like a comment but belongs to an unknown section")
		emit("Title: not the title")
		emit("Format: Name, Fontname")
		emit("Style: ghost,Arial")
		emit("")
	}
	comments := d.Comments
	if r.LeadComment && !r.UnknownSec && len(comments) > 0 {
		// a comment ahead of the first section header (a tool's banner)
		emit("; " + comments[0])
		comments = comments[1:]
	}
	emit(r.InfoHeader)
	for _, c := range comments {
		emit("; " + c)
	}
	for _, k := range ssaInfoKeys {
		if v, ok := d.Info[k]; ok {
			emit(kv(k, v))
		}
	}
	if r.Junk {
		emit("this line has no colon and must be ignored")
		emit("[not a section] but a remark that starts with a bracketed word")
		emit("Unknown Key: ignored value")
	}
	emit("")
	head := lines
	lines = nil
	if len(d.Styles) > 0 {
		emit(r.StylesHeader)
		cols := append([]string(nil), r.StyleCols...)
		for i, c := range cols {
			if c == "OutlineColour" && r.Tertiary {
				cols[i] = "TertiaryColour"
			}
		}
		sep := ","
		if r.FormatSpace {
			sep = ", "
		}
		if r.ForeignCols && len(cols) > 0 {
			cols = append(append(append([]string(nil), cols[:1]...), "X-Custom"), cols[1:]...)
		}
		emit(kv("Format", strings.Join(cols, sep)))
		if r.CommentInBody {
			emit("; a comment inside the styles section")
		}
		for _, st := range d.Styles {
			var cells []string
			for _, c := range cols {
				if c == "X-Custom" {
					cells = append(cells, "7")
					continue
				}
				cells = append(cells, st.cell(c, r))
			}
			emit(kv("Style", strings.Join(cells, ",")))
		}
		emit("")
	}
	if r.UnknownSec {
		emit("[Fonts]")
		emit("fontname: x.ttf")
		emit("M,5V:&H0>(=/!")
		emit(";5V:uuencoded data may start with any character")
		emit("Format: Layer, Start, End, Text")
		emit("Dialogue: 0,0:00:00.00,0:00:01.00,not an event")
		emit("")
	}
	stylesBlock := lines
	lines = nil
	emit(r.EventsHeader)
	sep := ","
	if r.FormatSpace {
		sep = ", "
	}
	eventCols := r.EventCols
	if n := len(eventCols); r.ForeignCols && n > 0 {
		// ahead of the last column (the text takes the rest of the line)
		eventCols = append(append(append([]string(nil), eventCols[:n-1]...), "X-Actor2"), eventCols[n-1])
	}
	emit(kv("Format", strings.Join(eventCols, sep)))
	row := func(cat string, e ssaEventM) string {
		var cells []string
		for _, c := range eventCols {
			switch c {
			case "X-Actor2":
				cells = append(cells, "someone")
			case "Marked":
				if e.Marked != nil && *e.Marked {
					cells = append(cells, "Marked=1")
				} else {
					cells = append(cells, "Marked=0")
				}
			case "Layer":
				cells = append(cells, strconv.Itoa(deref(e.Layer)))
			case "Start":
				cells = append(cells, fmtSSATime(e.Start, r.ShortHour))
			case "End":
				cells = append(cells, fmtSSATime(e.End, r.ShortHour))
			case "Style":
				st := e.Style
				if st == "" {
					st = e.Ghost
				}
				if r.StarStyle && st != "" {
					st = "*" + st
				}
				cells = append(cells, st)
			case "Name":
				cells = append(cells, e.Name)
			case "MarginL":
				cells = append(cells, fmt.Sprintf("%04d", deref(e.MarginL)))
			case "MarginR":
				cells = append(cells, fmt.Sprintf("%04d", deref(e.MarginR)))
			case "MarginV":
				cells = append(cells, strconv.Itoa(deref(e.MarginV)))
			case "Effect":
				cells = append(cells, e.Effect)
			case "Text":
				cells = append(cells, renderSSAText(e.Lines, r.BreakUpper, r.BreakMix))
			}
		}
		return kv(cat, strings.Join(cells, ","))
	}
	for i, e := range d.Events {
		if r.OtherEvents && i%2 == 0 {
			other := e
			other.Lines = [][]ssaRun{{{Text: "not a dialogue, must be ignored"}}}
			emit(row([]string{"Comment", "Picture", "Sound", "Movie", "Command"}[i/2%5], other))
		}
		if r.CommentInBody && i == 1 {
			emit("; a comment between events")
		}
		emit(row("Dialogue", e))
		if r.Junk && i == 0 {
			emit("junk line between events")
			emit("[todo] re-time the next line")
			emit("[half a header")
		}
	}
	if r.EventsFirst {
		lines = append(append(head, append(lines, "")...), stylesBlock...)
	} else {
		lines = append(append(head, stylesBlock...), lines...)
	}
	var sb strings.Builder
	if r.BOM {
		sb.WriteString("\xef\xbb\xbf")
	}
	for _, l := range lines {
		sb.WriteString(l)
		sb.WriteString(r.EOL)
	}
	return []byte(sb.String())
}

func deref(p *int) int {
	if p == nil {
		return 0
	}
	return *p
}

// ---------------------------------------------------------------------------
// Observation (projection of the library's result) and comparison

type ssaObs struct {
	Info     map[string]string
	Comments []string
	Styles   map[string]ssaStyleM
	Events   []ssaEventM
}

func projSSA(s *astisub.Subtitles) (ssaObs, string) {
	o := ssaObs{Info: map[string]string{}, Styles: map[string]ssaStyleM{}}
	if m := s.Metadata; m != nil {
		put := func(k, v string) {
			if v != "" {
				o.Info[k] = v
			}
		}
		put("Collisions", m.SSACollisions)
		put("Original Editing", m.SSAOriginalEditing)
		put("Original Script", m.SSAOriginalScript)
		put("Original Timing", m.SSAOriginalTiming)
		put("Original Translation", m.SSAOriginalTranslation)
		put("ScriptType", m.SSAScriptType)
		put("Script Updated By", m.SSAScriptUpdatedBy)
		put("Synch Point", m.SSASynchPoint)
		put("Title", m.Title)
		put("Update Details", m.SSAUpdateDetails)
		put("WrapStyle", m.SSAWrapStyle)
		if m.SSAPlayDepth != nil {
			o.Info["PlayDepth"] = strconv.Itoa(*m.SSAPlayDepth)
		}
		if m.SSAPlayResX != nil {
			o.Info["PlayResX"] = strconv.Itoa(*m.SSAPlayResX)
		}
		if m.SSAPlayResY != nil {
			o.Info["PlayResY"] = strconv.Itoa(*m.SSAPlayResY)
		}
		if m.SSATimer != nil {
			o.Info["Timer"] = strconv.FormatFloat(*m.SSATimer, 'f', -1, 64)
		}
		o.Comments = append([]string(nil), m.Comments...)
	}
	for id, st := range s.Styles {
		if st == nil || st.ID != id {
			return o, fmt.Sprintf("style map key %q does not match its definition", id)
		}
		sm := ssaStyleM{Name: id, Bools: map[string]bool{}, Colors: map[string]ssaColor{}, Floats: map[string]int64{}, Ints: map[string]int{}}
		if sa := st.InlineStyle; sa != nil {
			if sa.SSAFontName != "" {
				f := sa.SSAFontName
				sm.Fontname = &f
			}
			for k, v := range map[string]*bool{"Bold": sa.SSABold, "Italic": sa.SSAItalic, "Strikeout": sa.SSAStrikeout, "Underline": sa.SSAUnderline} {
				if v != nil {
					sm.Bools[k] = *v
				}
			}
			for k, v := range map[string]*astisub.Color{"PrimaryColour": sa.SSAPrimaryColour, "SecondaryColour": sa.SSASecondaryColour, "OutlineColour": sa.SSAOutlineColour, "BackColour": sa.SSABackColour} {
				if v != nil {
					sm.Colors[k] = ssaColor{A: v.Alpha, B: v.Blue, G: v.Green, R: v.Red}
				}
			}
			for k, v := range map[string]*float64{"AlphaLevel": sa.SSAAlphaLevel, "Angle": sa.SSAAngle, "Fontsize": sa.SSAFontSize, "ScaleX": sa.SSAScaleX, "ScaleY": sa.SSAScaleY,
				"Outline": sa.SSAOutline, "Shadow": sa.SSAShadow, "Spacing": sa.SSASpacing} {
				if v != nil {
					sm.Floats[k] = int64(math.Round(*v * 1000))
					if math.Abs(*v*1000-math.Round(*v*1000)) > 1e-6 {
						return o, fmt.Sprintf("style %q: %s = %v is not on the 1/1000 grid", id, k, *v)
					}
				}
			}
			for k, v := range map[string]*int{"Alignment": sa.SSAAlignment, "BorderStyle": sa.SSABorderStyle, "Encoding": sa.SSAEncoding,
				"MarginL": sa.SSAMarginLeft, "MarginR": sa.SSAMarginRight, "MarginV": sa.SSAMarginVertical} {
				if v != nil {
					sm.Ints[k] = *v
				}
			}
		}
		o.Styles[id] = sm
	}
	for i, it := range s.Items {
		cs := int64(10 * time.Millisecond)
		if int64(it.StartAt)%cs != 0 || int64(it.EndAt)%cs != 0 {
			return o, fmt.Sprintf("event %d: boundary not on the centisecond grid (%v, %v)", i, it.StartAt, it.EndAt)
		}
		e := ssaEventM{Start: int64(it.StartAt) / cs, End: int64(it.EndAt) / cs}
		if sa := it.InlineStyle; sa != nil {
			e.Layer, e.Marked, e.MarginL, e.MarginR, e.MarginV, e.Effect = sa.SSALayer, sa.SSAMarked, sa.SSAMarginLeft, sa.SSAMarginRight, sa.SSAMarginVertical, sa.SSAEffect
		}
		if it.Style != nil {
			e.Style = it.Style.ID
			if s.Styles[e.Style] != it.Style {
				return o, fmt.Sprintf("event %d: its style %q is not the definition held by the style map", i, e.Style)
			}
		}
		for j, l := range it.Lines {
			if j == 0 {
				e.Name = l.VoiceName
			} else if l.VoiceName != e.Name {
				return o, fmt.Sprintf("event %d: lines carry different speaker names %q / %q", i, e.Name, l.VoiceName)
			}
			var runs []ssaRun
			for _, li := range l.Items {
				r := ssaRun{Text: li.Text}
				if li.InlineStyle != nil {
					r.Effect = li.InlineStyle.SSAEffect
				}
				runs = append(runs, r)
			}
			e.Lines = append(e.Lines, runs)
		}
		o.Events = append(o.Events, e)
	}
	return o, ""
}

func normSSALines(lines [][]ssaRun) [][]ssaRun {
	var out [][]ssaRun
	for _, l := range lines {
		var nl []ssaRun
		for _, r := range l {
			if r.Text == "" && r.Effect == "" {
				continue
			}
			if n := len(nl); n > 0 && r.Effect == "" {
				nl[n-1].Text += r.Text
			} else {
				nl = append(nl, r)
			}
		}
		out = append(out, nl)
	}
	return out
}

type ssaExpect struct {
	styleCols map[string]bool // columns every style must have (read direction); nil = per-style presence from the model
	hasLayer  bool
	hasMarked bool
	margins   map[string]bool
}

func ptrIntEq(a, b *int) bool {
	if a == nil || b == nil {
		return a == b
	}
	return *a == *b
}

func diffSSA(d ssaDoc, o ssaObs, who string, x ssaExpect) string {
	if !reflect.DeepEqual(d.Info, o.Info) && !(len(d.Info) == 0 && len(o.Info) == 0) {
		return fmt.Sprintf("%s: script info %v, expected %v", who, o.Info, d.Info)
	}
	if !reflect.DeepEqual(d.Comments, o.Comments) && !(len(d.Comments) == 0 && len(o.Comments) == 0) {
		return fmt.Sprintf("%s: comments %q, expected %q", who, o.Comments, d.Comments)
	}
	if len(o.Styles) != len(d.Styles) {
		return fmt.Sprintf("%s: %d styles, expected %d", who, len(o.Styles), len(d.Styles))
	}
	for _, st := range d.Styles {
		g, ok := o.Styles[st.Name]
		if !ok {
			return fmt.Sprintf("%s: style %q missing", who, st.Name)
		}
		gf, wf := "", ""
		if g.Fontname != nil {
			gf = *g.Fontname
		}
		if st.Fontname != nil {
			wf = *st.Fontname
		}
		if gf != wf {
			return fmt.Sprintf("%s: style %q Fontname %q, expected %q", who, st.Name, gf, wf)
		}
		for _, c := range ssaBoolCols {
			gv, gok := g.Bools[c]
			wv, wok := st.Bools[c]
			// N4: tri-state booleans compare by effective value
			if gv != wv {
				return fmt.Sprintf("%s: style %q %s = %v (present %v), expected %v (present %v)", who, st.Name, c, gv, gok, wv, wok)
			}
		}
		for _, c := range ssaColorCols {
			gv, gok := g.Colors[c]
			wv, wok := st.Colors[c]
			if gok != wok || gv != wv {
				return fmt.Sprintf("%s: style %q %s = %+v (present %v), expected %+v (present %v)", who, st.Name, c, gv, gok, wv, wok)
			}
		}
		for _, c := range ssaFloatCols {
			gv, gok := g.Floats[c]
			wv, wok := st.Floats[c]
			if gok != wok || gv != wv {
				return fmt.Sprintf("%s: style %q %s = %d/1000 (present %v), expected %d/1000 (present %v)", who, st.Name, c, gv, gok, wv, wok)
			}
		}
		for _, c := range ssaIntCols {
			gv, gok := g.Ints[c]
			wv, wok := st.Ints[c]
			if gok != wok || gv != wv {
				return fmt.Sprintf("%s: style %q %s = %d (present %v), expected %d (present %v)", who, st.Name, c, gv, gok, wv, wok)
			}
		}
	}
	if len(o.Events) != len(d.Events) {
		return fmt.Sprintf("%s: %d dialogue events, expected %d", who, len(o.Events), len(d.Events))
	}
	for i, e := range d.Events {
		g := o.Events[i]
		if g.Start != e.Start || g.End != e.End {
			return fmt.Sprintf("%s: event %d times %d-->%d cs, expected %d-->%d cs", who, i, g.Start, g.End, e.Start, e.End)
		}
		if x.hasLayer && deref(g.Layer) != deref(e.Layer) {
			return fmt.Sprintf("%s: event %d layer %d, expected %d", who, i, deref(g.Layer), deref(e.Layer))
		}
		if x.hasMarked {
			gm, wm := g.Marked != nil && *g.Marked, e.Marked != nil && *e.Marked
			if gm != wm {
				return fmt.Sprintf("%s: event %d marked %v, expected %v", who, i, gm, wm)
			}
		}
		for k, pair := range map[string][2]*int{"MarginL": {g.MarginL, e.MarginL}, "MarginR": {g.MarginR, e.MarginR}, "MarginV": {g.MarginV, e.MarginV}} {
			if x.margins[k] && deref(pair[0]) != deref(pair[1]) {
				return fmt.Sprintf("%s: event %d %s %d, expected %d", who, i, k, deref(pair[0]), deref(pair[1]))
			}
		}
		if g.Effect != e.Effect || g.Name != e.Name || g.Style != e.Style {
			return fmt.Sprintf("%s: event %d effect/name/style %q/%q/%q, expected %q/%q/%q", who, i, g.Effect, g.Name, g.Style, e.Effect, e.Name, e.Style)
		}
		wl, gl := normSSALines(e.Lines), normSSALines(g.Lines)
		if !reflect.DeepEqual(wl, gl) {
			return fmt.Sprintf("%s: event %d text %+v, expected %+v", who, i, gl, wl)
		}
	}
	return ""
}

// toSubtitlesSSA converts the model to the public types (write direction).
func toSubtitlesSSA(d ssaDoc) *astisub.Subtitles {
	s := astisub.NewSubtitles()
	m := &astisub.Metadata{Comments: append([]string(nil), d.Comments...)}
	m.SSACollisions = d.Info["Collisions"]
	m.SSAOriginalEditing = d.Info["Original Editing"]
	m.SSAOriginalScript = d.Info["Original Script"]
	m.SSAOriginalTiming = d.Info["Original Timing"]
	m.SSAOriginalTranslation = d.Info["Original Translation"]
	m.SSAScriptType = d.Info["ScriptType"]
	m.SSAScriptUpdatedBy = d.Info["Script Updated By"]
	m.SSASynchPoint = d.Info["Synch Point"]
	m.Title = d.Info["Title"]
	m.SSAUpdateDetails = d.Info["Update Details"]
	m.SSAWrapStyle = d.Info["WrapStyle"]
	ip := func(k string) *int {
		if v, ok := d.Info[k]; ok {
			n, _ := strconv.Atoi(v)
			return &n
		}
		return nil
	}
	m.SSAPlayDepth, m.SSAPlayResX, m.SSAPlayResY = ip("PlayDepth"), ip("PlayResX"), ip("PlayResY")
	if v, ok := d.Info["Timer"]; ok {
		f, _ := strconv.ParseFloat(v, 64)
		m.SSATimer = &f
	}
	s.Metadata = m
	for _, st := range d.Styles {
		sa := &astisub.StyleAttributes{}
		if st.Fontname != nil {
			sa.SSAFontName = *st.Fontname
		}
		bp := func(k string) *bool {
			if v, ok := st.Bools[k]; ok {
				return &v
			}
			return nil
		}
		sa.SSABold, sa.SSAItalic, sa.SSAStrikeout, sa.SSAUnderline = bp("Bold"), bp("Italic"), bp("Strikeout"), bp("Underline")
		cp := func(k string) *astisub.Color {
			if v, ok := st.Colors[k]; ok {
				return &astisub.Color{Alpha: v.A, Blue: v.B, Green: v.G, Red: v.R}
			}
			return nil
		}
		sa.SSAPrimaryColour, sa.SSASecondaryColour, sa.SSAOutlineColour, sa.SSABackColour = cp("PrimaryColour"), cp("SecondaryColour"), cp("OutlineColour"), cp("BackColour")
		fp := func(k string) *float64 {
			if v, ok := st.Floats[k]; ok {
				f := float64(v) / 1000
				return &f
			}
			return nil
		}
		sa.SSAAlphaLevel, sa.SSAAngle, sa.SSAFontSize, sa.SSAScaleX, sa.SSAScaleY = fp("AlphaLevel"), fp("Angle"), fp("Fontsize"), fp("ScaleX"), fp("ScaleY")
		sa.SSAOutline, sa.SSAShadow, sa.SSASpacing = fp("Outline"), fp("Shadow"), fp("Spacing")
		np := func(k string) *int {
			if v, ok := st.Ints[k]; ok {
				return &v
			}
			return nil
		}
		sa.SSAAlignment, sa.SSABorderStyle, sa.SSAEncoding = np("Alignment"), np("BorderStyle"), np("Encoding")
		sa.SSAMarginLeft, sa.SSAMarginRight, sa.SSAMarginVertical = np("MarginL"), np("MarginR"), np("MarginV")
		s.Styles[st.Name] = &astisub.Style{ID: st.Name, InlineStyle: sa}
	}
	for _, e := range d.Events {
		it := &astisub.Item{StartAt: time.Duration(e.Start) * 10 * time.Millisecond, EndAt: time.Duration(e.End) * 10 * time.Millisecond}
		it.InlineStyle = &astisub.StyleAttributes{SSAEffect: e.Effect, SSALayer: e.Layer, SSAMarked: e.Marked, SSAMarginLeft: e.MarginL, SSAMarginRight: e.MarginR, SSAMarginVertical: e.MarginV}
		if e.Style != "" {
			it.Style = s.Styles[e.Style]
		}
		for _, l := range e.Lines {
			ln := astisub.Line{VoiceName: e.Name}
			for _, r := range l {
				li := astisub.LineItem{Text: r.Text}
				if r.Effect != "" {
					li.InlineStyle = &astisub.StyleAttributes{SSAEffect: r.Effect}
				}
				ln.Items = append(ln.Items, li)
			}
			it.Lines = append(it.Lines, ln)
		}
		s.Items = append(s.Items, it)
	}
	return s
}

// ---------------------------------------------------------------------------
// Generators

var ssaTextOpts = textOpts{
	extra:   []string{",", ", ", "a,b", ":", "Dialogue:", "[Events]", ";", "*", "\\", "\\h", "&H00", "Format:", "0:00:00.00", "-1"},
	forbid:  []string{"\\N", "\\n", "{", "}"},
	nbsp:    true,
	noPunct: []string{"{", "}"},
}

var ssaOverrides = []string{"{\\i1}", "{\\i0}", "{\\b1}", "{\\an8}", "{\\pos(400,570)}", "{\\c&H0000FF&}", "{\\fad(200,200)\\blur3}", "{comment, with: punctuation}"}

func genSSAStyle(t *rapid.T, name string, cols map[string]bool) ssaStyleM {
	st := ssaStyleM{Name: name, Bools: map[string]bool{}, Colors: map[string]ssaColor{}, Floats: map[string]int64{}, Ints: map[string]int{}}
	if cols["Fontname"] {
		f := rapid.SampledFrom([]string{"Arial", "Times New Roman", "DejaVu Sans", "ＭＳ ゴシック"}).Draw(t, "font")
		st.Fontname = &f
	}
	for _, c := range ssaBoolCols {
		if cols[c] {
			st.Bools[c] = rapid.Bool().Draw(t, c)
		}
	}
	for _, c := range ssaColorCols {
		if cols[c] {
			v := rapid.Uint32().Draw(t, c)
			if rapid.IntRange(0, 2).Draw(t, c+"k") == 0 {
				v = rapid.SampledFrom([]uint32{0, 0xffffff, 0xff, 0xff000000, 0x80000000, 0xffffffff, 0x00ffff}).Draw(t, c+"s")
			}
			st.Colors[c] = ssaColor{A: uint8(v >> 24), B: uint8(v >> 16), G: uint8(v >> 8), R: uint8(v)}
		}
	}
	if cols["PrimaryColour"] && cols["SecondaryColour"] && rapid.IntRange(0, 2).Draw(t, "samedigits") == 0 {
		// two colours whose digits are the same, one read as decimal and one as hexadecimal when the document mixes radices
		a := rapid.SampledFrom([]uint32{123456, 255, 654321, 10, 99999999, 16777215}).Draw(t, "digits")
		h, _ := strconv.ParseUint(strconv.FormatUint(uint64(a), 10), 16, 32)
		st.Colors["PrimaryColour"] = ssaColor{A: uint8(a >> 24), B: uint8(a >> 16), G: uint8(a >> 8), R: uint8(a)}
		st.Colors["SecondaryColour"] = ssaColor{A: uint8(h >> 24), B: uint8(h >> 16), G: uint8(h >> 8), R: uint8(h)}
	}
	for _, c := range ssaFloatCols {
		if cols[c] {
			st.Floats[c] = rapid.SampledFrom([]int64{0, 1000, 20000, 500, 125, 100000, 2500, 12345, -1500}).Draw(t, c)
		}
	}
	for _, c := range ssaIntCols {
		if cols[c] {
			st.Ints[c] = rapid.SampledFrom([]int{0, 1, 2, 3, 5, 10, 30, 128, -1}).Draw(t, c)
		}
	}
	return st
}

func genSSADoc(t *rapid.T, write bool) (ssaDoc, map[string]bool) {
	d := ssaDoc{Info: map[string]string{}}
	infoVals := map[string][]string{
		"Collisions":           {"Normal", "Reverse"},
		"Original Editing":     {"someone", "A: B"},
		"Original Script":      {"asticode", "x, y"},
		"Original Timing":      {"me"},
		"Original Translation": {"toi"},
		"PlayDepth":            {"0", "8", "24"},
		"PlayResX":             {"384", "1920"},
		"PlayResY":             {"288", "1080"},
		"ScriptType":           {"v4.00", "v4.00+"},
		"Script Updated By":    {"version 2.8.01", "him: at 12:30"},
		"Synch Point":          {"0", "Side 1 0m00s"},
		"Timer":                {"100", "100.5", "99.975"},
		"Title":                {"Example", "A title: with colon", "標題"},
		"Update Details":       {"details"},
		"WrapStyle":            {"0", "2"},
	}
	for _, k := range ssaInfoKeys {
		if rapid.IntRange(0, 2).Draw(t, "i"+k) == 0 {
			d.Info[k] = rapid.SampledFrom(infoVals[k]).Draw(t, "v"+k)
		}
	}
	nc := rapid.SampledFrom([]int{0, 0, 1, 2}).Draw(t, "ncomments")
	for i := 0; i < nc; i++ {
		d.Comments = append(d.Comments, rapid.SampledFrom([]string{"Script generated by x", "http://example.com/a:b", "comment; with semicolon", "注释", ";;; banner ;;;", "; ;x", ";"}).Draw(t, "comment"))
	}
	// columns shared by all styles in the read direction; heterogeneous in the write direction
	cols := map[string]bool{}
	for _, c := range ssaStyleCols {
		if rapid.IntRange(0, 2).Draw(t, "c"+c) > 0 {
			cols[c] = true
		}
	}
	ns := rapid.SampledFrom([]int{0, 1, 1, 2, 3, 4}).Draw(t, "nstyles")
	// names that tie or cycle under "natural" orderings, and a name that itself starts with '*'
	namePool := [][]string{{"Default", "Alt", "top style", "S-4"}, {"7", "07", "10", "1a"}, {"2", "10", "1a", "*Star"}, {"Default", "*Default2", "a1", "a01"}}
	names := rapid.SampledFrom(namePool).Draw(t, "names")
	for i := 0; i < ns; i++ {
		sc := cols
		if write && rapid.Bool().Draw(t, "hetero") {
			sc = map[string]bool{}
			for _, c := range ssaStyleCols {
				if rapid.Bool().Draw(t, "h"+c) {
					sc[c] = true
				}
			}
		}
		d.Styles = append(d.Styles, genSSAStyle(t, names[i], sc))
	}
	ne := rapid.IntRange(0, 6).Draw(t, "events")
	for i := 0; i < ne; i++ {
		e := ssaEventM{Start: genMs(t, "start") / 10, End: genMs(t, "end") / 10}
		if rapid.Bool().Draw(t, "haslayer") {
			v := rapid.IntRange(0, 3).Draw(t, "layer")
			e.Layer = &v
		}
		if rapid.Bool().Draw(t, "hasmarked") {
			v := rapid.Bool().Draw(t, "marked")
			e.Marked = &v
		}
		for _, p := range []**int{&e.MarginL, &e.MarginR, &e.MarginV} {
			if rapid.Bool().Draw(t, "hasmargin") {
				v := rapid.SampledFrom([]int{0, 10, 25, 100}).Draw(t, "margin")
				*p = &v
			}
		}
		e.Effect = rapid.SampledFrom([]string{"", "", "Karaoke", "Scroll up;100;200;5", "Banner;20"}).Draw(t, "effect")
		e.Name = rapid.SampledFrom([]string{"", "", "Cher", "NTP", "Mr. X"}).Draw(t, "name")
		if ns > 0 && rapid.IntRange(0, 3).Draw(t, "hasstyle") > 0 {
			e.Style = d.Styles[rapid.IntRange(0, ns-1).Draw(t, "style")].Name
		}
		if e.Style == "" && !write && i%2 == 0 {
			e.Ghost = []string{"Ghost", "default", "Defaults"}[i/2%3]
		}
		nl := rapid.IntRange(1, 3).Draw(t, "lines")
		for j := 0; j < nl; j++ {
			nr := rapid.IntRange(1, 3).Draw(t, "runs")
			var runs []ssaRun
			joined := ""
			for k := 0; k < nr; k++ {
				run := ssaRun{Text: genText(t, ssaTextOpts)}
				if k > 0 || rapid.Bool().Draw(t, "lead-effect") {
					run.Effect = rapid.SampledFrom(ssaOverrides).Draw(t, "override")
				}
				if k > 0 && rapid.Bool().Draw(t, "lead") {
					run.Text = " " + run.Text
				}
				if k < nr-1 && rapid.IntRange(0, 3).Draw(t, "trail") == 0 {
					run.Text += " "
				}
				run.Text = fixJoin(joined, run.Text, ssaTextOpts.forbid)
				joined += run.Text
				// adjacent override blocks: a block directly followed by another one is a run without text
				if run.Effect != "" && rapid.IntRange(0, 3).Draw(t, "adjacent") == 0 {
					runs = append(runs, ssaRun{Effect: rapid.SampledFrom(ssaOverrides).Draw(t, "override2")})
				}
				runs = append(runs, run)
				// a block at the very end of the line
				if k == nr-1 && rapid.IntRange(0, 5).Draw(t, "trailing-block") == 0 {
					runs = append(runs, ssaRun{Effect: rapid.SampledFrom(ssaOverrides).Draw(t, "override3")})
				}
			}
			e.Lines = append(e.Lines, runs)
		}
		d.Events = append(d.Events, e)
	}
	return d, cols
}

func genSSARendering(t *rapid.T, cols map[string]bool) ssaRendering {
	r := ssaRendering{
		EOL:           rapid.SampledFrom([]string{"\n", "\n", "\r\n", "\r\n", "\r"}).Draw(t, "eol"),
		BOM:           rapid.Bool().Draw(t, "bom"),
		V4Plus:        rapid.Bool().Draw(t, "v4plus"),
		InfoHeader:    rapid.SampledFrom([]string{"[Script Info]", "[script info]", "[SCRIPT INFO]"}).Draw(t, "infohdr"),
		EventsHeader:  rapid.SampledFrom([]string{"[Events]", "[events]", "[EVENTS]"}).Draw(t, "evhdr"),
		FormatSpace:   rapid.Bool().Draw(t, "fmtspace"),
		ShortHour:     rapid.Bool().Draw(t, "shorthour"),
		ColorMode:     rapid.IntRange(0, 5).Draw(t, "colormode"),
		Tertiary:      rapid.Bool().Draw(t, "tertiary"),
		BreakUpper:    rapid.Bool().Draw(t, "breakupper"),
		BreakMix:      rapid.IntRange(0, 3).Draw(t, "breakmix") == 0,
		ForeignCols:   rapid.IntRange(0, 4).Draw(t, "foreigncols") == 0,
		LeadComment:   rapid.IntRange(0, 3).Draw(t, "leadcomment") == 0,
		Junk:          rapid.Bool().Draw(t, "junk"),
		UnknownSec:    rapid.Bool().Draw(t, "unknownsec"),
		OtherEvents:   rapid.Bool().Draw(t, "otherevents"),
		StarStyle:     rapid.IntRange(0, 3).Draw(t, "star") == 0,
		KeySpace:      rapid.IntRange(0, 3).Draw(t, "keyspace") > 0,
		CommentInBody: rapid.IntRange(0, 3).Draw(t, "cbody") == 0,
		EventsFirst:   rapid.IntRange(0, 4).Draw(t, "eventsfirst") == 0,
		TrueAs:        "-1",
	}
	if r.V4Plus {
		r.StylesHeader = rapid.SampledFrom([]string{"[V4+ Styles]", "[v4+ styles]", "[V4 Styles+]"}).Draw(t, "sthdr")
	} else {
		r.StylesHeader = rapid.SampledFrom([]string{"[V4 Styles]", "[v4 styles]", "[V4 STYLES]"}).Draw(t, "sthdr")
	}
	sc := []string{"Name"}
	for _, c := range ssaStyleCols {
		if cols[c] {
			sc = append(sc, c)
		}
	}
	p := genPerm(t, len(sc), "scperm")
	for _, i := range p {
		r.StyleCols = append(r.StyleCols, sc[i])
	}
	first := "Marked"
	if r.V4Plus {
		first = "Layer"
	}
	ec := []string{first, "Start", "End", "Style", "Name", "MarginL", "MarginR", "MarginV", "Effect"}
	// optional columns may be dropped
	var kept []string
	for _, c := range ec {
		if c == "Start" || c == "End" || rapid.IntRange(0, 5).Draw(t, "keep"+c) > 0 {
			kept = append(kept, c)
		}
	}
	p = genPerm(t, len(kept), "ecperm")
	for _, i := range p {
		r.EventCols = append(r.EventCols, kept[i])
	}
	r.EventCols = append(r.EventCols, "Text")
	return r
}

func sortedKeys(m map[string]bool) []string {
	var ks []string
	for k, v := range m {
		if v {
			ks = append(ks, k)
		}
	}
	sort.Strings(ks)
	return ks
}

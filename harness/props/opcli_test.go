package props

import (
	"bytes"
	"fmt"
	"os"
	"os/exec"
	"path/filepath"
	"strings"
	"testing"
	"time"

	astisub "github.com/asticode/go-astisub"
	"pgregory.net/rapid"
)

// The command-line sub-commands are part of the operation properties (C09-C13, C15): the same step through the built
// CLI and through the library (Open, operation, Write) must produce the same file, or fail together.

type opCLICase struct {
	Sub   string    `json:"sub"` // sync fragment unfragment merge optimize apply-linear-correction
	Cues  []cueSpec `json:"cues"`
	Other []cueSpec `json:"other,omitempty"`
	D     int64     `json:"d_ns,omitempty"`
	A1    int64     `json:"a1,omitempty"`
	D1    int64     `json:"d1,omitempty"`
	A2    int64     `json:"a2,omitempty"`
	D2    int64     `json:"d2,omitempty"`
	Ext   string    `json:"ext"` // srt vtt ttml
	// Defs: the input files are TTML documents carrying style and region definitions (referenced or not, with an
	// identifier that both files define)
	Defs bool `json:"defs,omitempty"`
	// InVTT: the input files are WebVTT documents with an X-TIMESTAMP-MAP header (a segment of a stream)
	InVTT bool `json:"in_vtt,omitempty"`
	// InSTL: the input files are EBU STL files whose programme starts at 10:00:00:00 (written by the library from the cues)
	InSTL bool `json:"in_stl,omitempty"`
	// Extra: the command line also carries flags that belong to other sub-commands (they have no effect on this one)
	Extra bool `json:"extra,omitempty"`
	// Rev: the first input's file name sorts after the second's (zz-in.* and aa-other.*): the order of the -i flags
	// decides which document is the receiver, not the names
	Rev bool `json:"rev,omitempty"`
	// Styled: the SubRip inputs carry inline markup (italics, underline, a font colour) on every line
	Styled bool `json:"styled,omitempty"`
}

// ttmlWithDefs renders cues as a TTML document with two styles and a region; tag tells the two files apart.
func ttmlWithDefs(cues []cueSpec, tag string) []byte {
	s := astisub.NewSubtitles()
	col := map[string]string{"A": "red", "B": "lime"}[tag]
	s.Styles["s1"] = &astisub.Style{ID: "s1", InlineStyle: &astisub.StyleAttributes{TTMLColor: &col}}
	s.Styles["only"+tag] = &astisub.Style{ID: "only" + tag, InlineStyle: &astisub.StyleAttributes{TTMLColor: &col}, Style: s.Styles["s1"]}
	org := "10% 80%"
	s.Regions["r"+tag] = &astisub.Region{ID: "r" + tag, InlineStyle: &astisub.StyleAttributes{TTMLOrigin: &org}}
	for i, c := range cues {
		it := &astisub.Item{StartAt: time.Duration(c.S), EndAt: time.Duration(c.E)}
		for _, l := range strings.Split(textKey(c.T), "|") {
			it.Lines = append(it.Lines, astisub.Line{Items: []astisub.LineItem{{Text: l}}})
		}
		if i == 0 {
			it.Style = s.Styles["s1"]
		}
		s.Items = append(s.Items, it)
	}
	var buf bytes.Buffer
	if len(s.Items) == 0 || s.WriteToTTML(&buf) != nil {
		// no cue: the writer refuses such a list, the document is written by hand (same definitions)
		return []byte(`<tt xmlns="http://www.w3.org/ns/ttml" xmlns:tts="http://www.w3.org/ns/ttml#styling"><head><styling><style xml:id="s1" tts:color="` + col + `"/><style xml:id="only` + tag + `" style="s1" tts:color="` + col + `"/></styling><layout><region xml:id="r` + tag + `" tts:origin="10% 80%"/></layout></head><body><div></div></body></tt>`)
	}
	return buf.Bytes()
}

func init() { register("opcli", checkOpCLI) }

// srtStyledOf is srtOf with inline markup on every line.
func srtStyledOf(cues []cueSpec) []byte {
	var sb strings.Builder
	f := func(ns int64) string {
		ms := ns / nsMs
		return fmt.Sprintf("%02d:%02d:%02d,%03d", ms/3600000, ms/60000%60, ms/1000%60, ms%1000)
	}
	for i, c := range cues {
		fmt.Fprintf(&sb, "%d\n%s --> %s\n", i+1, f(c.S), f(c.E))
		for j, l := range strings.Split(textKey(c.T), "|") {
			switch (i + j) % 3 {
			case 0:
				fmt.Fprintf(&sb, "<i>%s</i> x\n", l)
			case 1:
				fmt.Fprintf(&sb, "<font color=\"#ff0000\">%s</font> <u>y</u>\n", l)
			default:
				fmt.Fprintf(&sb, "<b>%s</b>\n", l)
			}
		}
		sb.WriteString("\n")
	}
	return []byte(sb.String())
}

// fixedCLICases are the steps every run takes whatever the random cases are: file names whose order differs from the
// order of the -i flags, styled inputs written to every kind of output, shifts by exactly one day in both directions.
func fixedCLICases(sub string) []opCLICase {
	h := int64(time.Hour)
	two := []cueSpec{{S: 0, E: 1000 * nsMs, T: "a"}, {S: 1000 * nsMs, E: 2000 * nsMs, T: "a|b"}, {S: 1500 * nsMs, E: 2500 * nsMs, T: "b"}}
	var out []opCLICase
	switch sub {
	case "merge":
		oth := []cueSpec{{S: 0, E: 500 * nsMs, T: "c"}, {S: 1000 * nsMs, E: 1200 * nsMs, T: "c"}, {S: 1500 * nsMs, E: 2500 * nsMs, T: "a"}}
		for _, ext := range []string{"srt", "ttml", "vtt"} {
			out = append(out, opCLICase{Sub: sub, Cues: two, Other: oth, Ext: ext, Rev: true})
			out = append(out, opCLICase{Sub: sub, Cues: two, Other: oth, Ext: ext, Rev: true, Styled: true})
		}
		out = append(out, opCLICase{Sub: sub, Cues: two, Other: oth, Ext: "ttml", Rev: true, Defs: true})
		out = append(out, opCLICase{Sub: sub, Cues: nil, Other: oth, Ext: "ttml", Rev: true, Defs: true})
		out = append(out, opCLICase{Sub: sub, Cues: two, Other: oth, Ext: "srt", Rev: true, InSTL: true})
	case "sync":
		long := []cueSpec{{S: 0, E: 1000 * nsMs, T: "a"}, {S: 25 * h, E: 25*h + 1000*nsMs, T: "b"}, {S: 49 * h, E: 49*h + 1, T: "a|b"}}
		for _, d := range []int64{24 * h, -24 * h, 48 * h, -48 * h, 24*h + nsMs, 24*h - nsMs, -24*h - nsMs, -24*h + nsMs, 100 * h, -100 * h} {
			for _, ext := range []string{"srt", "vtt", "ttml"} {
				out = append(out, opCLICase{Sub: sub, Cues: long, D: d, Ext: ext})
			}
		}
		out = append(out, opCLICase{Sub: sub, Cues: two, D: 24 * h, Ext: "srt", Styled: true})
	default:
		for _, ext := range []string{"srt", "stl", "vtt", "ttml", "ssa", "SRT", "STL"} {
			c := opCLICase{Sub: sub, Cues: two, Ext: ext, Styled: true, D: 700 * nsMs, A1: 1000 * nsMs, D1: 2000 * nsMs, A2: 3000 * nsMs, D2: 5000 * nsMs}
			out = append(out, c)
			c.Defs = true
			out = append(out, c)
		}
	}
	return out
}

func srtOf(cues []cueSpec) []byte {
	var sb strings.Builder
	f := func(ns int64) string {
		ms := ns / nsMs
		return fmt.Sprintf("%02d:%02d:%02d,%03d", ms/3600000, ms/60000%60, ms/1000%60, ms%1000)
	}
	for i, c := range cues {
		fmt.Fprintf(&sb, "%d\n%s --> %s\n%s\n\n", i+1, f(c.S), f(c.E), strings.ReplaceAll(textKey(c.T), "|", "\n"))
	}
	return []byte(sb.String())
}

func checkOpCLI(c opCLICase) string {
	cli := os.Getenv("VERIF_CLI")
	if cli == "" {
		return ""
	}
	dir, err := os.MkdirTemp("", "opcli")
	if err != nil {
		return ""
	}
	defer os.RemoveAll(dir)
	in, other := filepath.Join(dir, "in.srt"), filepath.Join(dir, "other.srt")
	inDoc, otherDoc := srtOf(c.Cues), srtOf(c.Other)
	if c.Styled {
		inDoc, otherDoc = srtStyledOf(c.Cues), srtStyledOf(c.Other)
	}
	if c.Defs {
		in, other = filepath.Join(dir, "in.ttml"), filepath.Join(dir, "other.ttml")
		inDoc, otherDoc = ttmlWithDefs(c.Cues, "A"), ttmlWithDefs(c.Other, "B")
	}
	if c.InVTT && !c.Defs {
		vttOf := func(cues []cueSpec) []byte {
			b := bytes.ReplaceAll(srtOf(cues), []byte(","), []byte("."))
			return append([]byte("WEBVTT\nX-TIMESTAMP-MAP=LOCAL:00:00:00.000,MPEGTS:900000\n\n"), b...)
		}
		in, other = filepath.Join(dir, "in.vtt"), filepath.Join(dir, "other.vtt")
		inDoc, otherDoc = vttOf(c.Cues), vttOf(c.Other)
	}
	if c.InSTL && !c.Defs && !c.InVTT {
		stlOf := func(cues []cueSpec) []byte {
			s := astisub.NewSubtitles()
			s.Metadata = &astisub.Metadata{Framerate: 25, STLDisplayStandardCode: "0", STLTimecodeStartOfProgramme: 10 * time.Hour}
			for _, cu := range cues {
				it := &astisub.Item{StartAt: time.Duration(cu.S), EndAt: time.Duration(cu.E)}
				for _, l := range strings.Split(textKey(cu.T), "|") {
					it.Lines = append(it.Lines, astisub.Line{Items: []astisub.LineItem{{Text: l}}})
				}
				s.Items = append(s.Items, it)
			}
			var buf bytes.Buffer
			if len(s.Items) == 0 || s.WriteToSTL(&buf) != nil {
				return nil
			}
			return buf.Bytes()
		}
		if a, b := stlOf(c.Cues), stlOf(c.Other); a != nil && (b != nil || c.Sub != "merge") {
			in, other = filepath.Join(dir, "in.stl"), filepath.Join(dir, "other.stl")
			inDoc, otherDoc = a, b
		}
	}
	if c.Rev {
		in, other = filepath.Join(dir, "zz-"+filepath.Base(in)), filepath.Join(dir, "aa-"+filepath.Base(other))
	}
	if os.WriteFile(in, inDoc, 0o644) != nil || os.WriteFile(other, otherDoc, 0o644) != nil {
		return ""
	}
	dur := func(ns int64) string { return time.Duration(ns).String() }
	args := []string{c.Sub, "-i", in}
	var apply func(s, o *astisub.Subtitles)
	switch c.Sub {
	case "sync":
		args = append(args, "-s="+dur(c.D))
		apply = func(s, _ *astisub.Subtitles) { s.Add(time.Duration(c.D)) }
	case "fragment":
		args = append(args, "-f="+dur(c.D))
		apply = func(s, _ *astisub.Subtitles) { s.Fragment(time.Duration(c.D)) }
	case "unfragment":
		apply = func(s, _ *astisub.Subtitles) { s.Unfragment() }
	case "merge":
		args = append(args, "-i", other)
		apply = func(s, o *astisub.Subtitles) { s.Merge(o) }
	case "optimize":
		apply = func(s, _ *astisub.Subtitles) { s.Optimize() }
	case "apply-linear-correction":
		args = append(args, "-a1="+dur(c.A1), "-d1="+dur(c.D1), "-a2="+dur(c.A2), "-d2="+dur(c.D2))
		apply = func(s, _ *astisub.Subtitles) {
			s.ApplyLinearCorrection(time.Duration(c.A1), time.Duration(c.D1), time.Duration(c.A2), time.Duration(c.D2))
		}
	default:
		return "unknown sub-command " + c.Sub
	}
	if c.Extra {
		switch c.Sub {
		case "sync":
			args = append(args, "-f=2s", "-p=888")
		case "fragment":
			args = append(args, "-s=500ms", "-a1=1s", "-d1=2s")
		default:
			args = append(args, "-s=500ms", "-f=2s", "-p=100")
		}
	}
	libOut, cliOut := filepath.Join(dir, "lib."+c.Ext), filepath.Join(dir, "cli."+c.Ext)
	// library path
	var libErr error
	s, err := astisub.OpenFile(in)
	if err != nil {
		libErr = err
	} else {
		var o *astisub.Subtitles
		if c.Sub == "merge" {
			if o, err = astisub.OpenFile(other); err != nil {
				libErr = err
			}
		}
		if libErr == nil {
			apply(s, o)
			libErr = s.Write(libOut)
		}
	}
	out, cliErr := exec.Command(cli, append(args, "-o", cliOut)...).CombinedOutput()
	ctx := fmt.Sprintf("astisub %s (in: %s%s)", strings.Join(args[:1], " ")+" "+strings.Join(args[3:], " "), fmtSpecs(c.Cues), map[bool]string{true: " other: " + fmtSpecs(c.Other), false: ""}[c.Sub == "merge"])
	ctx = strings.ReplaceAll(ctx, dir+string(filepath.Separator), "")
	if (libErr == nil) != (cliErr == nil) {
		return fmt.Sprintf("%s: the command-line tool %s while the same step through the library %s\n%s", ctx,
			map[bool]string{true: "succeeded", false: "failed (" + fmt.Sprint(cliErr) + ")"}[cliErr == nil],
			map[bool]string{true: "succeeded", false: "failed (" + fmt.Sprint(libErr) + ")"}[libErr == nil], clip(string(out), 300))
	}
	if libErr != nil {
		return ""
	}
	a, _ := os.ReadFile(cliOut)
	b, _ := os.ReadFile(libOut)
	if !bytes.Equal(a, b) {
		return fmt.Sprintf("%s: the file written by the command-line tool differs from the one written through the library\n--- CLI ---\n%s\n--- library ---\n%s", ctx, clip(string(a), 500), clip(string(b), 500))
	}
	return ""
}

// cliCases runs a few generated steps of one sub-command through the CLI (part of the property's check).
func cliCases(t *testing.T, pid, sub string) {
	if os.Getenv("VERIF_CLI") == "" {
		return
	}
	if cfgShard == 0 {
		for _, c := range fixedCLICases(sub) {
			ev.Case(true, fmt.Sprintf("%v", c), "cli-"+sub+"-fixed")
			verdict(t, pid, "opcli", c, checkOpCLI)
		}
	}
	rapidCheck(t, pid+"/cli-"+sub, tier(24, 600), func(rt *rapid.T) {
		maxT := rapid.SampledFrom([]int64{20 * nsMs, 5000 * nsMs, 3600 * 1000 * nsMs}).Draw(rt, "range")
		ms := func(cs []cueSpec) []cueSpec {
			for i := range cs {
				cs[i].S, cs[i].E = cs[i].S/nsMs*nsMs, cs[i].E/nsMs*nsMs
			}
			return cs
		}
		c := opCLICase{Sub: sub, Cues: ms(genCues(rt, 1, 6, maxT, []string{"a", "b", "a|b"})), Ext: rapid.SampledFrom([]string{"srt", "vtt", "ttml", "SRT", "Ttml", "VTT", "ssa", "ass"}).Draw(rt, "ext")}
		c.InVTT = rapid.IntRange(0, 3).Draw(rt, "invtt") == 0
		c.InSTL = rapid.IntRange(0, 3).Draw(rt, "instl") == 0
		var maxEnd int64 = nsMs
		for _, cu := range c.Cues {
			if cu.E > maxEnd {
				maxEnd = cu.E
			}
		}
		switch sub {
		case "sync":
			c.D = rapid.Int64Range(-maxEnd/nsMs-1, 3600000).Draw(rt, "d") * nsMs
			if c.D == 0 {
				c.D = -nsMs // the tool takes a zero flag for a missing one
			}
		case "fragment":
			c.D = rapid.Int64Range(maxEnd/nsMs/200+1, maxEnd/nsMs+2).Draw(rt, "f") * nsMs
		case "merge":
			c.Other = ms(genCues(rt, 0, 5, maxT, []string{"a", "c"}))
		case "apply-linear-correction":
			// the tool takes a zero flag for a missing one: all four instants positive, a1 != a2 (either order)
			c.A1 = rapid.Int64Range(1, 3600000).Draw(rt, "a1") * nsMs
			c.A2 = rapid.Int64Range(1, 7200000).Draw(rt, "a2") * nsMs
			if c.A2 == c.A1 {
				c.A2 += nsMs
			}
			c.D1 = rapid.Int64Range(1, 3600000).Draw(rt, "d1") * nsMs
			c.D2 = c.D1 + (c.A2-c.A1)*rapid.Int64Range(500, 2000).Draw(rt, "slope")/1000
			if c.D2 <= 0 {
				c.D2 = nsMs
			}
		}
		if rapid.IntRange(0, 2).Draw(rt, "defs") == 0 {
			c.Defs, c.Ext = true, rapid.SampledFrom([]string{"ttml", "TTML", "Ttml"}).Draw(rt, "defsext")
		}
		if sub == "merge" && c.Defs && rapid.IntRange(0, 2).Draw(rt, "nocues") == 0 {
			// a first input that carries definitions and no cue
			c.Cues = nil
		}
		c.Extra = rapid.IntRange(0, 3).Draw(rt, "extraflags") == 0
		if sub == "fragment" || sub == "unfragment" {
			// precondition of both operations in their properties: start-ordered lists for fragment; any for unfragment
			sortCues(c.Cues)
		}
		c.Rev = rapid.Bool().Draw(rt, "revnames")
		c.Styled = rapid.IntRange(0, 2).Draw(rt, "styledinputs") == 0
		ev.Case(true, fmt.Sprintf("%v", c), "cli-"+sub)
		ev.Sample("cli-"+sub, c)
		verdict(rt, pid, "opcli", c, checkOpCLI)
	})
}

func sortCues(cs []cueSpec) {
	for i := 1; i < len(cs); i++ {
		for j := i; j > 0 && cs[j].S < cs[j-1].S; j-- {
			cs[j], cs[j-1] = cs[j-1], cs[j]
		}
	}
}

// cliConvCase: a document converted by the command-line tool and by the library (Open + Write) must give the same file.
type cliConvCase struct {
	Ext    string `json:"ext"`
	Doc    []byte `json:"doc"`
	DstExt string `json:"dst_ext"`
}

func init() { register("cliconv", checkCLIConv) }

func checkCLIConv(c cliConvCase) string {
	cli := os.Getenv("VERIF_CLI")
	if cli == "" {
		return ""
	}
	dir, err := os.MkdirTemp("", "cliconv")
	if err != nil {
		return ""
	}
	defer os.RemoveAll(dir)
	in := filepath.Join(dir, "in."+c.Ext)
	if os.WriteFile(in, c.Doc, 0o644) != nil {
		return ""
	}
	libOut, cliOut := filepath.Join(dir, "lib."+c.DstExt), filepath.Join(dir, "cli."+c.DstExt)
	var libErr error
	if s, err := astisub.OpenFile(in); err != nil {
		libErr = err
	} else {
		libErr = s.Write(libOut)
	}
	out, cliErr := exec.Command(cli, "convert", "-i", in, "-o", cliOut).CombinedOutput()
	ctx := fmt.Sprintf("astisub convert -i in.%s -o out.%s", c.Ext, c.DstExt)
	if (libErr == nil) != (cliErr == nil) {
		return fmt.Sprintf("%s: the command-line tool %s while Open + Write through the library %s\n%s\n--- document ---\n%s", ctx,
			map[bool]string{true: "succeeded", false: "failed (" + fmt.Sprint(cliErr) + ")"}[cliErr == nil],
			map[bool]string{true: "succeeded", false: "failed (" + strings.ReplaceAll(fmt.Sprint(libErr), dir, "") + ")"}[libErr == nil], clip(strings.ReplaceAll(string(out), dir, ""), 300), clip(string(c.Doc), 600))
	}
	if libErr != nil {
		return ""
	}
	a, _ := os.ReadFile(cliOut)
	b, _ := os.ReadFile(libOut)
	if strings.EqualFold(c.DstExt, "stl") && len(a) >= 1024 && len(b) >= 1024 {
		// creation / revision dates come from the clock of each process
		a, b = append([]byte(nil), a...), append([]byte(nil), b...)
		copy(a[224:236], "------------")
		copy(b[224:236], "------------")
	}
	if !bytes.Equal(a, b) {
		return fmt.Sprintf("%s: the file written by the command-line tool differs from the one Open + Write give through the library\n--- CLI ---\n%s\n--- library ---\n%s", ctx, clip(string(a), 600), clip(string(b), 600))
	}
	return ""
}

// cliConvertCases: generated documents of one format through the tool's convert sub-command, to the same format and to others.
func cliConvertCases(t *testing.T, pid, format string) {
	if os.Getenv("VERIF_CLI") == "" {
		return
	}
	exts := map[string][]string{"srt": {"srt", "SRT"}, "vtt": {"vtt"}, "ssa": {"ssa", "ass"}, "ttml": {"ttml"}, "stl": {"stl", "STL"}}[format]
	rapidCheck(t, pid+"/cli-convert", tier(30, 600), func(rt *rapid.T) {
		c := cliConvCase{Ext: rapid.SampledFrom(exts).Draw(rt, "ext"), Doc: docGen(format).Draw(rt, "doc")}
		c.DstExt = rapid.SampledFrom([]string{c.Ext, c.Ext, "srt", "vtt", "ttml", "ssa", "stl"}).Draw(rt, "dst")
		ev.Case(len(c.Doc) > 0, string(c.Doc)+c.DstExt, "cli-convert", "cli-convert-to-"+strings.ToLower(c.DstExt))
		if len(c.Doc) < 400 && format != "stl" {
			ev.Sample("cli-convert", map[string]any{"ext": c.Ext, "dst": c.DstExt, "document": string(c.Doc)})
		}
		verdict(rt, pid, "cliconv", c, checkCLIConv)
	})
}

package props

import (
	"fmt"
	"math/big"
	"testing"
	"time"

	"pgregory.net/rapid"
)

// C15 - linear correction is the affine map through (a1,d1),(a2,d2), to within 1 us,
// checked against exact rational arithmetic.

type c15Case struct {
	Cues []cueSpec `json:"cues"`
	A1   int64     `json:"a1"`
	D1   int64     `json:"d1"`
	A2   int64     `json:"a2"`
	D2   int64     `json:"d2"`
}

func init() { register("c15", checkC15) }

const c15Tol = 1000 // ns

// exactMap returns d1 + (t-a1)(d2-d1)/(a2-a1) as a rational number of nanoseconds.
func exactMap(c c15Case, t int64) *big.Rat {
	num := new(big.Int).Mul(big.NewInt(t-c.A1), big.NewInt(c.D2-c.D1))
	r := new(big.Rat).SetFrac(num, big.NewInt(c.A2-c.A1))
	return r.Add(r, new(big.Rat).SetInt64(c.D1))
}

func ratAbsDiffLE(got int64, want *big.Rat, tol int64) bool {
	d := new(big.Rat).Sub(new(big.Rat).SetInt64(got), want)
	d.Abs(d)
	return d.Cmp(new(big.Rat).SetInt64(tol)) <= 0
}

func checkC15(c c15Case) string {
	if c.A1 == c.A2 {
		return ""
	}
	// reference points are probed through two extra cues so that "a1 lands on d1, a2 on d2" is observed directly
	cues := append(append([]cueSpec(nil), c.Cues...), cueSpec{S: c.A1, E: c.A2, T: "ref"})
	if c.A2 < c.A1 {
		cues[len(cues)-1] = cueSpec{S: c.A2, E: c.A1, T: "ref"}
	}
	b := buildList(cues)
	b.sub.ApplyLinearCorrection(time.Duration(c.A1), time.Duration(c.D1), time.Duration(c.A2), time.Duration(c.D2))
	if m := b.metaDiff(); m != "" {
		return m
	}
	if sampledForInterference(c.Cues) {
		if m := interference(b.sub); m != "" {
			return m
		}
	}
	got := b.sub.Items
	if len(got) != len(cues) {
		return fmt.Sprintf("number of cues changed: %d -> %d", len(cues), len(got))
	}
	slope := new(big.Rat).SetFrac(big.NewInt(c.D2-c.D1), big.NewInt(c.A2-c.A1))
	for i, cu := range cues {
		it := got[i]
		if it != b.items[i] {
			return fmt.Sprintf("list order / identity changed at position %d", i)
		}
		if m := contentDiff(it, b.snaps[i]); m != "" {
			return fmt.Sprintf("cue #%d: %s", i, m)
		}
		ws, we := exactMap(c, cu.S), exactMap(c, cu.E)
		if !ratAbsDiffLE(int64(it.StartAt), ws, c15Tol) {
			return fmt.Sprintf("start %d mapped to %d, exact value %s (more than 1 us off); quadruple a1=%d d1=%d a2=%d d2=%d", cu.S, int64(it.StartAt), ws.FloatString(3), c.A1, c.D1, c.A2, c.D2)
		}
		if !ratAbsDiffLE(int64(it.EndAt), we, c15Tol) {
			return fmt.Sprintf("end %d mapped to %d, exact value %s (more than 1 us off); quadruple a1=%d d1=%d a2=%d d2=%d", cu.E, int64(it.EndAt), we.FloatString(3), c.A1, c.D1, c.A2, c.D2)
		}
		// length scaled by the slope (2 us: two boundaries)
		wl := new(big.Rat).Mul(slope, new(big.Rat).SetInt64(cu.E-cu.S))
		if !ratAbsDiffLE(int64(it.EndAt-it.StartAt), wl, 2*c15Tol) {
			return fmt.Sprintf("length %d became %d, slope*length = %s", cu.E-cu.S, int64(it.EndAt-it.StartAt), wl.FloatString(3))
		}
	}
	// order of boundaries preserved (non-strictly) for positive slope
	if slope.Sign() > 0 {
		type bd struct{ in, out int64 }
		var bs []bd
		for i, cu := range cues {
			bs = append(bs, bd{cu.S, int64(got[i].StartAt)}, bd{cu.E, int64(got[i].EndAt)})
		}
		for i := range bs {
			for j := range bs {
				if bs[i].in < bs[j].in && bs[i].out > bs[j].out {
					return fmt.Sprintf("boundary order inverted: %d < %d but mapped to %d > %d", bs[i].in, bs[j].in, bs[i].out, bs[j].out)
				}
				if bs[i].in == bs[j].in && bs[i].out != bs[j].out {
					return fmt.Sprintf("equal boundaries %d mapped to different instants %d and %d", bs[i].in, bs[i].out, bs[j].out)
				}
			}
		}
	}
	return ""
}

func TestC15(t *testing.T) {
	runWitnesses(t, "C15")
	cliCases(t, "C15", "apply-linear-correction")
	const day = 24 * nsHour
	ratios := [][2]int64{{25000, 23976}, {23976, 25000}, {3000, 2997}, {2997, 3000}, {24000, 23976}, {1, 2}, {2, 1}, {1, 1}, {1001, 1000}, {24, 25}, {25, 24}}
	rapidCheck(t, "C15/random", tier(40000, 16000000), func(rt *rapid.T) {
		cues := genCues(rt, 0, 6, day, opTextsWide)
		a1 := genInstant(rt, day, "a1")
		a2 := genInstant(rt, day, "a2")
		if a1 == a2 {
			a2 = a1 + 1 + rapid.Int64Range(0, 1000).Draw(rt, "bump")
		}
		d1 := genInstant(rt, day, "d1")
		var d2 int64
		var ls []string
		switch rapid.IntRange(0, 2).Draw(rt, "sk") {
		case 0: // named ratio (and immediate neighbours)
			r := rapid.SampledFrom(ratios).Draw(rt, "ratio")
			num := new(big.Int).Mul(big.NewInt(a2-a1), big.NewInt(r[0]))
			num.Div(num, big.NewInt(r[1]))
			d2 = d1 + num.Int64() + rapid.Int64Range(-2, 2).Draw(rt, "nb")
			ls = append(ls, fmt.Sprintf("ratio-%d/%d", r[0], r[1]))
		default: // slope uniform in [0.5,2]
			k := rapid.Int64Range(500000, 2000000).Draw(rt, "slope_ppm")
			num := new(big.Int).Mul(big.NewInt(a2-a1), big.NewInt(k))
			num.Div(num, big.NewInt(1000000))
			d2 = d1 + num.Int64()
			ls = append(ls, "slope-uniform")
		}
		c := c15Case{Cues: cues, A1: a1, D1: d1, A2: a2, D2: d2}
		if a2 < a1 {
			ls = append(ls, "a2-before-a1")
		}
		nt := len(cues) > 0 && d2 != d1
		ev.Case(nt, fmt.Sprintf("%v", c), ls...)
		if nt {
			ev.Sample("random", c)
		}
		verdict(rt, "C15", "c15", c, checkC15)
	})
}

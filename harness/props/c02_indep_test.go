package props

import (
	"fmt"
	"regexp"
	"strconv"
	"strings"
)

// Independent WebVTT decoder for the dialect the library writes and documents
// (block parser + cue-text tokenizer written from the WebVTT cue text grammar).
// It also checks that every region reference follows its definition in the file.

var (
	vttTimingRe = regexp.MustCompile(`^((?:\d{2,}:)?\d{2}:\d{2}\.\d{3})[ \t]+-->[ \t]+((?:\d{2,}:)?\d{2}:\d{2}\.\d{3})(.*)$`)
	vttTSRe     = regexp.MustCompile(`^(?:\d{2,}:)?\d{2}:\d{2}\.\d{3}$`)
)

func vttMs(s string) (int64, error) {
	parts := strings.Split(s, ":")
	var h, m int64
	var rest string
	switch len(parts) {
	case 2:
		m, _ = strconv.ParseInt(parts[0], 10, 64)
		rest = parts[1]
	case 3:
		h, _ = strconv.ParseInt(parts[0], 10, 64)
		m, _ = strconv.ParseInt(parts[1], 10, 64)
		rest = parts[2]
	default:
		return 0, fmt.Errorf("bad timestamp %q", s)
	}
	sf := strings.Split(rest, ".")
	if len(sf) != 2 || len(sf[0]) != 2 || len(sf[1]) != 3 {
		return 0, fmt.Errorf("bad timestamp %q", s)
	}
	sec, _ := strconv.ParseInt(sf[0], 10, 64)
	f, _ := strconv.ParseInt(sf[1], 10, 64)
	if m > 59 || sec > 59 {
		return 0, fmt.Errorf("minutes/seconds out of range in %q", s)
	}
	return ((h*60+m)*60+sec)*1000 + f, nil
}

var vttEntities = []struct{ ent, rep string }{{"&amp;", "&"}, {"&lt;", "<"}, {"&gt;", ">"}, {"&nbsp;", " "}, {"&lrm;", "‎"}, {"&rlm;", "‏"}}

// decodeVTTCueLine tokenizes one line of cue text; stack persists across the lines of a cue.
func decodeVTTCueLine(line string, stack *[]vttTag) (vttLine, error) {
	out := vttLine{}
	var cur strings.Builder
	var pendingTS int64
	flush := func() {
		if cur.Len() > 0 {
			r := vttRun{Text: cur.String(), StartAt: pendingTS}
			if len(*stack) > 0 {
				r.Tags = append([]vttTag(nil), (*stack)...)
			}
			out.Runs = append(out.Runs, r)
			cur.Reset()
			pendingTS = 0
		}
	}
	for i := 0; i < len(line); {
		c := line[i]
		if c == '<' {
			end := strings.IndexByte(line[i:], '>')
			if end < 0 {
				return out, fmt.Errorf("unterminated tag in %q", line)
			}
			inner := line[i+1 : i+end]
			i += end + 1
			switch {
			case vttTSRe.MatchString(inner):
				flush()
				ms, err := vttMs(inner)
				if err != nil {
					return out, err
				}
				pendingTS = ms
			case strings.HasPrefix(inner, "/"):
				flush()
				name := strings.TrimSpace(inner[1:])
				if name == "v" {
					continue
				}
				st := *stack
				if len(st) == 0 || st[len(st)-1].Name != name {
					return out, fmt.Errorf("end tag </%s> does not match the open tag stack %+v in %q", name, st, line)
				}
				*stack = st[:len(st)-1]
			default:
				flush()
				head, annot := inner, ""
				if sp := strings.IndexAny(inner, " \t"); sp >= 0 {
					head, annot = inner[:sp], strings.TrimSpace(inner[sp+1:])
				}
				parts := strings.Split(head, ".")
				tg := vttTag{Name: parts[0], Annotation: annot}
				if len(parts) > 1 {
					tg.Classes = parts[1:]
				}
				if tg.Name == "" {
					return out, fmt.Errorf("empty tag name in %q", line)
				}
				if tg.Name == "v" {
					if out.Voice == "" {
						out.Voice = annot
					}
					continue
				}
				*stack = append(*stack, tg)
			}
			continue
		}
		if c == '&' {
			matched := false
			for _, e := range vttEntities {
				if strings.HasPrefix(line[i:], e.ent) {
					cur.WriteString(e.rep)
					i += len(e.ent)
					matched = true
					break
				}
			}
			if matched {
				continue
			}
		}
		cur.WriteByte(c)
		i++
	}
	flush()
	return out, nil
}

func decodeVTTIndep(b []byte) (vttDoc, error) {
	d := vttDoc{}
	s := strings.TrimPrefix(string(b), "\xef\xbb\xbf")
	lines := splitLinesAny([]byte(s))
	if len(lines) == 0 || !(lines[0] == "WEBVTT" || strings.HasPrefix(lines[0], "WEBVTT ") || strings.HasPrefix(lines[0], "WEBVTT\t")) {
		return d, fmt.Errorf("missing WEBVTT signature")
	}
	i := 1
	// header lines until a blank line
	for i < len(lines) && lines[i] != "" {
		if strings.HasPrefix(lines[i], "X-TIMESTAMP-MAP=") {
			m := &vttTSMap{}
			for _, part := range strings.Split(strings.TrimPrefix(lines[i], "X-TIMESTAMP-MAP="), ",") {
				kv := strings.SplitN(part, ":", 2)
				if len(kv) != 2 {
					return d, fmt.Errorf("bad timestamp map %q", lines[i])
				}
				switch kv[0] {
				case "LOCAL":
					ms, err := vttMs(kv[1])
					if err != nil {
						return d, err
					}
					m.LocalMs = ms
				case "MPEGTS":
					v, err := strconv.ParseInt(kv[1], 10, 64)
					if err != nil {
						return d, err
					}
					m.MpegTS = v
				}
			}
			d.TSMap = m
		}
		i++
	}
	defined := map[string]bool{}
	var comments []string
	for i < len(lines) {
		if lines[i] == "" {
			i++
			continue
		}
		// collect the block
		start := i
		for i < len(lines) && lines[i] != "" {
			i++
		}
		blk := lines[start:i]
		switch {
		case blk[0] == "STYLE":
			// CSS may contain blank lines only inside braces; the writer never emits them
			if len(blk) < 2 {
				return d, fmt.Errorf("empty STYLE block")
			}
			d.Styles = append(d.Styles, append([]string(nil), blk[1:]...))
		case strings.HasPrefix(blk[0], "NOTE ") || blk[0] == "NOTE":
			comments = append(comments, strings.TrimPrefix(strings.TrimPrefix(blk[0], "NOTE"), " "))
			comments = append(comments, blk[1:]...)
		case strings.HasPrefix(blk[0], "Region: "):
			for _, l := range blk {
				if !strings.HasPrefix(l, "Region: ") {
					return d, fmt.Errorf("unexpected line %q in region block", l)
				}
				rg := vttRegion{}
				for _, kv := range strings.Fields(strings.TrimPrefix(l, "Region: ")) {
					p := strings.SplitN(kv, "=", 2)
					if len(p) != 2 {
						return d, fmt.Errorf("bad region setting %q", kv)
					}
					switch p[0] {
					case "id":
						rg.ID = p[1]
					case "lines":
						n, err := strconv.Atoi(p[1])
						if err != nil {
							return d, err
						}
						rg.Lines = n
					case "regionanchor":
						rg.RegionAnchor = p[1]
					case "scroll":
						rg.Scroll = p[1]
					case "viewportanchor":
						rg.ViewportAnchor = p[1]
					case "width":
						rg.Width = p[1]
					default:
						return d, fmt.Errorf("unknown region setting %q", kv)
					}
				}
				if rg.ID == "" {
					return d, fmt.Errorf("region without id: %q", l)
				}
				d.Regions = append(d.Regions, rg)
				defined[rg.ID] = true
			}
		default:
			// cue block: optional identifier, timing line, text lines
			c := vttCue{Comments: comments}
			comments = nil
			k := 0
			if !strings.Contains(blk[0], "-->") {
				id, err := strconv.Atoi(blk[0])
				if err != nil {
					return d, fmt.Errorf("cue identifier %q is not numeric", blk[0])
				}
				c.ID = id
				k = 1
			}
			if k >= len(blk) {
				return d, fmt.Errorf("cue block without timing line: %q", blk)
			}
			m := vttTimingRe.FindStringSubmatch(blk[k])
			if m == nil {
				return d, fmt.Errorf("bad timing line %q", blk[k])
			}
			var err error
			if c.Start, err = vttMs(m[1]); err != nil {
				return d, err
			}
			if c.End, err = vttMs(m[2]); err != nil {
				return d, err
			}
			for _, kv := range strings.Fields(m[3]) {
				p := strings.SplitN(kv, ":", 2)
				if len(p) != 2 {
					return d, fmt.Errorf("bad cue setting %q", kv)
				}
				switch p[0] {
				case "align":
					c.Align = p[1]
				case "line":
					c.Line = p[1]
				case "position":
					c.Position = p[1]
				case "size":
					c.Size = p[1]
				case "vertical":
					c.Vertical = p[1]
				case "region":
					if !defined[p[1]] {
						return d, fmt.Errorf("cue at %s references region %q before (or without) its definition", m[1], p[1])
					}
					c.Region = p[1]
				default:
					return d, fmt.Errorf("unknown cue setting %q", kv)
				}
			}
			var stack []vttTag
			for _, tl := range blk[k+1:] {
				ln, err := decodeVTTCueLine(tl, &stack)
				if err != nil {
					return d, err
				}
				c.Lines = append(c.Lines, ln)
			}
			d.Cues = append(d.Cues, c)
		}
	}
	return d, nil
}

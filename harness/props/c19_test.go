package props

import (
	"bytes"
	"crypto/sha256"
	"encoding/hex"
	"encoding/json"
	"fmt"
	"io"
	"os"
	"os/exec"
	"path/filepath"
	"strings"
	"sync"
	"testing"
	"time"

	astisub "github.com/asticode/go-astisub"
	"pgregory.net/rapid"
)

// C19 - writers are pure and deterministic: same list, same bytes, input untouched.

type c19Case struct {
	Spec  glSpec `json:"spec"`
	Order []int  `json:"order"` // a permutation of the five writers
	// Hashes: when set (child-process comparison), the expected output hashes of the parent process
	Hashes map[string]string `json:"hashes,omitempty"`
}

func init() { register("c19", checkC19) }

func hashOf(b []byte) string {
	h := sha256.Sum256(b)
	return hex.EncodeToString(h[:8])
}

// writeAllAt writes the list to every format with the injectable clock fixed at `now`.
// A writer that returns an error contributes "ERR:<message>" (errors must be deterministic too).
func writeAllAt(s *astisub.Subtitles, now time.Time, order []int) (out map[string][]byte, msg string) {
	restore := astisub.Now
	astisub.Now = func() time.Time { return now }
	defer func() { astisub.Now = restore }()
	out = map[string][]byte{}
	if len(order) != len(writerFormats) {
		order = []int{0, 1, 2, 3, 4}
	}
	for _, i := range order {
		f := writerFormats[i]
		var buf bytes.Buffer
		before := canon(s)
		if err := writeFormat(f, s, &buf); err != nil {
			out[f] = []byte("ERR:" + err.Error())
		} else {
			out[f] = buf.Bytes()
		}
		if after := canon(s); after != before {
			return out, fmt.Sprintf("the %s writer modified the cue list it was given\n--- before ---\n%s\n--- after ---\n%s", f, clip(before, 600), clip(after, 600))
		}
	}
	return out, ""
}

var (
	c19NowA = time.Date(2021, 3, 4, 5, 6, 7, 0, time.UTC)
	c19NowB = time.Date(1999, 12, 31, 23, 59, 59, 0, time.UTC)
)

func checkC19(c c19Case) string {
	s := c.Spec.build()
	ref, msg := writeAllAt(s, c19NowA, nil)
	if msg != "" {
		return msg
	}
	if c.Hashes != nil {
		// child process: compare with the parent's hashes
		for f, h := range c.Hashes {
			if got := hashOf(ref[f]); got != h {
				return fmt.Sprintf("%s output of the same list differs between two writes made after different earlier writes (another process, or another position in a sequence of lists): hash %s here, %s there\n--- here ---\n%s", f, got, h, clip(string(ref[f]), 900))
			}
		}
		return ""
	}
	// 0. writes whose destination breaks half way leave nothing behind for the next write
	for k, f := range writerFormats {
		_ = writeFormat(f, c.Spec.build(), &faultWriter{k: 3 + 41*k + len(c.Spec.Cues), mode: k % 3})
	}
	// 1. 50 repetitions in this process, on freshly built lists (new maps) and on the same list
	for rep := 0; rep < 50; rep++ {
		t := s
		if rep%2 == 1 {
			t = c.Spec.build()
		}
		got, msg := writeAllAt(t, c19NowA, nil)
		if msg != "" {
			return msg
		}
		for _, f := range writerFormats {
			if !bytes.Equal(got[f], ref[f]) {
				return fmt.Sprintf("%s output differs between two writes of the same list (repetition %d)\n--- first ---\n%s\n--- then ---\n%s", f, rep, clip(string(ref[f]), 900), clip(string(got[f]), 900))
			}
		}
	}
	// 1b. what the process read in between is none of a writer's business: documents of every format are read (TTML in
	// languages the library has a name for and in others, under several spellings), then the list is written again
	readAssortedDocuments()
	{
		got, msg := writeAllAt(c.Spec.build(), c19NowA, nil)
		if msg != "" {
			return msg
		}
		for _, f := range writerFormats {
			if !bytes.Equal(got[f], ref[f]) {
				return fmt.Sprintf("%s output of the same list differs once the process has read other documents in between (TTML in languages de, sv, kl, en, fr, EN, De; the repository's sample files)\n--- first ---\n%s\n--- then ---\n%s", f, clip(string(ref[f]), 900), clip(string(got[f]), 900))
			}
		}
	}
	// 2. writer order: the five files are the same in any order, and after a write that used a per-call option
	if len(c.Order) > 0 {
		_ = c.Spec.build().WriteToTTML(io.Discard, astisub.WriteToTTMLWithIndentOption([]string{"\t", "  ", ""}[c.Order[0]%3]))
	}
	got, msg := writeAllAt(c.Spec.build(), c19NowA, c.Order)
	if msg != "" {
		return msg
	}
	for _, f := range writerFormats {
		if !bytes.Equal(got[f], ref[f]) {
			return fmt.Sprintf("%s output differs when the writers run in order %v instead of each alone", f, c.Order)
		}
	}
	// 2b. the file-level helper: the file holds what the writer produces, whatever the path held before
	if len(c.Order) > 0 && c.Order[0]%2 == 0 {
		if dir, err := os.MkdirTemp("", "c19"); err == nil {
			defer os.RemoveAll(dir)
			restore := astisub.Now
			astisub.Now = func() time.Time { return c19NowA }
			fl := c.Spec.build()
			flBefore := canon(fl)
			for _, ext := range []string{"srt", "vtt", "ssa", "ass", "ttml", "stl"} {
				f := ext
				if f == "ass" {
					f = "ssa"
				}
				if bytes.HasPrefix(ref[f], []byte("ERR:")) {
					continue
				}
				p := filepath.Join(dir, "out."+ext)
				stale := append(append([]byte(nil), ref[f]...), bytes.Repeat([]byte("stale tail of an older, longer file\n"), 40)...)
				if os.WriteFile(p, stale, 0o644) != nil {
					continue
				}
				for round := 0; round < 2; round++ {
					if err := fl.Write(p); err != nil {
						astisub.Now = restore
						return fmt.Sprintf("Write(%s) failed although the %s writer accepts the list: %v", filepath.Base(p), f, err)
					}
					b, _ := os.ReadFile(p)
					if !bytes.Equal(b, ref[f]) {
						astisub.Now = restore
						return fmt.Sprintf("the file written by Write(%s) over an older, longer file (round %d, after the other extensions) holds %d bytes, the %s writer produces %d for the list written alone", filepath.Base(p), round, len(b), f, len(ref[f]))
					}
					if after := canon(fl); after != flBefore {
						astisub.Now = restore
						return fmt.Sprintf("Write(%s) modified the cue list it was given\n--- before ---\n%s\n--- after ---\n%s", filepath.Base(p), clip(flBefore, 600), clip(after, 600))
					}
				}
			}
			astisub.Now = restore
		}
	}
	// 2c. dates the metadata does not supply are those of the injectable clock
	if b := ref["stl"]; len(b) >= 1024 && !bytes.HasPrefix(b, []byte("ERR:")) && !(c.Spec.Meta.STL != nil && c.Spec.Meta.STLDates && !c.Spec.Meta.Nil) {
		if want := c19NowA.Format("060102"); string(b[224:230]) != want || string(b[230:236]) != want {
			return fmt.Sprintf("stl creation / revision dates are %q / %q, the injectable clock says %q (metadata present: %v, supplies dates: %v)", b[224:230], b[230:236], want, !c.Spec.Meta.Nil, c.Spec.Meta.STL != nil && c.Spec.Meta.STLDates)
		}
	}
	// 3. the clock: only the STL dates may depend on it, and only when the metadata does not supply them
	other, msg := writeAllAt(c.Spec.build(), c19NowB, nil)
	if msg != "" {
		return msg
	}
	// 4. the time zone the process runs in: the clock's and the metadata's dates carry their own
	loc := time.Local
	time.Local = time.FixedZone("far-west", -11*3600)
	zoned, msg := writeAllAt(c.Spec.build(), c19NowA, nil)
	time.Local = loc
	if msg != "" {
		return msg
	}
	for _, f := range writerFormats {
		if !bytes.Equal(zoned[f], ref[f]) {
			return fmt.Sprintf("%s output of the same list with the same clock differs when the process runs in another time zone (UTC-11)\n--- first ---\n%s\n--- then ---\n%s", f, clip(string(ref[f]), 900), clip(string(zoned[f]), 900))
		}
	}
	for _, f := range writerFormats {
		a, b := ref[f], other[f]
		if f == "stl" && !(c.Spec.Meta.STL != nil && c.Spec.Meta.STLDates && !c.Spec.Meta.Nil) && len(a) == len(b) && len(a) >= 1024 {
			a, b = append([]byte(nil), a...), append([]byte(nil), b...)
			copy(a[224:236], "------------")
			copy(b[224:236], "------------")
		}
		if !bytes.Equal(a, b) {
			return fmt.Sprintf("%s output depends on the clock beyond the STL creation/revision dates (metadata supplies dates: %v)", f, c.Spec.Meta.STL != nil && c.Spec.Meta.STLDates)
		}
	}
	return ""
}

// readAssortedDocuments reads documents of every format, results dropped (see step 1b of checkC19).
func readAssortedDocuments() {
	for _, lang := range []string{"de", "sv", "kl", "en", "fr", "EN", "De", "english", "klingon", "zz-ZZ", ""} {
		doc := `<tt xmlns="http://www.w3.org/ns/ttml" xml:lang="` + lang + `"><body><div><p begin="00:00:01.000" end="00:00:02.000">x</p></div></body></tt>`
		_, _ = astisub.ReadFromTTML(strings.NewReader(doc))
	}
	c19GoldenOnce.Do(func() {
		for _, f := range []string{"srt", "vtt", "ssa", "ttml", "stl"} {
			for _, g := range goldenDocs(f) {
				if len(g) <= 20000 {
					c19Golden = append(c19Golden, [2][]byte{[]byte(f), g})
				}
			}
		}
	})
	for _, g := range c19Golden {
		_, _ = readFormat(string(g[0]), bytes.NewReader(g[1]), readOpts{})
	}
}

var (
	c19GoldenOnce sync.Once
	c19Golden     [][2][]byte
)

// childHashes runs this test binary again (fresh map hash seeds) on a batch of cases.
func c19RunChild(path string, order string) error {
	cmd := exec.Command(os.Args[0], "-test.run", "^TestC19Child$", "-test.count", "1")
	cmd.Env = append(os.Environ(), "VERIF_C19_BATCH="+path, "VERIF_C19_ORDER="+order, "VERIF_FRAG=", "VERIF_REPLAY_OUT="+os.Getenv("VERIF_REPLAY_OUT"))
	out, err := cmd.CombinedOutput()
	if err != nil {
		return fmt.Errorf("%v\n%s", err, clip(string(out), 3000))
	}
	return nil
}

// TestC19Child is the body of the child process: every case of the batch must reproduce the parent's hashes.
func TestC19Child(t *testing.T) {
	path := os.Getenv("VERIF_C19_BATCH")
	if path == "" {
		t.Skip("not a child")
	}
	b, err := os.ReadFile(path)
	if err != nil {
		t.Fatal(err)
	}
	var cases []c19Case
	if err := json.Unmarshal(b, &cases); err != nil {
		t.Fatal(err)
	}
	// what a process wrote earlier must not matter: half of the children go through the batch backwards
	if os.Getenv("VERIF_C19_ORDER") == "rev" {
		// nor the time zone it runs in
		time.Local = time.FixedZone("far-east", 13*3600)
		for i, j := 0, len(cases)-1; i < j; i, j = i+1, j-1 {
			cases[i], cases[j] = cases[j], cases[i]
		}
	}
	for _, c := range cases {
		verdict(t, "C19", "c19", c, checkC19)
	}
}

func c19Labels(g glSpec) (bool, []string) {
	var ls []string
	sets := map[string]bool{}
	css := 0
	for _, st := range g.Styles {
		if st.SSA != nil {
			sets[fmt.Sprint(styleColsOf(*st.SSA))] = true
		}
		if len(st.VTTStyles) > 0 {
			css++
		}
	}
	if len(sets) >= 2 {
		ls = append(ls, "ssa-styles-with-different-attribute-sets")
	}
	if css >= 2 {
		ls = append(ls, "webvtt-style-blocks-over-several-styles")
	}
	if len(g.Regions) >= 2 {
		ls = append(ls, "regions>=2")
	}
	if g.Meta.STL != nil && g.Meta.STLDates {
		ls = append(ls, "stl-dates-in-metadata")
	} else {
		ls = append(ls, "stl-dates-from-clock")
	}
	return len(g.Styles) >= 2 && (len(sets) >= 2 || css >= 2), ls
}

func TestC19(t *testing.T) {
	runWitnesses(t, "C19")
	var batch []c19Case
	// first of all, before this process has read or written anything else: lists in languages the library has no name
	// for, or names differently
	for k, lang := range []string{"de", "klingon", "sv", "english", "French", "kl", "en"} {
		c := c19Case{Spec: glSpec{Meta: glMeta{Lang: lang, Title: "t"}, Cues: []glCue{{Start: 1000 * nsMs, End: 2000 * nsMs, JC: -1, VP: -1, Lines: []glLine{{Runs: []glRun{{Text: "x"}}}}}}}, Order: []int{k % 5, (k + 1) % 5, (k + 2) % 5, (k + 3) % 5, (k + 4) % 5}}
		ev.Case(true, fmt.Sprintf("%v", c), "fixed-language-list")
		verdict(t, "C19", "c19", c, checkC19)
	}
	// hand-built definitions: regions, styles, cues and runs that carry no inline attributes at all (nil), alone and together
	for k := 0; k < 8; k++ {
		g := glSpec{Meta: glMeta{Title: "t"},
			Styles:  []glStyle{{ID: "s", NilInline: k&1 != 0}},
			Regions: []glRegion{{ID: "r", NilInline: k&2 != 0, Style: "s"}, {ID: "top", NilInline: k&2 == 0}},
			Cues: []glCue{{Start: 1000 * nsMs, End: 2000 * nsMs, JC: -1, VP: -1, Region: "r", Style: "s", NilInline: k&4 != 0, Lines: []glLine{{Runs: []glRun{{Text: "x", NilInline: k&4 != 0}, {Text: "y", Style: "s"}}}}},
				{Start: 3000 * nsMs, End: 4000 * nsMs, JC: -1, VP: -1, Region: "top", Lines: []glLine{{Runs: []glRun{{Text: "z"}}}}}}}
		c := c19Case{Spec: g, Order: []int{k % 5, (k + 1) % 5, (k + 2) % 5, (k + 3) % 5, (k + 4) % 5}}
		ev.Case(true, fmt.Sprintf("%v", c), "fixed-nil-inline-attributes")
		verdict(t, "C19", "c19", c, checkC19)
	}
	rapidCheck(t, "C19/lists", tier(300, 20000), func(rt *rapid.T) {
		c := c19Case{Spec: genGLRaw(rt), Order: genPerm(rt, 5, "order")}
		if rapid.IntRange(0, 3).Draw(rt, "nilinline") == 0 {
			// (drawn last) definitions without inline attributes, as a caller builds them by hand
			for i := range c.Spec.Regions {
				c.Spec.Regions[i].NilInline = i%2 == 0
			}
			for i := range c.Spec.Styles {
				c.Spec.Styles[i].NilInline = i%2 == 1
			}
		}
		nt, ls := c19Labels(c.Spec)
		ev.Case(nt, fmt.Sprintf("%v", c), ls...)
		if nt && len(c.Spec.Cues) <= 2 {
			ev.Sample("list", c)
		}
		verdict(rt, "C19", "c19", c, checkC19)
		if len(batch) < tier(120, 2000) {
			s := c.Spec.build()
			ref, _ := writeAllAt(s, c19NowA, nil)
			cc := c
			cc.Hashes = map[string]string{}
			for f, b := range ref {
				cc.Hashes[f] = hashOf(b)
			}
			batch = append(batch, cc)
		}
	})
	// same process, other history: the lists of the batch written again in the opposite order
	sub(t, "history", func(t *testing.T) {
		for i := len(batch) - 1; i >= 0; i-- {
			ev.Label("rewritten-in-reverse-order")
			verdict(t, "C19", "c19", batch[i], checkC19)
		}
	})
	// other processes: new map hash seeds
	sub(t, "processes", func(t *testing.T) {
		dir := t.TempDir()
		path := dir + "/batch.json"
		b, _ := json.Marshal(batch)
		if err := os.WriteFile(path, b, 0o644); err != nil {
			t.Fatal(err)
		}
		n := tier(4, 8)
		for i := 0; i < n; i++ {
			ev.Label("child-process")
			if err := c19RunChild(path, []string{"fwd", "rev"}[i%2]); err != nil {
				t.Fatalf("C19: a fresh process does not reproduce the outputs: %v", err)
			}
		}
		ev.Note("processes", fmt.Sprintf("%d cases re-written in %d fresh processes each", len(batch), n))
	})
}

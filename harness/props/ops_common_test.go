package props

import (
	"fmt"
	"reflect"
	"strings"
	"time"

	astisub "github.com/asticode/go-astisub"
	"pgregory.net/rapid"
)

// cueSpec is the JSON-able description of one cue used by the operation
// properties (C09-C15). Times are nanoseconds.
type cueSpec struct {
	S int64  `json:"s"`
	E int64  `json:"e"`
	T string `json:"t"`
}

func (c cueSpec) String() string { return fmt.Sprintf("[%d,%d)%q", c.S, c.E, c.T) }

type builtList struct {
	sub   *astisub.Subtitles
	items []*astisub.Item // original pointers, original order
	snaps []itemSnap      // non-time content at build time
	style *astisub.Style
	reg   *astisub.Region
	meta  string // printed metadata at build time
}

// metaDiff reports a change of the list's metadata since it was built.
func (b *builtList) metaDiff() string {
	now := ""
	if b.sub.Metadata != nil {
		now = fmt.Sprintf("%+v|%+v", *b.sub.Metadata, b.sub.Metadata.WebVTTTimestampMap)
	}
	if now != b.meta {
		return fmt.Sprintf("the list's metadata changed: %s -> %s", b.meta, now)
	}
	return ""
}

// itemSnap captures everything of an Item except its two boundaries.
type itemSnap struct {
	Comments    []string
	Index       int
	InlineStyle *astisub.StyleAttributes
	InlineCopy  astisub.StyleAttributes
	Lines       []astisub.Line
	Region      *astisub.Region
	Style       *astisub.Style
	// RunInline: the values the runs' inline attributes point at (an edit in place leaves the pointers alone)
	RunInline []astisub.StyleAttributes
}

func snapItem(it *astisub.Item) itemSnap {
	s := itemSnap{
		Comments:    append([]string(nil), it.Comments...),
		Index:       it.Index,
		InlineStyle: it.InlineStyle,
		Region:      it.Region,
		Style:       it.Style,
	}
	if it.InlineStyle != nil {
		s.InlineCopy = *it.InlineStyle
	}
	for _, l := range it.Lines {
		s.Lines = append(s.Lines, astisub.Line{VoiceName: l.VoiceName, Items: append([]astisub.LineItem(nil), l.Items...)})
		for _, li := range l.Items {
			if li.InlineStyle != nil {
				s.RunInline = append(s.RunInline, *li.InlineStyle)
			}
		}
	}
	return s
}

// contentDiff compares the non-time content of it with a snapshot.
func contentDiff(it *astisub.Item, s itemSnap) string {
	return snapDiff(snapItem(it), s)
}

// snapDiff compares two snapshots.
func snapDiff(n, s itemSnap) string {
	if !reflect.DeepEqual(n.Comments, s.Comments) && !(len(n.Comments) == 0 && len(s.Comments) == 0) {
		return "comments changed"
	}
	if n.Index != s.Index {
		return "index changed"
	}
	if n.InlineStyle != s.InlineStyle {
		return "inline style pointer changed"
	}
	if !reflect.DeepEqual(n.InlineCopy, s.InlineCopy) {
		return "inline style content changed"
	}
	if n.Region != s.Region {
		return "region changed"
	}
	if n.Style != s.Style {
		return "style changed"
	}
	if !reflect.DeepEqual(n.Lines, s.Lines) && !(len(n.Lines) == 0 && len(s.Lines) == 0) {
		return fmt.Sprintf("lines changed: %v -> %v", s.Lines, n.Lines)
	}
	if !reflect.DeepEqual(n.RunInline, s.RunInline) && !(len(n.RunInline) == 0 && len(s.RunInline) == 0) {
		return fmt.Sprintf("inline attributes of a run edited in place: %+v -> %+v", s.RunInline, n.RunInline)
	}
	return ""
}

// buildList turns specs into a Subtitles value; every cue is a fresh *Item
// carrying a style, a region, inline attributes, an index and a comment so
// that "content untouched" is observable.
func buildList(specs []cueSpec) *builtList {
	b := &builtList{sub: astisub.NewSubtitles()}
	b.style = &astisub.Style{ID: "st", InlineStyle: &astisub.StyleAttributes{SRTBold: true}}
	b.reg = &astisub.Region{ID: "rg", InlineStyle: &astisub.StyleAttributes{WebVTTLines: 3}}
	b.sub.Styles["st"] = b.style
	b.sub.Regions["rg"] = b.reg
	// the list's metadata is none of the operations' business: absent, or carrying a frame rate and a programme start
	if len(specs) > 0 {
		timer, resX := 50.0, 384
		switch (len(specs) + int(specs[0].S/nsMs)) % 6 {
		case 4:
			// what the SSA reader leaves: a script timer is a field of the script, not a scale for the operations
			b.sub.Metadata = &astisub.Metadata{SSATimer: &timer, SSAPlayResX: &resX, SSAScriptType: "v4.00"}
		case 5:
			b.sub.Metadata = &astisub.Metadata{Framerate: 50, Language: astisub.LanguageFrench, TTMLCopyright: "c"}
		case 1:
			b.sub.Metadata = &astisub.Metadata{Framerate: 25, Title: "t"}
		case 2:
			b.sub.Metadata = &astisub.Metadata{Framerate: 30, STLTimecodeStartOfProgramme: time.Hour}
		case 3:
			b.sub.Metadata = &astisub.Metadata{Framerate: 24, WebVTTTimestampMap: &astisub.WebVTTTimestampMap{Local: time.Second, MpegTS: 900000}}
		}
	}
	if b.sub.Metadata != nil {
		b.meta = fmt.Sprintf("%+v|%+v", *b.sub.Metadata, b.sub.Metadata.WebVTTTimestampMap)
	}
	for i, c := range specs {
		it := &astisub.Item{
			StartAt: time.Duration(c.S),
			EndAt:   time.Duration(c.E),
			Index:   100 + i,
			Lines:   textLines(c.T),
		}
		if i%3 != 2 {
			// a speaker on the first line: part of the content every operation must carry along
			if len(it.Lines) > 0 {
				it.Lines[0].VoiceName = fmt.Sprintf("voice%d", i%2)
			}
		}
		if i%4 != 3 && len(it.Lines) > 0 && len(it.Lines[len(it.Lines)-1].Items) > 0 {
			// an inline timestamp (WebVTT) on the last run of the last line: content like any other
			ll := &it.Lines[len(it.Lines)-1]
			ll.Items[len(ll.Items)-1].StartAt = time.Duration(c.E) - time.Duration(i%2)*time.Millisecond
		}
		if i%2 == 0 {
			it.Style = b.style
			if i%4 == 2 {
				// what a merge of two documents leaves: a cue whose style is another object than the one the list
				// declares under the same identifier - the cue's own reference is the one every piece must keep
				it.Style = &astisub.Style{ID: "st", InlineStyle: &astisub.StyleAttributes{SRTItalics: true}}
			}
			it.InlineStyle = &astisub.StyleAttributes{WebVTTAlign: "left"}
			if i%4 == 0 {
				// the Effect column of an SSA event
				it.InlineStyle.SSAEffect = "Scroll up;10;100;5"
			}
		}
		if i%5 == 1 && len(it.Lines) > 0 && len(it.Lines[0].Items) > 0 {
			// what the SSA reader leaves on a run: an override block (karaoke timing, here) is content like any other
			it.Lines[0].Items[0].InlineStyle = &astisub.StyleAttributes{SSAEffect: "{\\k50\\kf120}", SRTItalics: true}
		}
		if i%3 == 0 {
			it.Region = b.reg
			if i%6 == 3 {
				it.Region = &astisub.Region{ID: "rg", InlineStyle: &astisub.StyleAttributes{WebVTTLines: 5}}
			}
			it.Comments = []string{fmt.Sprintf("c%d", i)}
		}
		b.sub.Items = append(b.sub.Items, it)
		b.items = append(b.items, it)
		b.snaps = append(b.snaps, snapItem(it))
	}
	return b
}

// textLines: "a|b" gives two lines; each line one run.
func textLines(t string) []astisub.Line {
	if t == "~" {
		// a cue without any line (no text at all; "" is a cue with one empty line: the same text, another structure)
		return nil
	}
	var ls []astisub.Line
	for _, l := range strings.Split(t, "|") {
		ln := astisub.Line{}
		if l == "^" {
			ls = append(ls, ln)
			continue
		}
		// "x+y": one line made of two runs (same text as "xy", different structure)
		for _, r := range strings.Split(l, "+") {
			ln.Items = append(ln.Items, astisub.LineItem{Text: r})
		}
		ls = append(ls, ln)
	}
	return ls
}

// textKey is the text a cue shows, whatever its split into runs.
func textKey(t string) string {
	if t == "~" {
		return ""
	}
	return strings.ReplaceAll(strings.ReplaceAll(t, "+", ""), "^", "")
}

// timeline is a cheap fingerprint of a list: which cue objects, in which order, with which boundaries and text.
func timeline(s *astisub.Subtitles) string {
	var sb strings.Builder
	for _, it := range s.Items {
		fmt.Fprintf(&sb, "%p[%d,%d)%q;", it, int64(it.StartAt), int64(it.EndAt), it.String())
	}
	return sb.String()
}

// unrelatedActivity runs every operation on a list of its own, each in a way that makes it do real work
// (cues removed, cut, merged, a filler appended). Lists that took no part in it must not notice.
func unrelatedActivity() {
	specs := []cueSpec{{S: 0, E: 2 * nsMs, T: "a"}, {S: 2 * nsMs, E: 3 * nsMs, T: "a"}, {S: 5 * nsMs, E: 9 * nsMs, T: "b"}, {S: 1 * nsMs, E: 2 * nsMs, T: "c"}}
	o := buildList(specs)
	o.sub.Add(-3 * time.Millisecond)
	o.sub.Order()
	o.sub.Fragment(2 * time.Millisecond)
	o.sub.Unfragment()
	o.sub.ForceDuration(20*time.Millisecond, true)
	for _, it := range o.sub.Items {
		for li := range it.Lines {
			for ri := range it.Lines[li].Items {
				it.Lines[li].Items[ri].Text += "~"
			}
		}
	}
	o.sub.Merge(buildList(specs[:2]).sub)
	o.sub.ApplyLinearCorrection(time.Second, 2*time.Second, 3*time.Second, 5*time.Second)
	o.sub.Optimize()
	o.sub.RemoveStyling()
}

// sampledForInterference picks about one case in eight, as a function of the case alone.
func sampledForInterference(cs []cueSpec) bool {
	if len(cs) == 0 {
		return false
	}
	return (int64(len(cs))+cs[0].S/nsMs+cs[len(cs)-1].E/nsMs)%8 == 0
}

// interference runs unrelated operations and reports a change of the list they had nothing to do with.
func interference(s *astisub.Subtitles) string {
	before := timeline(s)
	unrelatedActivity()
	if after := timeline(s); after != before {
		return fmt.Sprintf("the list changed while operations ran on another, unrelated list: %s -> %s", before, after)
	}
	return ""
}

func (b *builtList) indexOf(it *astisub.Item) int {
	for i, p := range b.items {
		if p == it {
			return i
		}
	}
	return -1
}

func fmtSpecs(cs []cueSpec) string {
	var parts []string
	for _, c := range cs {
		parts = append(parts, c.String())
	}
	return strings.Join(parts, " ")
}

func fmtItems(its []*astisub.Item) string {
	var parts []string
	for _, it := range its {
		parts = append(parts, fmt.Sprintf("[%d,%d)%q", int64(it.StartAt), int64(it.EndAt), it.String()))
	}
	return strings.Join(parts, " ")
}

// ---------------------------------------------------------------------------
// Generators shared by the operation properties

var opTexts = []string{"a", "b", "c"}

// opTextsWide adds a cue without any line ("~") and a cue with one empty line ("")
var opTextsWide = []string{"a", "b", "c", "a", "b", "~", "", "a|^|b", "^"} // "^": a line without any run (a blank row, a voice-only line)

const (
	nsMs   = int64(time.Millisecond)
	nsHour = int64(time.Hour)
)

// genInstant draws an instant in [0,max] ns with a bias towards a unit grid
// (ms), small values and boundary values.
func genInstant(t *rapid.T, max int64, label string) int64 {
	switch rapid.IntRange(0, 9).Draw(t, label+"k") {
	case 0, 1, 2:
		return rapid.Int64Range(0, 20).Draw(t, label) * nsMs
	case 3, 4, 5:
		return rapid.Int64Range(0, max/nsMs).Draw(t, label) * nsMs
	case 6:
		return rapid.Int64Range(0, 50).Draw(t, label)
	default:
		return rapid.Int64Range(0, max).Draw(t, label)
	}
}

// genCues draws n cues with start <= end.
func genCues(t *rapid.T, minN, maxN int, max int64, texts []string) []cueSpec {
	n := rapid.IntRange(minN, maxN).Draw(t, "n")
	if maxN >= 8 && rapid.IntRange(0, 24).Draw(t, "large") == 0 {
		// now and then a list far above any internal small-size threshold
		n = rapid.IntRange(100, 300).Draw(t, "nlarge")
	}
	cs := make([]cueSpec, n)
	for i := range cs {
		a := genInstant(t, max, "s")
		var b int64
		if rapid.IntRange(0, 3).Draw(t, "lenk") == 0 {
			b = a + rapid.Int64Range(0, 5).Draw(t, "len")*nsMs
		} else {
			b = genInstant(t, max, "e")
		}
		if b < a {
			a, b = b, a
		}
		cs[i] = cueSpec{S: a, E: b, T: rapid.SampledFrom(texts).Draw(t, "t")}
	}
	return cs
}

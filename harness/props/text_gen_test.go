package props

import (
	"strings"
	"unicode"

	"pgregory.net/rapid"
)

// Shared text generators (DESIGN section 3). A text is a sequence of atoms drawn
// from weighted classes; format-specific hazards are added by the caller as
// extra atoms, and forbidden substrings are removed by construction.

var (
	atomsASCII   = []string{"a", "b", "Hello", "world", "x1", "The", "quick", "fox", "I", "ok", "Z", "42", "0", "7", "1999"}
	atomsPunct   = []string{"&", "<", ">", "\"", "'", "{", "}", "\\", ",", ":", ";", ".", "!", "?", "-", "--", "->", "=", "%", "#", "@", "/", "|", "(", ")", "[", "]", "*", "+", "~", "^", "_", "`", "$"}
	atomsLatin   = []string{"é", "à", "ü", "ß", "Ø", "ñ", "ç", "Ž", "ő", "Æ", "œ", "Å", "café", "naïve", "¿", "¡", "£", "§", "°", "½"}
	atomsCJK     = []string{"中文", "日本語", "한국어", "字", "漢字かな", "。", "、"}
	atomsRTL     = []string{"هذا", "عربي", "שלום", "‏", "‎"}
	atomsComb    = []string{"é", "ä", "ộ", "ñ", "कि"}
	atomsNonBMP  = []string{"\U0001F600", "\U0001F3B5", "\U00010348", "\U0001F468‍\U0001F469‍\U0001F467", "\U0002000B"}
	atomsControl = []string{"\x01", "\x07", "\x1b", "\x7f", "\u0080", "\u009f", "\t"}
)

type textOpts struct {
	extra     []string // format-specific hazards, used as atoms
	replChar  bool     // U+FFFD is a character like any other (legal in XML)
	forbid    []string // substrings that must not occur (removed by construction)
	controls  bool
	nbsp      bool
	leadComb  bool // allow a leading combining mark
	maxAtoms  int
	noPunct   []string // punctuation atoms to leave out
	onlyASCII bool
	feff      bool // keep U+FEFF (zero-width no-break space inside a text; a byte-order mark only at the very start of a document)
	raw       bool // keep everything: line terminators, NUL, leading/trailing white space (hostile texts)
}

func genAtom(t *rapid.T, o textOpts) string {
	k := rapid.IntRange(0, 19).Draw(t, "class")
	if o.onlyASCII && k >= 8 && k != 17 && k != 18 {
		k = k % 8
	}
	switch {
	case k < 6:
		return rapid.SampledFrom(atomsASCII).Draw(t, "ascii")
	case k < 8:
		p := rapid.SampledFrom(atomsPunct).Draw(t, "punct")
		for _, n := range o.noPunct {
			if p == n {
				return "."
			}
		}
		return p
	case k < 10:
		return rapid.SampledFrom(atomsLatin).Draw(t, "latin")
	case k < 11:
		return rapid.SampledFrom(atomsCJK).Draw(t, "cjk")
	case k < 12:
		return rapid.SampledFrom(atomsRTL).Draw(t, "rtl")
	case k < 13:
		return rapid.SampledFrom(atomsComb).Draw(t, "comb")
	case k < 14:
		return rapid.SampledFrom(atomsNonBMP).Draw(t, "nonbmp")
	case k < 15:
		if o.controls {
			return rapid.SampledFrom(atomsControl).Draw(t, "ctl")
		}
		return "c"
	case k < 16:
		if o.nbsp {
			return "\u00a0"
		}
		return "n"
	case k < 19:
		if len(o.extra) > 0 {
			return rapid.SampledFrom(o.extra).Draw(t, "extra")
		}
		return "e"
	default:
		// arbitrary printable rune
		r := rapid.RuneFrom(nil, unicode.L, unicode.N, unicode.P, unicode.S).Draw(t, "rune")
		return string(r)
	}
}

// genText draws a non-blank text without line terminators and without leading
// or trailing Unicode white space.
func genText(t *rapid.T, o textOpts) string {
	max := o.maxAtoms
	if max == 0 {
		max = 4
	}
	n := rapid.IntRange(1, max).Draw(t, "atoms")
	var sb strings.Builder
	for i := 0; i < n; i++ {
		if i > 0 && rapid.IntRange(0, 2).Draw(t, "sp") > 0 {
			sb.WriteByte(' ')
		}
		sb.WriteString(genAtom(t, o))
	}
	s := sanitizeText(sb.String(), o)
	return s
}

func sanitizeText(s string, o textOpts) string {
	if o.raw {
		return s
	}
	s = strings.Map(func(r rune) rune {
		switch r {
		case '\n', '\r', '\u0085', '\u2028', '\u2029', '\v', '\f':
			return -1 // line terminators (and the two ASCII vertical separators) are outside every model
		case 0xFEFF:
			if !o.feff {
				return -1
			}
		case unicode.ReplacementChar:
			if !o.replChar {
				return -1
			}
		case 0:
			return -1
		case '\u00a0':
			if !o.nbsp {
				return -1
			}
		}
		return r
	}, s)
	for changed := true; changed; {
		changed = false
		for _, f := range o.forbid {
			if strings.Contains(s, f) {
				s = strings.ReplaceAll(s, f, "_")
				changed = true
			}
		}
	}
	s = strings.TrimFunc(s, unicode.IsSpace)
	if !o.leadComb {
		for len(s) > 0 {
			r := []rune(s)[0]
			if unicode.Is(unicode.Mn, r) || unicode.Is(unicode.Me, r) || unicode.Is(unicode.Mc, r) {
				s = string([]rune(s)[1:])
				s = strings.TrimFunc(s, unicode.IsSpace)
				continue
			}
			break
		}
	}
	if s == "" {
		s = "x"
	}
	return s
}

// hasNonSpace reports whether s holds at least one rune that is not Unicode white space.
func hasNonSpace(s string) bool {
	return strings.TrimFunc(s, unicode.IsSpace) != ""
}

// fixJoin returns text, altered if needed so that prev+text does not contain a
// forbidden substring across the junction (text itself is already free of them).
func fixJoin(prev, text string, forbid []string) string {
	for _, f := range forbid {
		if strings.Contains(prev+text, f) && !strings.Contains(prev, f) {
			return "_" + text
		}
	}
	return text
}

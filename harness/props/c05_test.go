package props

import (
	"bytes"
	"fmt"
	"strings"
	"testing"
	"time"

	astisub "github.com/asticode/go-astisub"
	"golang.org/x/text/unicode/norm"
	"pgregory.net/rapid"
)

// C05 - EBU STL codec fidelity.

type c05ReadCase struct {
	Doc       stlDoc `json:"doc"`
	IgnoreTCP bool   `json:"ignore_tcp"`
}

type c05WriteCase struct {
	// Foreign: the list carries metadata of other formats; the file-level helper is exercised as well
	Foreign bool   `json:"foreign,omitempty"`
	Doc     stlDoc `json:"doc"`
	Meta    string `json:"meta"` // stl | nil | inherited
}

type c05CycleCase struct {
	Doc stlDoc `json:"doc"`
}

func init() {
	register("c05read", checkC05Read)
	register("c05write", checkC05Write)
	register("c05cycle", checkC05Cycle)
}

// known-finding signatures (see known_findings.json)
const (
	kfSTLTeletextTextLoss = "stl-writer-teletext-dsc-text-loss"
	kfSTLDollar           = "stl-writer-dollar-as-currency-sign"
)

func checkC05Read(c c05ReadCase) string {
	b, ok := renderSTL(c.Doc)
	if !ok {
		return "harness: model not encodable"
	}
	g := c.Doc.GSI
	s, err := astisub.ReadFromSTL(deliver(b), astisub.STLOptions{IgnoreTimecodeStartOfProgramme: c.IgnoreTCP})
	if err != nil {
		return fmt.Sprintf("reader rejected a well-formed file: %v", err)
	}
	o, msg := projSTL(s)
	if msg != "" {
		return msg
	}
	// metadata
	want := g
	want.LC = stlLangs[g.LC]
	want.TCP = stlTC{}
	o.GSI.TCP = stlTC{}
	if o.GSI != want {
		return fmt.Sprintf("metadata %+v, expected %+v", o.GSI, want)
	}
	tcp := g.TCP.exactNs(g.Rate)
	if c.IgnoreTCP {
		tcp.SetInt64(0)
	}
	if !nearRat(o.TCP, tcp) {
		return fmt.Sprintf("programme start %d ns, expected %s ns (ignore=%v)", o.TCP, tcp.FloatString(2), c.IgnoreTCP)
	}
	if len(o.Cues) != len(c.Doc.Cues) {
		return fmt.Sprintf("%d cues, expected %d (one per non-user-data TTI block)", len(o.Cues), len(c.Doc.Cues))
	}
	teletext := g.DSC != "0"
	for i, wc := range c.Doc.Cues {
		gc := o.Cues[i]
		for k, p := range []struct {
			got int64
			tc  stlTC
		}{{gc.In, wc.In}, {gc.Out, wc.Out}} {
			exact := p.tc.exactNs(g.Rate)
			exact.Sub(exact, tcp)
			if !nearRat(p.got, exact) {
				return fmt.Sprintf("cue %d boundary %d: %02d:%02d:%02d:%02d at %d fps (programme start %+v, ignore=%v) read as %d ns, it means %s ns", i, k, p.tc.H, p.tc.M, p.tc.S, p.tc.F, g.Rate, g.TCP, c.IgnoreTCP, p.got, exact.FloatString(2))
			}
		}
		if gc.VP != wc.VP || gc.JC != wc.JC {
			return fmt.Sprintf("cue %d: vertical position / justification %d/%d, expected %d/%d", i, gc.VP, gc.JC, wc.VP, wc.JC)
		}
		if m := diffSTLRows(wc.Rows, gc.Rows, teletext); m != "" {
			return fmt.Sprintf("cue %d (DSC %q): %s", i, g.DSC, m)
		}
		wantRows := len(wc.Rows)
		if wc.ExtraBreak > 0 {
			wantRows++
		}
		if gc.NRows != wantRows {
			return fmt.Sprintf("cue %d: position reports %d rows, the text field holds %d (line-break codes + 1, empty rows included)", i, gc.NRows, wantRows)
		}
	}
	return rereadStable("stl", b, readOpts{IgnoreTCP: c.IgnoreTCP}, s)
}

func floorFrameTC(ns int64, rate int) stlTC {
	// floor(ns * rate / 1e9) in integer arithmetic
	n := ns / 1_000_000_000 * int64(rate)
	n += ns % 1_000_000_000 * int64(rate) / 1_000_000_000
	return tcFromFrames(n, rate)
}

func checkC05Write(c c05WriteCase) string {
	s := toSubtitlesSTL(c.Doc, c.Meta)
	if c.Foreign && c.Meta == "stl" {
		// (lists without metadata, or with inherited metadata, stay as they are: they are cases of their own)
		addForeignMetadata("stl", s)
		addForeignAttributes("stl", s)
		priorFailedWrite("stl", 1024+len(s.Items)*37, len(s.Items)%3)
	}
	restore := astisub.Now
	astisub.Now = func() time.Time { return time.Date(2021, 3, 4, 0, 0, 0, 0, time.UTC) }
	defer func() { astisub.Now = restore }()
	var buf bytes.Buffer
	err := s.WriteToSTL(&buf)
	if len(c.Doc.Cues) == 0 {
		if err != astisub.ErrNoSubtitlesToWrite {
			return fmt.Sprintf("writing an empty list returned %v, expected ErrNoSubtitlesToWrite", err)
		}
		return ""
	}
	if err != nil {
		return fmt.Sprintf("writer failed: %v", err)
	}
	out := buf.Bytes()
	if len(out) != 1024+128*len(c.Doc.Cues) {
		return fmt.Sprintf("file has %d bytes, expected 1024 + 128*%d", len(out), len(c.Doc.Cues))
	}
	want := c.Doc.GSI
	if c.Meta != "stl" {
		// documented defaults of the writer when the list carries no STL metadata
		def := stlGSI{Rate: 25, DSC: "1", LC: "0F", MNC: 40, MNR: 23, CO: "FRA", CD: "210304", RD: "210304"}
		if c.Meta == "inherited" {
			def.OPT = want.OPT
			def.CO = ""
			if stlLangs[want.LC] != "" {
				def.LC = want.LC
			}
		}
		want = def
	} else if stlLangs[want.LC] == "" {
		want.LC = "0F"
	}
	rate := want.Rate
	teletext := want.DSC != "0"
	// expected timecodes: floor of (instant + programme start) to the frame
	tcpNs := ratCeilNs(want.TCP.exactNs(rate))
	var wantTC [][2]stlTC
	for _, it := range s.Items {
		wantTC = append(wantTC, [2]stlTC{floorFrameTC(int64(it.StartAt)+tcpNs, rate), floorFrameTC(int64(it.EndAt)+tcpNs, rate)})
	}
	// (b) independent decoder
	ind, err := decodeSTLIndep(out)
	if err != nil {
		return fmt.Sprintf("independent decoder rejects the writer's output: %v", err)
	}
	if ind.GSI != want {
		return fmt.Sprintf("independent decoder: GSI %+v, expected %+v (metadata: %s)", ind.GSI, want, c.Meta)
	}
	if len(ind.Cues) != len(c.Doc.Cues) || ind.NUser != 0 {
		return fmt.Sprintf("independent decoder: %d cues, expected %d", len(ind.Cues), len(c.Doc.Cues))
	}
	// the GSI's "time code: first in-cue" is the in-cue of the first subtitle of the list
	if len(wantTC) > 0 {
		if tcf := (stlTC{atoiField(out[264:266]), atoiField(out[266:268]), atoiField(out[268:270]), atoiField(out[270:272])}); tcf != wantTC[0][0] {
			return fmt.Sprintf("independent decoder: GSI first in-cue timecode %+v, the first TTI block starts at %+v (programme start %+v)", tcf, wantTC[0][0], want.TCP)
		}
	}
	for i, wc := range c.Doc.Cues {
		tc := ind.TCs[i]
		gIn, gOut := stlTC{int(tc[0]), int(tc[1]), int(tc[2]), int(tc[3])}, stlTC{int(tc[4]), int(tc[5]), int(tc[6]), int(tc[7])}
		if gIn != wantTC[i][0] || gOut != wantTC[i][1] {
			return fmt.Sprintf("independent decoder: cue %d timecodes %+v --> %+v, expected %+v --> %+v (instants %v --> %v, rate %d, programme start %+v)", i, gIn, gOut, wantTC[i][0], wantTC[i][1], s.Items[i].StartAt, s.Items[i].EndAt, rate, want.TCP)
		}
		wvp := wc.VP
		if teletext && wvp < 1 {
			wvp = 1 // teletext rows are 1..23 (Tech 3264): the writer documents this clamp
		}
		if ind.Cues[i].VP != wvp || ind.Cues[i].JC != wc.JC {
			return fmt.Sprintf("independent decoder: cue %d VP/JC %d/%d, expected %d/%d", i, ind.Cues[i].VP, ind.Cues[i].JC, wvp, wc.JC)
		}
		if teletext && knownActive(kfSTLTeletextTextLoss) {
			ev.Excluded(kfSTLTeletextTextLoss)
		} else if m := diffSTLRows(wc.Rows, ind.Cues[i].Rows, false); m != "" {
			return fmt.Sprintf("independent decoder: cue %d (DSC %q): %s", i, want.DSC, m)
		}
	}
	// (a) the library's own reader
	s2, err := astisub.ReadFromSTL(bytes.NewReader(out), astisub.STLOptions{})
	if err != nil {
		return fmt.Sprintf("library reader rejects the writer's output: %v", err)
	}
	o, msg := projSTL(s2)
	if msg != "" {
		return msg
	}
	wantMeta := want
	wantMeta.LC = stlLangs[want.LC]
	wantMeta.TCP = stlTC{}
	if o.GSI != wantMeta {
		return fmt.Sprintf("re-read by the library: metadata %+v, expected %+v", o.GSI, wantMeta)
	}
	if len(o.Cues) != len(c.Doc.Cues) {
		return fmt.Sprintf("re-read by the library: %d cues, expected %d", len(o.Cues), len(c.Doc.Cues))
	}
	tcpExact := want.TCP.exactNs(rate)
	for i, wc := range c.Doc.Cues {
		for k, got := range []int64{o.Cues[i].In, o.Cues[i].Out} {
			exact := wantTC[i][k].exactNs(rate)
			exact.Sub(exact, tcpExact)
			if !nearRat(got, exact) {
				return fmt.Sprintf("re-read by the library: cue %d boundary %d is %d ns, expected %s ns", i, k, got, exact.FloatString(2))
			}
		}
		wvp := wc.VP
		if teletext && wvp < 1 {
			wvp = 1
		}
		if o.Cues[i].VP != wvp || o.Cues[i].JC != wc.JC {
			return fmt.Sprintf("re-read by the library: cue %d VP/JC %d/%d, expected %d/%d", i, o.Cues[i].VP, o.Cues[i].JC, wvp, wc.JC)
		}
		if teletext && knownActive(kfSTLTeletextTextLoss) {
			continue
		}
		if m := diffSTLRows(wc.Rows, o.Cues[i].Rows, false); m != "" {
			return fmt.Sprintf("re-read by the library: cue %d (DSC %q): %s", i, want.DSC, m)
		}
	}
	if c.Foreign {
		if m := fileWriteAgrees("stl", s); m != "" {
			return m
		}
	}
	return ""
}

// checkC05Cycle: reading a file and writing it again changes no timecode.
func checkC05Cycle(c c05CycleCase) string {
	b, ok := renderSTL(c.Doc)
	if !ok {
		return "harness: model not encodable"
	}
	s, err := astisub.ReadFromSTL(bytes.NewReader(b), astisub.STLOptions{})
	if err != nil {
		return fmt.Sprintf("reader rejected a well-formed file: %v", err)
	}
	if len(s.Items) == 0 {
		return ""
	}
	var buf bytes.Buffer
	if err := s.WriteToSTL(&buf); err != nil {
		return fmt.Sprintf("writer failed: %v", err)
	}
	ind, err := decodeSTLIndep(buf.Bytes())
	if err != nil {
		return fmt.Sprintf("independent decoder rejects the rewritten file: %v", err)
	}
	if len(ind.TCs) != len(c.Doc.Cues) {
		return fmt.Sprintf("rewritten file has %d cues, original %d", len(ind.TCs), len(c.Doc.Cues))
	}
	if ind.GSI.TCP != c.Doc.GSI.TCP {
		return fmt.Sprintf("programme start timecode changed from %+v to %+v", c.Doc.GSI.TCP, ind.GSI.TCP)
	}
	for i, wc := range c.Doc.Cues {
		tc := ind.TCs[i]
		gIn, gOut := stlTC{int(tc[0]), int(tc[1]), int(tc[2]), int(tc[3])}, stlTC{int(tc[4]), int(tc[5]), int(tc[6]), int(tc[7])}
		if gIn != wc.In || gOut != wc.Out {
			return fmt.Sprintf("cue %d: timecodes %+v --> %+v became %+v --> %+v after read + write (rate %d, programme start %+v)", i, wc.In, wc.Out, gIn, gOut, c.Doc.GSI.Rate, c.Doc.GSI.TCP)
		}
	}
	return ""
}

func c05Labels(d stlDoc) (bool, []string) {
	var ls []string
	add := func(c bool, l string) {
		if c {
			ls = append(ls, l)
		}
	}
	var diacritic, style, ud, multirow bool
	for _, c := range d.Cues {
		ud = ud || c.UserDataBefore > 0
		multirow = multirow || len(c.Rows) > 1
		for _, row := range c.Rows {
			for _, r := range row {
				style = style || r.Italic || r.Underline || r.Box || r.Color >= 0
				if norm.NFD.String(r.Text) != r.Text {
					diacritic = true
				}
			}
		}
	}
	add(d.GSI.Rate == 30, "30fps")
	add(d.GSI.DSC != "0", "teletext-dsc")
	add(d.GSI.TCP != stlTC{}, "programme-start-offset")
	add(diacritic, "diacritic")
	add(style, "style-codes")
	add(ud || d.TrailingUD > 0, "user-data-blocks")
	add(multirow, "multi-row")
	return len(d.Cues) > 0 && len(ls) > 0, ls
}

func TestC05(t *testing.T) {
	runWitnesses(t, "C05")
	cliConvertCases(t, "C05", "stl")

	// Exhaustive character table: every single-byte graphic character and every diacritic x letter pair, read and written.
	sub(t, "chartable", func(t *testing.T) {
		if cfgShard != 0 {
			return
		}
		var texts []string
		var codes []int
		for b := range iso6937 {
			codes = append(codes, int(b))
		}
		sortInts(codes)
		for _, b := range codes {
			r := iso6937[byte(b)]
			if r == ' ' {
				continue
			}
			texts = append(texts, "a"+string(r)+"b")
		}
		letters := "abcdefghijklmnopqrstuvwxyzABCDEFGHIJKLMNOPQRSTUVWXYZ"
		var marks []int
		for b := range iso6937Diacritics {
			marks = append(marks, int(b))
		}
		sortInts(marks)
		for _, m := range marks {
			for _, l := range letters {
				texts = append(texts, norm.NFC.String(string([]rune{l, iso6937Diacritics[byte(m)]})))
			}
		}
		n := 0
		for _, dsc := range []string{"0", "1"} {
			for i := 0; i < len(texts); i += 4 {
				d := stlDoc{GSI: stlGSI{Rate: 25, DSC: dsc, LC: "09", CD: "170702", RD: "170702", MNC: 40, MNR: 23}}
				for j := i; j < i+4 && j < len(texts); j++ {
					d.Cues = append(d.Cues, stlCue{In: stlTC{0, 0, j % 60, 0}, Out: stlTC{0, 1, j % 60, 0}, VP: 20, JC: 2, Rows: [][]stlRun{{{Text: texts[j], Color: -1}}}})
				}
				n += len(d.Cues)
				ev.CaseH(true, strHash(fmt.Sprint("ct", dsc, i)), "chartable")
				verdict(t, "C05", "c05read", c05ReadCase{Doc: d}, checkC05Read)
				if dsc == "0" {
					wd := d
					if knownActive(kfSTLDollar) {
						wd.Cues = nil
						for _, cu := range d.Cues {
							if strings.ContainsAny(cu.Rows[0][0].Text, "$¤ΩΩ") {
								ev.Excluded(kfSTLDollar)
								continue
							}
							wd.Cues = append(wd.Cues, cu)
						}
					}
					verdict(t, "C05", "c05write", c05WriteCase{Doc: wd, Meta: "stl"}, checkC05Write)
				}
			}
		}
		ev.Note("exhaustive-chartable", fmt.Sprintf("%d texts: every single-byte graphic character of the Latin table and all 13 diacritics x 52 letters, read under both display standards and written under open subtitling", n))
	})

	// Exhaustive frame numbers: every frame of the second at both rates, through read, write and the read-write cycle.
	sub(t, "frames", func(t *testing.T) {
		if cfgShard != 0 {
			return
		}
		n := 0
		for _, rate := range []int{25, 30} {
			for _, tcp := range []stlTC{{}, {10, 0, 0, 0}, {0, 0, 0, 7}} {
				d := stlDoc{GSI: stlGSI{Rate: rate, DSC: "0", LC: "09", CD: "170702", RD: "170702", MNC: 40, MNR: 23, TCP: tcp}}
				for f := 0; f < rate; f++ {
					in := tcFromFrames(tcp.frames(rate)+int64(f), rate)
					out := tcFromFrames(tcp.frames(rate)+int64(3600*rate+f), rate)
					d.Cues = append(d.Cues, stlCue{In: in, Out: out, VP: 10, JC: 1, Rows: [][]stlRun{{{Text: "x", Color: -1}}}})
				}
				n += 2 * rate
				ev.CaseH(true, strHash(fmt.Sprint("fr", rate, tcp)), "frames")
				verdict(t, "C05", "c05read", c05ReadCase{Doc: d}, checkC05Read)
				verdict(t, "C05", "c05cycle", c05CycleCase{Doc: d}, checkC05Cycle)
				verdict(t, "C05", "c05write", c05WriteCase{Doc: d, Meta: "stl"}, checkC05Write)
			}
		}
		ev.Note("exhaustive-frames", fmt.Sprintf("%d timecodes: every frame number at 25 and 30 fps with three programme-start offsets, through read, write and read+write", n))
	})

	rapidCheck(t, "C05/read", tier(3000, 1200000), func(rt *rapid.T) {
		c := c05ReadCase{Doc: genSTLDoc(rt, false), IgnoreTCP: rapid.Bool().Draw(rt, "ignore")}
		addRecodes(rt, &c.Doc)
		addBlankRowsAndComments(rt, &c.Doc)
		nt, ls := c05Labels(c.Doc)
		for _, cu := range c.Doc.Cues {
			if cu.EBN > 0 {
				ls = append(ls, "extension-block-number-below-ffh")
				break
			}
		}
		ev.Case(nt, fmt.Sprintf("r%v", c), append(ls, "read")...)
		if nt && len(c.Doc.Cues) <= 2 {
			ev.Sample("read", c)
		}
		verdict(rt, "C05", "c05read", c, checkC05Read)
	})
	rapidCheck(t, "C05/cycle", tier(1500, 600000), func(rt *rapid.T) {
		c := c05CycleCase{Doc: genSTLDoc(rt, true)}
		nt, ls := c05Labels(c.Doc)
		ev.Case(nt, fmt.Sprintf("c%v", c), append(ls, "cycle")...)
		verdict(rt, "C05", "c05cycle", c, checkC05Cycle)
	})
	rapidCheck(t, "C05/write", tier(2000, 600000), func(rt *rapid.T) {
		avoid := knownActive(kfSTLDollar)
		c := c05WriteCase{Doc: genSTLDoc(rt, avoid), Meta: rapid.SampledFrom([]string{"stl", "stl", "nil", "inherited"}).Draw(rt, "meta"), Foreign: rapid.IntRange(0, 2).Draw(rt, "foreign") == 0}
		late := false
		if c.Meta == "stl" && rapid.IntRange(0, 5).Draw(rt, "latestart") == 0 {
			// a programme starting late in the evening: the same cues, timed from 23:00:00:00 or 20:30:00:00 on (timecodes
			// keep counting past the twenty-fourth hour)
			rate := c.Doc.GSI.Rate
			old := c.Doc.GSI.TCP.frames(rate)
			c.Doc.GSI.TCP = rapid.SampledFrom([]stlTC{{23, 0, 0, 0}, {20, 30, 0, 0}}).Draw(rt, "latetcp")
			shift := c.Doc.GSI.TCP.frames(rate) - old
			for i := range c.Doc.Cues {
				cu := &c.Doc.Cues[i]
				cu.In, cu.Out = tcFromFrames(cu.In.frames(rate)+shift, rate), tcFromFrames(cu.Out.frames(rate)+shift, rate)
				late = late || cu.In.H >= 24 || cu.Out.H >= 24
			}
		}
		nt, ls := c05Labels(c.Doc)
		if late {
			ls = append(ls, "timecode-past-the-24th-hour")
		}
		ev.Case(nt, fmt.Sprintf("w%v", c), append(ls, "write", "meta-"+c.Meta)...)
		if nt && len(c.Doc.Cues) <= 2 {
			ev.Sample("write", c)
		}
		verdict(rt, "C05", "c05write", c, checkC05Write)
	})
}

package props

// Shared infrastructure of the harness: tier / shard / seed configuration,
// evidence collection, replay-file writing and replay dispatch.
//
// Environment (set by /verif/driver/verifctl.py):
//   VERIF_TIER   quick | thorough
//   VERIF_SEED   integer, base seed
//   VERIF_SHARD  "i/k"  this process is shard i of k (0-based)
//   VERIF_FRAG   path prefix for this shard's evidence fragment (<prefix>.json, <prefix>.hashes)
//   VERIF_REPLAY_OUT  path where a failing case is written (overwritten on every failing invocation)
//   VERIF_REPLAY path of a replay file to re-execute (TestReplay)

import (
	"encoding/binary"
	"encoding/json"
	"flag"
	"fmt"
	"hash/fnv"
	"io"
	"log"
	"os"
	"regexp"
	"runtime/debug"
	"sort"
	"strconv"
	"strings"
	"sync"
	"testing"

	"pgregory.net/rapid"
)

var (
	cfgTier     = "quick"
	cfgSeed     = uint64(1)
	cfgShard    = 0
	cfgShards   = 1
	cfgFrag     = ""
	cfgReplay   = ""
	cfgReplayIn = ""
	cfgScale    = 1.0
)

func init() {
	log.SetOutput(io.Discard) // the library logs through the std logger
	if v := os.Getenv("VERIF_TIER"); v == "thorough" {
		cfgTier = v
	}
	if v, err := strconv.ParseUint(os.Getenv("VERIF_SEED"), 10, 64); err == nil {
		cfgSeed = v
	}
	if v := os.Getenv("VERIF_SHARD"); v != "" {
		parts := strings.Split(v, "/")
		if len(parts) == 2 {
			a, _ := strconv.Atoi(parts[0])
			b, _ := strconv.Atoi(parts[1])
			if b > 0 && a >= 0 && a < b {
				cfgShard, cfgShards = a, b
			}
		}
	}
	if v, err := strconv.ParseFloat(os.Getenv("VERIF_SCALE"), 64); err == nil && v > 0 {
		cfgScale = v
	}
	cfgFrag = os.Getenv("VERIF_FRAG")
	cfgReplay = os.Getenv("VERIF_REPLAY_OUT")
	cfgReplayIn = os.Getenv("VERIF_REPLAY")
}

func thorough() bool { return cfgTier == "thorough" }

// tier returns q in the quick tier and th in the thorough tier.
func tier(q, th int) int {
	if thorough() {
		return th
	}
	return q
}

// perShard splits a total case count over the shards (at least 1 each).
func perShard(total int) int {
	n := int(float64(total)*cfgScale) / cfgShards
	if n < 1 {
		n = 1
	}
	return n
}

func mix(parts ...uint64) uint64 {
	h := fnv.New64a()
	var b [8]byte
	for _, p := range parts {
		binary.LittleEndian.PutUint64(b[:], p)
		h.Write(b[:])
	}
	v := h.Sum64()
	if v == 0 {
		v = 1
	}
	return v
}

func strHash(s string) uint64 {
	h := fnv.New64a()
	h.Write([]byte(s))
	return h.Sum64()
}

// rapidCheck runs prop for `total` cases (split over shards) with a seed that is
// a pure function of VERIF_SEED, the shard and the sub-check name.
func rapidCheck(t *testing.T, name string, total int, prop func(*rapid.T)) {
	t.Helper()
	if t.Failed() {
		t.FailNow()
	}
	n := perShard(total)
	must(flag.Set("rapid.checks", strconv.Itoa(n)))
	must(flag.Set("rapid.seed", strconv.FormatUint(mix(cfgSeed, uint64(cfgShard), strHash(name)), 10)))
	must(flag.Set("rapid.nofailfile", "true"))
	must(flag.Set("rapid.shrinktime", "20s"))
	ev.request(name, n)
	before := ev.evaluations()
	rapid.Check(t, prop)
	ev.executed(name, int(ev.evaluations()-before))
}

func must(err error) {
	if err != nil {
		panic(err)
	}
}

// sub runs a sub-test and stops the whole test when it failed.
func sub(t *testing.T, name string, f func(t *testing.T)) {
	t.Helper()
	if !t.Run(name, f) {
		t.FailNow()
	}
}

// ---------------------------------------------------------------------------
// Evidence

type evidence struct {
	mu        sync.Mutex
	evals     int64
	labels    map[string]int64
	excluded  map[string]int64
	hashes    map[uint64]struct{}
	samples   map[string][]any
	notes     map[string]string
	requested map[string]int
	done      map[string]int
	known     []string
}

const maxHashes = 3_000_000

var ev = &evidence{
	labels:    map[string]int64{},
	excluded:  map[string]int64{},
	hashes:    map[uint64]struct{}{},
	samples:   map[string][]any{},
	notes:     map[string]string{},
	requested: map[string]int{},
	done:      map[string]int{},
}

func (e *evidence) evaluations() int64 {
	e.mu.Lock()
	defer e.mu.Unlock()
	return e.evals
}

func (e *evidence) request(name string, n int) {
	e.mu.Lock()
	e.requested[name] += n
	e.mu.Unlock()
}

func (e *evidence) executed(name string, n int) {
	e.mu.Lock()
	e.done[name] += n
	e.mu.Unlock()
}

// Case records one evaluated case. key identifies the case for the distinct
// count (only used when nontrivial).
func (e *evidence) Case(nontrivial bool, key string, labels ...string) {
	e.mu.Lock()
	e.evals++
	for _, l := range labels {
		e.labels[l]++
	}
	if nontrivial {
		e.labels["nontrivial"]++
		if len(e.hashes) < maxHashes {
			e.hashes[strHash(key)] = struct{}{}
		}
	}
	e.mu.Unlock()
}

// CaseH is Case with a precomputed 64-bit key.
func (e *evidence) CaseH(nontrivial bool, key uint64, labels ...string) {
	e.mu.Lock()
	e.evals++
	for _, l := range labels {
		e.labels[l]++
	}
	if nontrivial {
		e.labels["nontrivial"]++
		if len(e.hashes) < maxHashes {
			e.hashes[key] = struct{}{}
		}
	}
	e.mu.Unlock()
}

// AddEvals counts n more evaluated inputs (batched checks).
func (e *evidence) AddEvals(n int) {
	e.mu.Lock()
	e.evals += int64(n)
	e.mu.Unlock()
}

func (e *evidence) Label(l string) {
	e.mu.Lock()
	e.labels[l]++
	e.mu.Unlock()
}

func (e *evidence) Excluded(class string) {
	e.mu.Lock()
	e.excluded[class]++
	e.mu.Unlock()
}

// Sample keeps the first two samples of each class.
func (e *evidence) Sample(class string, v any) {
	e.mu.Lock()
	if len(e.samples[class]) < 2 && len(e.samples) <= 12 {
		e.samples[class] = append(e.samples[class], v)
	}
	e.mu.Unlock()
}

func (e *evidence) Note(k, v string) {
	e.mu.Lock()
	e.notes[k] = v
	e.mu.Unlock()
}

func (e *evidence) Known(line string) {
	e.mu.Lock()
	e.known = append(e.known, line)
	e.mu.Unlock()
}

func (e *evidence) flush() {
	if cfgFrag == "" {
		return
	}
	e.mu.Lock()
	defer e.mu.Unlock()
	hs := make([]uint64, 0, len(e.hashes))
	for h := range e.hashes {
		hs = append(hs, h)
	}
	sort.Slice(hs, func(i, j int) bool { return hs[i] < hs[j] })
	buf := make([]byte, 8*len(hs))
	for i, h := range hs {
		binary.LittleEndian.PutUint64(buf[8*i:], h)
	}
	_ = os.WriteFile(cfgFrag+".hashes", buf, 0o644)
	type sample struct {
		Class string `json:"class"`
		Case  any    `json:"case"`
	}
	var ss []sample
	classes := make([]string, 0, len(e.samples))
	for c := range e.samples {
		classes = append(classes, c)
	}
	sort.Strings(classes)
	for _, c := range classes {
		for _, v := range e.samples[c] {
			ss = append(ss, sample{c, v})
		}
	}
	out := map[string]any{
		"evaluations":   e.evals,
		"labels":        e.labels,
		"excluded":      e.excluded,
		"samples":       ss,
		"notes":         e.notes,
		"requested":     e.requested,
		"executed":      e.done,
		"known":         e.known,
		"hashes_capped": len(e.hashes) >= maxHashes,
	}
	b, err := json.MarshalIndent(out, "", " ")
	if err != nil {
		b = []byte(fmt.Sprintf(`{"error":%q}`, err.Error()))
	}
	_ = os.WriteFile(cfgFrag+".json", b, 0o644)
}

func TestMain(m *testing.M) {
	flag.Parse()
	code := m.Run()
	ev.flush()
	os.Exit(code)
}

// ---------------------------------------------------------------------------
// Failure reporting and replay

type replayFile struct {
	Property string          `json:"property"`
	Kind     string          `json:"kind"`
	Message  string          `json:"message"`
	Case     json.RawMessage `json:"case"`
}

// replayers maps a case kind to a function that re-executes the case and
// returns "" when the property holds on it.
var replayers = map[string]func(json.RawMessage) string{}

// register binds a case type to its checker, for replay.
func register[C any](kind string, check func(C) string) {
	replayers[kind] = func(raw json.RawMessage) string {
		var c C
		if err := json.Unmarshal(raw, &c); err != nil {
			return "replay: cannot decode case: " + err.Error()
		}
		return guarded(func() string { return check(c) })
	}
}

// guarded turns a panic of the code under test into a failure message.
func guarded(f func() string) (msg string) {
	defer func() {
		if r := recover(); r != nil {
			msg = hexRe.ReplaceAllString(fmt.Sprintf("PANIC: %v\n%s", r, trimStack(debug.Stack())), "")
		}
	}()
	return f()
}

func trimStack(b []byte) string {
	lines := strings.Split(string(b), "\n")
	var keep []string
	for _, l := range lines {
		if strings.Contains(l, "go-astisub") || strings.Contains(l, "/repo/") || strings.Contains(l, "astikit") || strings.Contains(l, "astits") {
			keep = append(keep, strings.TrimSpace(l))
		}
		if len(keep) >= 12 {
			break
		}
	}
	// no addresses: rapid requires the failure message to be identical when a case is re-run
	return hexRe.ReplaceAllString(strings.Join(keep, "\n"), "")
}

var hexRe = regexp.MustCompile(`\(?\+?0x[0-9a-f]+[^)\n]*\)?`)

type fataler interface {
	Fatalf(format string, args ...any)
	Helper()
}

// verdict runs check on c; on failure it writes the replay file (overwriting:
// rapid's last failing invocation is the shrunk one) and fails the test.
func verdict[C any](t fataler, property, kind string, c C, check func(C) string) {
	t.Helper()
	msg := guarded(func() string { return check(c) })
	if msg == "" {
		return
	}
	writeReplay(property, kind, c, msg)
	t.Fatalf("%s violated (%s): %s", property, kind, msg)
}

func writeReplay(property, kind string, c any, msg string) {
	if cfgReplay == "" {
		return
	}
	raw, err := json.Marshal(c)
	if err != nil {
		raw = []byte(`null`)
		msg += " (case not serialisable: " + err.Error() + ")"
	}
	b, _ := json.MarshalIndent(replayFile{Property: property, Kind: kind, Message: msg, Case: raw}, "", " ")
	_ = os.WriteFile(cfgReplay, b, 0o644)
}

// TestReplay re-executes the case stored in $VERIF_REPLAY without any random generation.
func TestReplay(t *testing.T) {
	if cfgReplayIn == "" {
		t.Skip("no VERIF_REPLAY")
	}
	// the witness of a known (unrepaired) finding is evaluated without its own exclusion; every other saved case
	// is evaluated exactly as the check evaluates generated cases
	strict := false
	for _, f := range loadFindings() {
		if f.Status == "known" && strings.HasSuffix(cfgReplayIn, f.Witness) {
			strict = true
		}
	}
	msg := replayOne(cfgReplayIn, strict)
	if msg != "" {
		t.Fatalf("replay %s: %s", cfgReplayIn, msg)
	}
}

// strictReplay: while a saved case is replayed, no known-finding exclusion applies
// (the property itself is evaluated on that case).
var strictReplay bool

func replayOne(path string, strict bool) string {
	strictReplay = strict
	defer func() { strictReplay = false }()
	b, err := os.ReadFile(path)
	if err != nil {
		return "cannot read: " + err.Error()
	}
	var rf replayFile
	if err := json.Unmarshal(b, &rf); err != nil {
		return "cannot decode: " + err.Error()
	}
	f, ok := replayers[rf.Kind]
	if !ok {
		return "unknown case kind " + rf.Kind
	}
	return f(rf.Case)
}

// ---------------------------------------------------------------------------
// Known findings (committed file /verif/known_findings.json; never written at run time)

type finding struct {
	Property string `json:"property"`
	ID       string `json:"id"`
	Status   string `json:"status"` // "known" | "fixed"
	Commit   string `json:"commit,omitempty"`
	What     string `json:"what"`
	Witness  string `json:"witness"` // path relative to /verif
}

var (
	findingsOnce sync.Once
	findings     []finding
)

func verifRoot() string {
	if v := os.Getenv("VERIF_ROOT"); v != "" {
		return v
	}
	return "/verif"
}

func loadFindings() []finding {
	findingsOnce.Do(func() {
		b, err := os.ReadFile(verifRoot() + "/known_findings.json")
		if err != nil {
			return
		}
		var f struct {
			Findings []finding `json:"findings"`
		}
		if json.Unmarshal(b, &f) == nil {
			findings = f.Findings
		}
	})
	return findings
}

// knownActive reports whether finding id is listed as a known (unrepaired) finding.
func knownActive(id string) bool {
	if strictReplay {
		return false
	}
	for _, f := range loadFindings() {
		if f.ID == id && f.Status == "known" {
			return true
		}
	}
	return false
}

// runWitnesses replays the witnesses of every finding of the property:
// known ones print KNOWN-FINDING while they still reproduce; fixed ones must pass.
func runWitnesses(t *testing.T, property string) {
	t.Helper()
	if cfgShard != 0 {
		return
	}
	for _, f := range loadFindings() {
		if f.Property != property || f.Witness == "" {
			continue
		}
		path := verifRoot() + "/" + f.Witness
		msg := replayOne(path, f.Status == "known")
		switch f.Status {
		case "known":
			if msg != "" {
				line := fmt.Sprintf("KNOWN-FINDING: property=%s %s [%s]", property, f.What, f.ID)
				fmt.Println(line)
				ev.Known(line)
			} else {
				ev.Note("finding-"+f.ID, "listed as known but its witness no longer fails")
			}
		case "fixed":
			ev.Label("regression-witness")
			if msg != "" {
				if cfgReplay != "" {
					if b, err := os.ReadFile(path); err == nil {
						var rf replayFile
						if json.Unmarshal(b, &rf) == nil {
							rf.Message = fmt.Sprintf("the witness of fixed finding %s fails (that finding is back, or the same input now fails for another reason): %s", f.ID, msg)
							b, _ = json.MarshalIndent(rf, "", " ")
						}
						_ = os.WriteFile(cfgReplay, b, 0o644)
					}
				}
				t.Fatalf("%s: the witness of fixed finding %s fails: %s", property, f.ID, msg)
			}
		}
	}
}

// alignCR grows a document (through grow, which lengthens a text that is rendered ahead of byte 200) so that one of its
// carriage returns becomes the last byte of a 4096-byte block - where a line scanner's buffer ends. It reports success.
func alignCR(t *rapid.T, render func() []byte, grow func(n int)) bool {
	b := render()
	var crs []int
	for i, c := range b {
		if c == '\r' && i > 200 {
			crs = append(crs, i)
		}
	}
	if len(crs) == 0 {
		return false
	}
	q := crs[rapid.IntRange(0, len(crs)-1).Draw(t, "alignedcr")]
	pad := (4095 - q%4096 + 4096) % 4096
	grow(pad)
	b2 := render()
	return len(b2) == len(b)+pad && b2[q+pad] == '\r' && (q+pad)%4096 == 4095
}

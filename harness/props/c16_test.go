package props

import (
	"bytes"
	"fmt"
	"os"
	"path/filepath"
	"reflect"
	"regexp"
	"sort"
	"strconv"
	"strings"
	"testing"
	"time"

	astisub "github.com/asticode/go-astisub"
	"pgregory.net/rapid"
)

// C16 - timestamp codec: truncating, canonical, monotone, self-inverse per format.
// Public API only: a batch of cues is written, the timing fields are cut out of
// the output with the harness's own field grammar, and the same bytes are read back.

type c16Case struct {
	Format   string  `json:"format"` // srt vtt ttml ssa stl25 stl30
	Instants []int64 `json:"instants_ns"`
	// STL only: the programme's start timecode in frames (the GSI TCP field); cue timecodes are relative to it
	TCPUnits int64 `json:"tcp_frames,omitempty"`
	// Meta > 0: the list carries metadata that has nothing to do with the rendering of instants (script timer and
	// resolution, timestamp map, frame rate / language / titles longer than their field)
	Meta int `json:"meta,omitempty"`
	// Text > 0: every third cue shows nothing (1: no line at all, 2: one line with one empty run, 3: one blank): its
	// boundaries are rendered and read back like any other cue's
	Text int `json:"text,omitempty"`
	// FileExt: written and read through the file-level helpers (Write / OpenFile) under this extension instead of the
	// format's writer and reader
	FileExt string `json:"file_ext,omitempty"`
	// IgnoreTCP (STL with a programme start): the file is read back with the option that ignores the programme start:
	// the cues come back at their absolute timecodes, the list has no programme start, and a second write renders the
	// same timecodes
	IgnoreTCP bool `json:"ignore_tcp,omitempty"`
	// Chain: every cue starts at the instant the cue before it ends (back-to-back cues): how an instant is rendered
	// does not depend on the neighbouring cues
	Chain bool `json:"chain,omitempty"`
	// DSC (STL): the display standard code of the list, "0" when empty; "-" = the list has none (the writer's default)
	DSC string `json:"dsc,omitempty"`
}

// ceilNs is the instant a reader assigns to u units of 1/perSecond s (rounded up to the next nanosecond).
func ceilNs(u, perSecond int64) int64 {
	return u/perSecond*1_000_000_000 + (u%perSecond*1_000_000_000+perSecond-1)/perSecond
}

func init() { register("c16", checkC16) }

var (
	c16SRTRe  = regexp.MustCompile(`(?m)^(\d{2,}):(\d{2}):(\d{2}),(\d{3}) --> (\d{2,}):(\d{2}):(\d{2}),(\d{3})$`)
	c16VTTRe  = regexp.MustCompile(`(?m)^(\d{2,}):(\d{2}):(\d{2})\.(\d{3}) --> (\d{2,}):(\d{2}):(\d{2})\.(\d{3})$`)
	c16TTMLRe = regexp.MustCompile(`<p begin="(\d{2,}):(\d{2}):(\d{2})\.(\d{3})" end="(\d{2,}):(\d{2}):(\d{2})\.(\d{3})">`)
	c16SSARe  = regexp.MustCompile(`(?m)^Dialogue: Marked=0,(\d{2,}):(\d{2}):(\d{2})\.(\d{2}),(\d{2,}):(\d{2}):(\d{2})\.(\d{2}),`)
)

// unitsOf returns the number of format units (ms, cs, frames) the fields denote, or an error for fields outside the grammar.
func unitsOf(f []string, perSecond int64) (int64, error) {
	h, _ := strconv.ParseInt(f[0], 10, 64)
	m, _ := strconv.ParseInt(f[1], 10, 64)
	s, _ := strconv.ParseInt(f[2], 10, 64)
	x, _ := strconv.ParseInt(f[3], 10, 64)
	if m > 59 || s > 59 || x >= perSecond {
		return 0, fmt.Errorf("field out of range in %v", f)
	}
	if len(f[0]) > 2 && f[0][0] == '0' {
		return 0, fmt.Errorf("hours with a superfluous leading zero in %v", f)
	}
	return ((h*60+m)*60+s)*perSecond + x, nil
}

func floorUnits(ns, perSecond int64) int64 {
	return ns/1_000_000_000*perSecond + ns%1_000_000_000*perSecond/1_000_000_000
}

func checkC16(c c16Case) string {
	n := len(c.Instants) / 2
	if n == 0 {
		return ""
	}
	if c.Chain {
		c.Instants = append([]int64(nil), c.Instants...)
		for i := 1; i < n; i++ {
			c.Instants[2*i] = c.Instants[2*i-1]
		}
	}
	s := astisub.NewSubtitles()
	for i := 0; i < n; i++ {
		s.Items = append(s.Items, &astisub.Item{StartAt: time.Duration(c.Instants[2*i]), EndAt: time.Duration(c.Instants[2*i+1]), Lines: []astisub.Line{{Items: []astisub.LineItem{{Text: "x"}}}}})
		if c.Text > 0 && c.Text <= 3 && i%3 == 1 {
			s.Items[i].Lines = [][]astisub.Line{nil, {{Items: []astisub.LineItem{{Text: ""}}}}, {{Items: []astisub.LineItem{{Text: " "}}}}}[c.Text-1]
		}
		if c.Text == 4 && i%3 == 1 {
			// a run carrying an inline timestamp (WebVTT) that lies after the cue's end, and one before its start: the
			// cue's boundaries are the cue's
			s.Items[i].Lines = []astisub.Line{{Items: []astisub.LineItem{{Text: "x", StartAt: s.Items[i].EndAt + 1500*time.Millisecond}, {Text: "y", StartAt: time.Millisecond}}}}
		}
	}
	restore := astisub.Now
	astisub.Now = func() time.Time { return time.Date(2021, 3, 4, 0, 0, 0, 0, time.UTC) }
	defer func() { astisub.Now = restore }()
	var perSecond int64 = 1000
	var write func(*astisub.Subtitles, *bytes.Buffer) error
	var read func([]byte) (*astisub.Subtitles, error)
	var re *regexp.Regexp
	switch c.Format {
	case "srt":
		write = func(s *astisub.Subtitles, b *bytes.Buffer) error { return s.WriteToSRT(b) }
		read = func(b []byte) (*astisub.Subtitles, error) { return astisub.ReadFromSRT(bytes.NewReader(b)) }
		re = c16SRTRe
	case "vtt":
		write = func(s *astisub.Subtitles, b *bytes.Buffer) error { return s.WriteToWebVTT(b) }
		read = func(b []byte) (*astisub.Subtitles, error) { return astisub.ReadFromWebVTT(bytes.NewReader(b)) }
		re = c16VTTRe
	case "ttml":
		write = func(s *astisub.Subtitles, b *bytes.Buffer) error {
			return s.WriteToTTML(b, astisub.WriteToTTMLWithIndentOption(""))
		}
		read = func(b []byte) (*astisub.Subtitles, error) { return astisub.ReadFromTTML(bytes.NewReader(b)) }
		re = c16TTMLRe
	case "ssa":
		s.Metadata = &astisub.Metadata{}
		perSecond = 100
		write = func(s *astisub.Subtitles, b *bytes.Buffer) error { return s.WriteToSSA(b) }
		read = func(b []byte) (*astisub.Subtitles, error) { return astisub.ReadFromSSA(bytes.NewReader(b)) }
		re = c16SSARe
	case "stl25", "stl30":
		perSecond = 25
		if c.Format == "stl30" {
			perSecond = 30
		}
		s.Metadata = &astisub.Metadata{Framerate: int(perSecond), STLDisplayStandardCode: "0", STLTimecodeStartOfProgramme: time.Duration(ceilNs(c.TCPUnits, perSecond))}
		if c.DSC != "" {
			s.Metadata.STLDisplayStandardCode = strings.TrimPrefix(c.DSC, "-")
		}
		write = func(s *astisub.Subtitles, b *bytes.Buffer) error { return s.WriteToSTL(b) }
		read = func(b []byte) (*astisub.Subtitles, error) {
			return astisub.ReadFromSTL(bytes.NewReader(b), astisub.STLOptions{IgnoreTimecodeStartOfProgramme: c.IgnoreTCP})
		}
	default:
		return "unknown format " + c.Format
	}
	if c.FileExt != "" {
		dir, err := os.MkdirTemp("", "c16file")
		if err != nil {
			return ""
		}
		defer os.RemoveAll(dir)
		n := 0
		write = func(s *astisub.Subtitles, b *bytes.Buffer) error {
			n++
			p := filepath.Join(dir, fmt.Sprintf("out%d.%s", n, c.FileExt))
			if err := s.Write(p); err != nil {
				return err
			}
			data, err := os.ReadFile(p)
			b.Write(data)
			return err
		}
		read = func(b []byte) (*astisub.Subtitles, error) {
			n++
			p := filepath.Join(dir, fmt.Sprintf("in%d.%s", n, c.FileExt))
			if err := os.WriteFile(p, b, 0o644); err != nil {
				return nil, err
			}
			return astisub.OpenFile(p)
		}
	}
	if c.Meta > 0 {
		if s.Metadata == nil {
			s.Metadata = &astisub.Metadata{}
		}
		long := "A title that is a good deal longer than thirty-two bytes, as titles are"
		switch c.Format {
		case "ssa":
			timer := []float64{50, 200, 99.5}[c.Meta%3]
			s.Metadata.SSATimer = &timer
			x := 384
			s.Metadata.SSAPlayResX = &x
			s.Metadata.Title = long
		case "vtt":
			s.Metadata.WebVTTTimestampMap = &astisub.WebVTTTimestampMap{Local: time.Duration(c.Meta) * time.Second, MpegTS: 900000}
		case "ttml":
			s.Metadata.Framerate, s.Metadata.Language, s.Metadata.Title = []int{25, 30, 24}[c.Meta%3], astisub.LanguageFrench, long
		case "stl25", "stl30":
			s.Metadata.Title, s.Metadata.STLOriginalEpisodeTitle, s.Metadata.STLTranslatorName = long, long, long
			s.Metadata.STLPublisher, s.Metadata.STLEditorContactDetails = long, long
			if c.Format == "stl25" && c.TCPUnits == 0 {
				// a frame rate EBU STL has no disk format code for (inherited from TTML, say): the file is a 25 fps file
				s.Metadata.Framerate = []int{24, 50, 60}[c.Meta%3]
			}
		}
	}
	var buf bytes.Buffer
	if err := write(s, &buf); err != nil {
		return fmt.Sprintf("%s writer failed: %v", c.Format, err)
	}
	out := buf.Bytes()
	// 0. the list itself written a second time gives the same bytes (the writer leaves it alone)
	var again bytes.Buffer
	if err := write(s, &again); err != nil || !bytes.Equal(again.Bytes(), out) {
		return fmt.Sprintf("%s: writing the same list a second time gives other bytes than the first time (err %v; first instants %v)", c.Format, err, c.Instants[:2])
	}
	// 1. rendered fields: within the grammar, equal to the floor of the instant
	rendered := make([]int64, 0, 2*n)
	if re != nil {
		ms := re.FindAllSubmatch(out, -1)
		if len(ms) != n {
			return fmt.Sprintf("%s: %d timing fields match the format's grammar, %d cues were written (first instants %v)", c.Format, len(ms), n, c.Instants[:2])
		}
		for i, m := range ms {
			for k := 0; k < 2; k++ {
				f := []string{string(m[1+4*k]), string(m[2+4*k]), string(m[3+4*k]), string(m[4+4*k])}
				u, err := unitsOf(f, perSecond)
				if err != nil {
					return fmt.Sprintf("%s: instant %d ns rendered as %v: %v", c.Format, c.Instants[2*i+k], f, err)
				}
				rendered = append(rendered, u)
			}
		}
	} else {
		if len(out) != 1024+128*n {
			return fmt.Sprintf("%s: output has %d bytes for %d cues", c.Format, len(out), n)
		}
		for i := 0; i < n; i++ {
			t := out[1024+128*i:]
			for k := 0; k < 2; k++ {
				b := t[5+4*k : 9+4*k]
				if b[1] > 59 || b[2] > 59 || int64(b[3]) >= perSecond {
					return fmt.Sprintf("%s: instant %d ns rendered as timecode %v (field out of range)", c.Format, c.Instants[2*i+k], b)
				}
				rendered = append(rendered, ((int64(b[0])*60+int64(b[1]))*60+int64(b[2]))*perSecond+int64(b[3]))
			}
		}
	}
	var tcpNs int64
	if re == nil {
		tcpNs = ceilNs(c.TCPUnits, perSecond)
		f := c.TCPUnits % perSecond
		sec := c.TCPUnits / perSecond
		if want := fmt.Sprintf("%02d%02d%02d%02d", sec/3600, sec/60%60, sec%60, f); string(out[256:264]) != want {
			return fmt.Sprintf("%s: programme start of %d frames (%d ns) rendered as %q in the GSI block, expected %q", c.Format, c.TCPUnits, tcpNs, out[256:264], want)
		}
	}
	for i, u := range rendered {
		want := floorUnits(c.Instants[i]+tcpNs, perSecond)
		if alt := floorUnits(c.Instants[i], perSecond) + c.TCPUnits; u == alt && tcpNs*perSecond != c.TCPUnits*1_000_000_000 {
			// the programme start itself is only representable to the nanosecond: both readings of "not after" are accepted
			want = alt
		}
		if u != want {
			return fmt.Sprintf("%s: instant %d ns rendered as %d units of 1/%d s, the latest representable instant not after it is %d", c.Format, c.Instants[i], u, perSecond, want)
		}
	}
	// monotone: later instants never render as earlier timestamps
	idx := make([]int, len(rendered))
	for i := range idx {
		idx[i] = i
	}
	sort.SliceStable(idx, func(a, b int) bool { return c.Instants[idx[a]] < c.Instants[idx[b]] })
	for k := 1; k < len(idx); k++ {
		if rendered[idx[k]] < rendered[idx[k-1]] {
			return fmt.Sprintf("%s: not monotone: %d ns renders as %d but the later %d ns renders as %d", c.Format, c.Instants[idx[k-1]], rendered[idx[k-1]], c.Instants[idx[k]], rendered[idx[k]])
		}
	}
	// 2. the reader maps the rendering back to that instant
	s2, err := read(out)
	if err != nil {
		return fmt.Sprintf("%s reader rejects the writer's output: %v", c.Format, err)
	}
	if len(s2.Items) != n {
		return fmt.Sprintf("%s: %d cues read back, %d written", c.Format, len(s2.Items), n)
	}
	for i, it := range s2.Items {
		for k, got := range []int64{int64(it.StartAt), int64(it.EndAt)} {
			u := rendered[2*i+k] - c.TCPUnits
			if c.IgnoreTCP {
				u = rendered[2*i+k]
			}
			// exact value of the rendering in ns: u / perSecond seconds
			lo := u / perSecond * 1_000_000_000
			rem := u % perSecond * 1_000_000_000 // / perSecond
			exactFloor := lo + rem/perSecond
			exact := rem%perSecond == 0
			ok := got == exactFloor
			if !exact && got == exactFloor+1 {
				ok = true // within a nanosecond (STL at 30 fps)
			}
			if !ok {
				return fmt.Sprintf("%s: rendering of %d ns (%d units of 1/%d s) read back as %d ns, expected %d", c.Format, c.Instants[2*i+k], u, perSecond, got, exactFloor)
			}
		}
	}
	// 3. a second write is identical to the first
	var buf2 bytes.Buffer
	if err := write(s2, &buf2); err != nil {
		return fmt.Sprintf("%s: second write failed: %v", c.Format, err)
	}
	o2 := buf2.Bytes()
	if c.Format == "stl25" || c.Format == "stl30" {
		// compare the timecodes (the GSI block legitimately differs: the reader fills metadata the first list did not have)
		for i := 0; i < n; i++ {
			if i == 0 && c.IgnoreTCP {
				if string(o2[256:264]) != "00000000" || !bytes.Equal(out[264:272], o2[264:272]) {
					return fmt.Sprintf("%s: the file read ignoring its programme start and written again has programme start / first in-cue %q, expected 00000000 and %q", c.Format, o2[256:272], out[264:272])
				}
			} else if i == 0 && !bytes.Equal(out[256:272], o2[256:272]) {
				return fmt.Sprintf("%s: second write renders the programme start and first cue as %q, the first as %q", c.Format, o2[256:272], out[256:272])
			}
			a, b := out[1024+128*i+5:1024+128*i+13], o2[1024+128*i+5:1024+128*i+13]
			if !bytes.Equal(a, b) {
				return fmt.Sprintf("%s: second write renders cue %d as %v, the first as %v (instants %d, %d ns)", c.Format, i, b, a, c.Instants[2*i], c.Instants[2*i+1])
			}
		}
	} else if c.Text > 0 && c.Text <= 3 {
		// a cue that shows nothing may come back with another line structure (no line / one empty line): the timing
		// lines of the second write are those of the first
		if a, b := re.FindAll(out, -1), re.FindAll(o2, -1); !reflect.DeepEqual(a, b) {
			return fmt.Sprintf("%s: the timing lines of the second write differ from those of the first (%d against %d)", c.Format, len(b), len(a))
		}
	} else if !bytes.Equal(out, o2) {
		d := 0
		for d < len(out) && d < len(o2) && out[d] == o2[d] {
			d++
		}
		lo := d - 60
		if lo < 0 {
			lo = 0
		}
		return fmt.Sprintf("%s: second write differs from the first at byte %d: %q vs %q", c.Format, d, clip(string(out[lo:]), 140), clip(string(o2[lo:]), 140))
	}
	return ""
}

var c16Formats = []string{"srt", "vtt", "ttml", "ssa", "stl25", "stl30"}

// runBatch checks a batch and, on failure, narrows it to the failing cue for the replay file.
func runBatch(t fataler, format string, instants []int64, tcp ...int64) {
	c := c16Case{Format: format, Instants: instants}
	if len(tcp) > 0 {
		c.TCPUnits = tcp[0]
	}
	ev.CaseH(true, mix(strHash(format), uint64(instants[0]), uint64(len(instants)), uint64(instants[len(instants)-1]), uint64(c.TCPUnits)), "format-"+format)
	if c.TCPUnits != 0 {
		ev.Label("stl-programme-start-nonzero")
	}
	ev.AddEvals(len(instants) - 1) // every instant of the batch is an evaluated input; distinct counts batches (conservative)
	head := instants
	if len(head) > 6 {
		head = head[:6]
	}
	ev.Sample("batch-"+format, map[string]any{"format": format, "instants_in_batch": len(instants), "first_instants_ns": head})
	msg := guarded(func() string { return checkC16(c) })
	if msg == "" {
		return
	}
	for i := 0; i+1 < len(instants); i += 2 {
		small := c16Case{Format: format, Instants: instants[i : i+2], TCPUnits: c.TCPUnits}
		if m := guarded(func() string { return checkC16(small) }); m != "" {
			verdict(t, "C16", "c16", small, checkC16)
		}
	}
	verdict(t, "C16", "c16", c, checkC16)
}

func TestC16(t *testing.T) {
	runWitnesses(t, "C16")
	const day = 24 * int64(time.Hour)
	const ms = int64(time.Millisecond)
	limit := func(format string) int64 {
		if format == "stl25" || format == "stl30" {
			return day
		}
		return 100 * int64(time.Hour)
	}

	// One list longer than any count field of a format can say (EBU STL counts its blocks on five digits): every
	// boundary is rendered and read back all the same.
	sub(t, "long-list", func(t *testing.T) {
		if cfgShard != 0 {
			return
		}
		var ins []int64
		for i := int64(0); i < 100001; i++ {
			ins = append(ins, i*800*ms, i*800*ms+400*ms)
		}
		ev.Label("list-of-100001-cues")
		runBatch(t, "stl25", ins)
		runBatch(t, "srt", ins)
	})

	// Boundary pools, every format: unit boundaries +-1 ns, hour values, frame boundaries
	sub(t, "boundaries", func(t *testing.T) {
		var total int
		for fi, format := range c16Formats {
			if fi%cfgShards != cfgShard {
				continue
			}
			var ins []int64
			add := func(v int64) {
				if v >= 0 && v < limit(format) {
					ins = append(ins, v)
				}
			}
			for _, h := range []int64{0, 1, 9, 10, 23, 24, 99} {
				for _, rest := range []int64{0, 1, ms - 1, ms, 999 * ms, 1000 * ms, 59999 * ms, 60000 * ms, 3599999 * ms, 10 * ms, 10*ms - 1, 40 * ms, 33333333, 33333334, 66666666, 66666667, 3599_999_999_999} {
					add(h*int64(time.Hour) + rest)
				}
			}
			// every second boundary of the day +-1 ns and the minute / hour boundaries among them
			step := int64(1)
			if !thorough() {
				step = 37
			}
			for s := int64(0); s < 86400; s += step {
				add(s*1_000_000_000 - 1)
				add(s * 1_000_000_000)
				add(s*1_000_000_000 + 1)
			}
			// every frame boundary of one minute (and of the whole day in thorough) at 25 and 30 fps, +-1 ns
			secs := int64(60)
			if thorough() {
				secs = 86400
			}
			for _, rate := range []int64{25, 30} {
				if format != fmt.Sprintf("stl%d", rate) && !(format == "srt" && rate == 30) {
					continue
				}
				for f := int64(0); f < secs*rate; f++ {
					fl := f / rate * 1_000_000_000
					x := fl + f%rate*1_000_000_000/rate
					add(x - 1)
					add(x)
					add(x + 1)
					add(x + 2)
				}
			}
			if len(ins)%2 == 1 {
				ins = append(ins, 0)
			}
			if format == "stl25" || format == "stl30" {
				// the same pool against programmes that do not start at zero (cue timecodes are then offset by the GSI TCP field)
				rate := int64(25)
				if format == "stl30" {
					rate = 30
				}
				short := ins
				if !thorough() && len(short) > 6000 {
					short = short[:6000]
				}
				for _, tcp := range []int64{1, 7, rate + 4, 10*3600*rate + 5, 3600*rate - 1, 86400*rate - 1} {
					runBatch(t, format, short, tcp)
					total += len(short)
				}
				ic := c16Case{Format: format, Instants: short[:len(short)/2*2], TCPUnits: 10*3600*rate + 5, IgnoreTCP: true}
				if len(ic.Instants) > 2000 {
					ic.Instants = ic.Instants[:2000]
				}
				ev.CaseH(true, mix(strHash(format), 994), "format-"+format, "read-back-ignoring-the-programme-start")
				ev.AddEvals(len(ic.Instants) - 1)
				verdict(t, "C16", "c16", ic, checkC16)
			}
			if format != "srt" {
				// the same instants on lists that carry metadata unrelated to timing
				short := ins
				if len(short) > 4000 {
					short = short[:4000]
				}
				for text := 1; text <= 4; text++ {
					if text == 4 && format != "vtt" {
						continue
					}
					tc := c16Case{Format: format, Instants: short[:len(short)/2*2], Text: text}
					if len(tc.Instants) > 600 {
						tc.Instants = tc.Instants[:600]
					}
					ev.CaseH(true, mix(strHash(format), uint64(text), 992), "format-"+format, "cues-that-show-nothing")
					ev.AddEvals(len(tc.Instants) - 1)
					verdict(t, "C16", "c16", tc, checkC16)
				}
				for _, ext := range map[string][]string{"srt": {"srt"}, "vtt": {"vtt"}, "ttml": {"ttml"}, "ssa": {"ssa", "ass", "ASS"}, "stl25": {"stl"}, "stl30": {"STL"}}[format] {
					// the hour values and unit boundaries through the file-level helpers, under every extension of the format
					fc := c16Case{Format: format, Instants: short[:len(short)/2*2], FileExt: ext}
					if len(fc.Instants) > 800 {
						fc.Instants = fc.Instants[:800]
					}
					ev.CaseH(true, mix(strHash(format+ext), 993), "format-"+format, "through-the-file-helpers")
					ev.AddEvals(len(fc.Instants) - 1)
					verdict(t, "C16", "c16", fc, checkC16)
				}
				for meta := 1; meta <= 3; meta++ {
					mc := c16Case{Format: format, Instants: short, Meta: meta}
					ev.CaseH(true, mix(strHash(format), uint64(meta), 991), "format-"+format, "unrelated-metadata")
					ev.AddEvals(len(short) - 1)
					total += len(short)
					verdict(t, "C16", "c16", mc, checkC16)
				}
			}
			for len(ins) > 0 {
				k := 100000
				if k > len(ins) {
					k = len(ins)
				}
				runBatch(t, format, ins[:k])
				total += k
				ins = ins[k:]
			}
		}
		ev.Note("boundary-pools", fmt.Sprintf("%d instants in this shard: hour values {0,1,9,10,23,24,99} x unit boundaries, every second of the day +-1 ns (stride 37 in quick), every frame boundary at 25/30 fps +-1,+2 ns (one minute in quick, the whole day in thorough)", total))
	})

	// The millisecond domain [0,24h): exhaustive in thorough, strided in quick.
	sub(t, "msdomain", func(t *testing.T) {
		stride := int64(997)
		if thorough() {
			stride = 1
		}
		const batch = 200000 // instants per document
		nBatches := (86_400_000/stride + batch - 1) / batch
		job := 0
		var total int64
		for _, format := range []string{"srt", "vtt", "ttml", "ssa"} {
			for b := int64(0); b < nBatches; b++ {
				if job%cfgShards == cfgShard {
					ins := make([]int64, 0, batch)
					for k := int64(0); k < batch; k++ {
						v := (b*batch + k) * stride
						if v >= 86_400_000 {
							break
						}
						ins = append(ins, v*ms)
					}
					if len(ins)%2 == 1 {
						ins = append(ins, ins[len(ins)-1])
					}
					if len(ins) > 0 {
						runBatch(t, format, ins)
						total += int64(len(ins))
					}
				}
				job++
			}
		}
		if stride == 1 {
			ev.Note("exhaustive-msdomain", "every instant at 1 ms resolution in [0,24h) for SubRip, WebVTT, TTML and SSA (86.4 M instants per format, split over the shards)")
		} else {
			ev.Note("msdomain-sample", fmt.Sprintf("every %d-th millisecond of [0,24h) for the four text formats (%d instants in this shard)", stride, total))
		}
		// k*10 ms +- 1 ns (centisecond boundaries), strided in quick
		cstride := int64(211)
		if thorough() {
			cstride = 1
		}
		job = 0
		for b := int64(0); b*50000*cstride < 8_640_000; b++ {
			if job%cfgShards == cfgShard {
				var ins []int64
				for k := int64(0); k < 50000; k++ {
					v := (b*50000 + k) * cstride
					if v >= 8_640_000 || v == 0 {
						continue
					}
					ins = append(ins, v*10*ms-1, v*10*ms+1)
				}
				if len(ins) > 0 {
					runBatch(t, "ssa", ins)
					if b%4 == 0 {
						runBatch(t, "vtt", ins)
					}
				}
			}
			job++
		}
	})

	// back-to-back cues (each starts where the one before ends), under every display standard for STL
	sub(t, "chains", func(t *testing.T) {
		if cfgShard != 0 {
			return
		}
		for _, format := range c16Formats {
			for _, dsc := range []string{"", "1", "2", "-"} {
				if dsc != "" && format != "stl25" && format != "stl30" {
					continue
				}
				for _, step := range []int64{1000 * nsMs, 2000 * nsMs, 40 * nsMs, 1234567891, 3600 * 1000 * nsMs} {
					var ins []int64
					for i := int64(0); i < 12; i++ {
						ins = append(ins, i*step, (i+1)*step)
					}
					c := c16Case{Format: format, Instants: ins, Chain: true, DSC: dsc}
					ev.Case(true, fmt.Sprintf("%v", c), "back-to-back-cues", "format-"+format)
					verdict(t, "C16", "c16", c, checkC16)
				}
			}
		}
	})

	rapidCheck(t, "C16/random", tier(300, 20000), func(rt *rapid.T) {
		format := rapid.SampledFrom(c16Formats).Draw(rt, "format")
		n := rapid.IntRange(1, 40).Draw(rt, "n")
		var ins []int64
		for i := 0; i < 2*n; i++ {
			ins = append(ins, rapid.Int64Range(0, limit(format)-1).Draw(rt, "instant"))
		}
		c := c16Case{Format: format, Instants: ins}
		if (format == "stl25" || format == "stl30") && rapid.Bool().Draw(rt, "hastcp") {
			rate := int64(25)
			if format == "stl30" {
				rate = 30
			}
			if rapid.Bool().Draw(rt, "smalltcp") {
				c.TCPUnits = rapid.Int64Range(1, 100*rate).Draw(rt, "tcp")
			} else {
				c.TCPUnits = rapid.Int64Range(1, 86400*rate-1).Draw(rt, "tcp")
			}
			ev.Label("stl-programme-start-nonzero")
			c.IgnoreTCP = rapid.IntRange(0, 2).Draw(rt, "ignoretcp") == 0
		}
		if rapid.IntRange(0, 3).Draw(rt, "meta") == 0 {
			c.Meta = rapid.IntRange(1, 3).Draw(rt, "metak")
			ev.Label("unrelated-metadata")
		}
		if rapid.IntRange(0, 3).Draw(rt, "textless") == 0 {
			c.Text = rapid.IntRange(1, 3).Draw(rt, "textk")
			ev.Label("cues-that-show-nothing")
		}
		if c.Chain = rapid.IntRange(0, 3).Draw(rt, "chain") == 0; c.Chain {
			ev.Label("back-to-back-cues")
		}
		if format == "stl25" || format == "stl30" {
			c.DSC = rapid.SampledFrom([]string{"", "", "1", "2", "-"}).Draw(rt, "dsc")
		}
		ev.Case(true, fmt.Sprintf("%v", c), "random", "format-"+format)
		if n <= 2 {
			ev.Sample("random", c)
		}
		verdict(rt, "C16", "c16", c, checkC16)
	})
}

package props

import (
	"fmt"
	"reflect"
	"sort"
	"testing"
	"time"

	astisub "github.com/asticode/go-astisub"
	"pgregory.net/rapid"
)

// C12 - Order is a stable sort by start; Merge is an ordered union, receiver wins.

type c12Case struct {
	A []cueSpec `json:"a"`
	B []cueSpec `json:"b"`
	// identifiers of the style / region definitions of each side
	AStyles  []string `json:"a_styles"`
	BStyles  []string `json:"b_styles"`
	ARegions []string `json:"a_regions"`
	BRegions []string `json:"b_regions"`
	// receiver built as &Subtitles{} (nil maps) instead of NewSubtitles()
	BareReceiver bool `json:"bare_receiver"`
	BareArgument bool `json:"bare_argument"`
	OrderOnly    bool `json:"order_only"`
	// BareDefs: the receiver's definitions are mere identifiers (no attributes, no parent)
	BareDefs bool `json:"bare_defs,omitempty"`
	// OddKeys: the argument's maps are keyed by something else than the identifiers (a list put together by hand); a
	// definition is what its ID field says
	OddKeys bool `json:"odd_keys,omitempty"`
	// VTT: both lists look like lists read from WebVTT files: a timestamp map each (different offsets) and style "a"
	// renamed to the identifier the WebVTT reader reserves for STYLE blocks, holding CSS
	VTT bool `json:"vtt,omitempty"`
	// Ghosts: the argument's last cue refers to a style and a region that neither list defines (a hand-built list):
	// the union of the definitions is the union of the two maps
	Ghosts bool `json:"ghosts,omitempty"`
}

func init() { register("c12", checkC12) }

func mkSide(cues []cueSpec, styles, regions []string, bare bool, tag string, bareDefs ...bool) (*astisub.Subtitles, []*astisub.Item) {
	var s *astisub.Subtitles
	if bare {
		s = &astisub.Subtitles{}
		if len(styles) > 0 {
			s.Styles = map[string]*astisub.Style{}
		}
		if len(regions) > 0 {
			s.Regions = map[string]*astisub.Region{}
		}
	} else {
		s = astisub.NewSubtitles()
	}
	for _, id := range styles {
		s.Styles[id] = &astisub.Style{ID: id, InlineStyle: &astisub.StyleAttributes{SSAFontName: tag + id}}
		if len(bareDefs) > 0 && bareDefs[0] {
			s.Styles[id].InlineStyle = nil
		}
	}
	for i := 1; i < len(styles); i++ {
		// inheritance inside each list: a style's parent is the previous style of its own list
		if len(bareDefs) == 0 || !bareDefs[0] {
			s.Styles[styles[i]].Style = s.Styles[styles[i-1]]
		}
	}
	for i, id := range regions {
		s.Regions[id] = &astisub.Region{ID: id, InlineStyle: &astisub.StyleAttributes{WebVTTWidth: tag + id}}
		if len(styles) > 0 {
			// a region refers to a style of its own list
			s.Regions[id].Style = s.Styles[styles[i%len(styles)]]
		}
		if len(bareDefs) > 0 && bareDefs[0] {
			s.Regions[id].InlineStyle = nil
		}
	}
	var items []*astisub.Item
	for i, c := range cues {
		it := &astisub.Item{StartAt: time.Duration(c.S), EndAt: time.Duration(c.E), Lines: textLines(c.T), Index: 7 + i}
		if len(styles) > 0 {
			it.Style = s.Styles[styles[i%len(styles)]]
		}
		if len(regions) > 0 {
			it.Region = s.Regions[regions[i%len(regions)]]
		}
		s.Items = append(s.Items, it)
		items = append(items, it)
	}
	return s, items
}

func checkC12(c c12Case) string {
	a, aItems := mkSide(c.A, c.AStyles, c.ARegions, c.BareReceiver, "A", c.BareDefs)
	if c.OrderOnly && c.Ghosts && len(aItems) > 0 {
		// (order cases reuse the flag) the list holds its first cue a second time, the same object
		c.A = append(append([]cueSpec(nil), c.A...), c.A[0])
		a.Items = append(a.Items, aItems[0])
		aItems = append(aItems, aItems[0])
	}
	if c.OrderOnly {
		snaps := make([]itemSnap, len(aItems))
		for i, it := range aItems {
			snaps[i] = snapItem(it)
		}
		a.Order()
		// expected: stable sort of indices by start
		order := make([]int, len(c.A))
		for i := range order {
			order[i] = i
		}
		sort.SliceStable(order, func(x, y int) bool { return c.A[order[x]].S < c.A[order[y]].S })
		if len(a.Items) != len(order) {
			return fmt.Sprintf("Order changed the number of cues: %d -> %d", len(order), len(a.Items))
		}
		for k, i := range order {
			if a.Items[k] != aItems[i] {
				return fmt.Sprintf("Order: position %d holds another cue than the stable sort (expected original #%d); in: %s out: %s", k, i, fmtSpecs(c.A), fmtItems(a.Items))
			}
			if int64(a.Items[k].StartAt) != c.A[i].S || int64(a.Items[k].EndAt) != c.A[i].E {
				return "Order changed a boundary"
			}
			if m := contentDiff(a.Items[k], snaps[i]); m != "" {
				return "Order: " + m
			}
		}
		// the caller then edits the list it owns through the public fields (same number of cues: boundaries exchanged,
		// two cues swapped) and orders it again
		if n := len(a.Items); n >= 2 {
			a.Items[0].StartAt, a.Items[n-1].StartAt = a.Items[n-1].StartAt+time.Millisecond, a.Items[0].StartAt
			a.Items[0].EndAt, a.Items[n-1].EndAt = a.Items[n-1].EndAt+time.Millisecond, a.Items[0].EndAt
			a.Items[0], a.Items[n/2] = a.Items[n/2], a.Items[0]
			edited := append([]*astisub.Item(nil), a.Items...)
			want := append([]*astisub.Item(nil), a.Items...)
			sort.SliceStable(want, func(x, y int) bool { return want[x].StartAt < want[y].StartAt })
			a.Order()
			if len(a.Items) != n {
				return "second Order changed the number of cues"
			}
			for k := range want {
				if a.Items[k] != want[k] {
					return fmt.Sprintf("Order after the caller edited the list in place: position %d holds another cue than the stable sort; before: %s after: %s", k, fmtItems(edited), fmtItems(a.Items))
				}
			}
		}
		return ""
	}
	b, bItems := mkSide(c.B, c.BStyles, c.BRegions, c.BareArgument, "B")
	if c.Ghosts && len(b.Items) > 0 {
		last := b.Items[len(b.Items)-1]
		last.Style = &astisub.Style{ID: "ghost", InlineStyle: &astisub.StyleAttributes{SSAFontName: "ghost"}}
		last.Region = &astisub.Region{ID: "ghost-region", InlineStyle: &astisub.StyleAttributes{WebVTTWidth: "1%"}}
	}
	if c.VTT {
		for k, side := range []*astisub.Subtitles{a, b} {
			side.Metadata = &astisub.Metadata{WebVTTTimestampMap: &astisub.WebVTTTimestampMap{Local: time.Duration(k) * 10 * time.Second, MpegTS: int64(900000 * (1 + 3*k))}}
			if st, ok := side.Styles["a"]; ok {
				delete(side.Styles, "a")
				st.ID = "astisub-webvtt-default-style-id"
				if st.InlineStyle == nil {
					st.InlineStyle = &astisub.StyleAttributes{}
				}
				st.InlineStyle.WebVTTStyles = []string{fmt.Sprintf("::cue { color: %s }", []string{"red", "lime"}[k])}
				side.Styles[st.ID] = st
			}
		}
	}
	aOwn := func() string {
		keep := &astisub.Subtitles{Styles: map[string]*astisub.Style{}, Regions: map[string]*astisub.Region{}, Metadata: a.Metadata}
		for id, v := range a.Styles {
			keep.Styles[id] = v
		}
		for id, v := range a.Regions {
			keep.Regions[id] = v
		}
		return canon(keep)
	}
	aDeep := aOwn()
	bMeta := canon(&astisub.Subtitles{Metadata: b.Metadata})
	if c.OddKeys {
		// keys taken from the other end of the identifier pool, so that a key may equal another definition's identifier
		rekey := map[string]string{"a": "d", "b": "zz", "c": "a", "d": "k-d"}
		if b.Styles != nil {
			m := map[string]*astisub.Style{}
			for id, v := range b.Styles {
				m[rekey[id]] = v
			}
			b.Styles = m
		}
		if b.Regions != nil {
			m := map[string]*astisub.Region{}
			for id, v := range b.Regions {
				m[rekey[id]] = v
			}
			b.Regions = m
		}
	}
	// snapshots
	aStyles, aRegions := map[string]*astisub.Style{}, map[string]*astisub.Region{}
	for k, v := range a.Styles {
		aStyles[k] = v
	}
	for k, v := range a.Regions {
		aRegions[k] = v
	}
	bStyles, bRegions := map[string]*astisub.Style{}, map[string]*astisub.Region{}
	for k, v := range b.Styles {
		bStyles[k] = v
	}
	for k, v := range b.Regions {
		bRegions[k] = v
	}
	bSnapItems := append([]*astisub.Item(nil), b.Items...)
	bSnaps := make([]itemSnap, len(bItems))
	for i, it := range bItems {
		bSnaps[i] = snapItem(it)
	}
	bNilStyles, bNilRegions := b.Styles == nil, b.Regions == nil
	bDeep := canon(&astisub.Subtitles{Styles: b.Styles, Regions: b.Regions})

	a.Merge(b)

	// expected items: stable sort of A ++ B by start
	type src struct {
		it   *astisub.Item
		s    int64
		from string
		idx  int
	}
	var all []src
	for i, it := range aItems {
		all = append(all, src{it, c.A[i].S, "A", i})
	}
	for i, it := range bItems {
		all = append(all, src{it, c.B[i].S, "B", i})
	}
	sort.SliceStable(all, func(x, y int) bool { return all[x].s < all[y].s })
	ctx := func() string {
		return fmt.Sprintf("A: %s B: %s merged: %s", fmtSpecs(c.A), fmtSpecs(c.B), fmtItems(a.Items))
	}
	if len(a.Items) != len(all) {
		return fmt.Sprintf("merged list has %d cues, expected %d; %s", len(a.Items), len(all), ctx())
	}
	for k, w := range all {
		if a.Items[k] != w.it {
			return fmt.Sprintf("merged position %d: expected %s#%d (stable order, A before B on ties); %s", k, w.from, w.idx, ctx())
		}
	}
	// maps: union, A wins
	for id, st := range aStyles {
		if a.Styles[id] != st {
			return fmt.Sprintf("receiver's style %q was replaced or lost", id)
		}
	}
	unionS, unionR := unionKeys(aStyles, nil), unionKeys(aRegions, nil)
	for _, st := range bStyles {
		unionS[st.ID] = true
		if _, clash := aStyles[st.ID]; clash {
			continue
		}
		if a.Styles[st.ID] != st {
			return fmt.Sprintf("argument's style %q missing from the merged styles", st.ID)
		}
	}
	if len(a.Styles) != len(unionS) {
		return fmt.Sprintf("merged styles have %d entries, union (by identifier) has %d", len(a.Styles), len(unionS))
	}
	for id, rg := range aRegions {
		if a.Regions[id] != rg {
			return fmt.Sprintf("receiver's region %q was replaced or lost", id)
		}
	}
	for _, rg := range bRegions {
		unionR[rg.ID] = true
		if _, clash := aRegions[rg.ID]; clash {
			continue
		}
		if a.Regions[rg.ID] != rg {
			return fmt.Sprintf("argument's region %q missing from the merged regions", rg.ID)
		}
	}
	if len(a.Regions) != len(unionR) {
		return fmt.Sprintf("merged regions have %d entries, union (by identifier) has %d", len(a.Regions), len(unionR))
	}
	// B unchanged
	if !reflect.DeepEqual(b.Items, bSnapItems) && !(len(b.Items) == 0 && len(bSnapItems) == 0) {
		return "argument's item list was modified; " + ctx()
	}
	for i, it := range bItems {
		if int64(it.StartAt) != c.B[i].S || int64(it.EndAt) != c.B[i].E {
			return "argument's cue boundaries were modified"
		}
		if m := contentDiff(it, bSnaps[i]); m != "" {
			return "argument's cue: " + m
		}
	}
	// A's definitions and metadata are the ones it had, to the last attribute
	keep := &astisub.Subtitles{Styles: map[string]*astisub.Style{}, Regions: map[string]*astisub.Region{}, Metadata: a.Metadata}
	for id := range aStyles {
		keep.Styles[id] = a.Styles[id]
	}
	for id := range aRegions {
		keep.Regions[id] = a.Regions[id]
	}
	if got := canon(keep); got != aDeep {
		return fmt.Sprintf("the receiver's own definitions or metadata changed in the merge\n--- before ---\n%s\n--- after ---\n%s", clip(aDeep, 700), clip(got, 700))
	}
	if got := canon(&astisub.Subtitles{Metadata: b.Metadata}); got != bMeta {
		return fmt.Sprintf("the argument's metadata changed in the merge\n--- before ---\n%s\n--- after ---\n%s", clip(bMeta, 400), clip(got, 400))
	}
	bUnchanged := func() string {
		if len(b.Styles) != len(bStyles) || len(b.Regions) != len(bRegions) || (b.Styles == nil) != bNilStyles || (b.Regions == nil) != bNilRegions {
			return "argument's maps were modified"
		}
		for id, st := range bStyles {
			if b.Styles[id] != st || (st.ID != id) != c.OddKeys {
				return "argument's style definitions were modified"
			}
		}
		for id, rg := range bRegions {
			if b.Regions[id] != rg || (rg.ID != id) != c.OddKeys {
				return "argument's region definitions were modified"
			}
		}
		if got := canon(&astisub.Subtitles{Styles: b.Styles, Regions: b.Regions}); got != bDeep {
			return fmt.Sprintf("argument's definitions were modified\n--- before ---\n%s\n--- after ---\n%s", clip(bDeep, 600), clip(got, 600))
		}
		return ""
	}
	if m := bUnchanged(); m != "" {
		return m
	}
	// a third list is merged into the receiver afterwards: the first argument has nothing to do with it
	third, _ := mkSide(c.A[:len(c.A)/2], []string{"third"}, []string{"third"}, false, "C")
	a.Merge(third)
	if a.Styles["third"] != third.Styles["third"] || a.Regions["third"] != third.Regions["third"] {
		return "definitions of a third list merged afterwards are missing from the receiver"
	}
	if m := bUnchanged(); m != "" {
		return "after a third list was merged into the receiver: " + m
	}
	return ""
}

func unionKeys[V any](a, b map[string]V) map[string]bool {
	u := map[string]bool{}
	for k := range a {
		u[k] = true
	}
	for k := range b {
		u[k] = true
	}
	return u
}

func TestC12(t *testing.T) {
	runWitnesses(t, "C12")
	cliCases(t, "C12", "merge")
	ids := []string{"a", "b", "c", "d", "A", "D"} // identifiers are case-sensitive
	genIDs := func(rt *rapid.T, label string) []string {
		var out []string
		for _, id := range ids {
			if rapid.IntRange(0, 2).Draw(rt, label+id) == 0 {
				out = append(out, id)
			}
		}
		return out
	}
	rapidCheck(t, "C12/order", tier(8000, 3200000), func(rt *rapid.T) {
		maxT := rapid.SampledFrom([]int64{5 * nsMs, 100 * nsMs, 3600 * 1000 * nsMs}).Draw(rt, "range")
		// sort.Slice is only unstable above 12 elements: lists of up to 40 cues with many equal starts
		maxN := rapid.SampledFrom([]int{10, 10, 40}).Draw(rt, "maxn")
		c := c12Case{A: genCues(rt, 0, maxN, maxT, opTexts), OrderOnly: true, AStyles: genIDs(rt, "as"), Ghosts: rapid.IntRange(0, 3).Draw(rt, "samecuetwice") == 0}
		ties, unordered := false, false
		seen := map[int64]bool{}
		for i, cu := range c.A {
			if seen[cu.S] {
				ties = true
			}
			seen[cu.S] = true
			if i > 0 && cu.S < c.A[i-1].S {
				unordered = true
			}
		}
		var ls []string
		if ties {
			ls = append(ls, "order-ties")
		}
		if unordered {
			ls = append(ls, "order-unordered")
		}
		ev.Case(ties && unordered, fmt.Sprintf("%v", c), ls...)
		if ties && unordered {
			ev.Sample("order", c)
		}
		verdict(rt, "C12", "c12", c, checkC12)
	})
	rapidCheck(t, "C12/merge", tier(12000, 4800000), func(rt *rapid.T) {
		maxT := rapid.SampledFrom([]int64{5 * nsMs, 100 * nsMs, 3600 * 1000 * nsMs}).Draw(rt, "range")
		c := c12Case{
			A:            genCues(rt, 0, rapid.SampledFrom([]int{6, 6, 20}).Draw(rt, "maxa"), maxT, opTexts),
			B:            genCues(rt, 0, rapid.SampledFrom([]int{6, 6, 20}).Draw(rt, "maxb"), maxT, opTexts),
			AStyles:      genIDs(rt, "as"),
			BStyles:      genIDs(rt, "bs"),
			ARegions:     genIDs(rt, "ar"),
			BRegions:     genIDs(rt, "br"),
			BareReceiver: rapid.IntRange(0, 3).Draw(rt, "bareA") == 0,
			BareArgument: rapid.IntRange(0, 3).Draw(rt, "bareB") == 0,
			BareDefs:     rapid.IntRange(0, 3).Draw(rt, "baredefs") == 0,
			OddKeys:      rapid.IntRange(0, 4).Draw(rt, "oddkeys") == 0,
		}
		c.VTT = !c.OddKeys && rapid.IntRange(0, 3).Draw(rt, "vtt") == 0
		c.Ghosts = rapid.IntRange(0, 3).Draw(rt, "ghosts") == 0
		if rapid.IntRange(0, 4).Draw(rt, "samefile") == 0 && len(c.A) > 0 {
			// two readings of the same file, or two files sharing cues: the argument's cues equal cues of the receiver
			// in every field (distinct objects all the same); with or without definitions
			c.B = append([]cueSpec(nil), c.A[:rapid.IntRange(1, len(c.A)).Draw(rt, "samen")]...)
			if rapid.Bool().Draw(rt, "nodefs") {
				c.AStyles, c.BStyles, c.ARegions, c.BRegions = nil, nil, nil, nil
			} else {
				c.BStyles, c.BRegions = c.AStyles, c.ARegions
			}
		}
		tie := false
		for _, x := range c.A {
			for _, y := range c.B {
				if x.S == y.S {
					tie = true
				}
			}
		}
		clash := false
		for _, x := range c.AStyles {
			for _, y := range c.BStyles {
				if x == y {
					clash = true
				}
			}
		}
		for _, x := range c.ARegions {
			for _, y := range c.BRegions {
				if x == y {
					clash = true
				}
			}
		}
		var ls []string
		if c.OddKeys && len(c.BStyles)+len(c.BRegions) > 0 {
			ls = append(ls, "argument-maps-keyed-by-something-else-than-the-ids")
		}
		if c.VTT {
			ls = append(ls, "both-lists-with-timestamp-map-and-default-style")
		}
		if tie {
			ls = append(ls, "merge-tie-across-lists")
		}
		if clash {
			ls = append(ls, "merge-id-clash")
		}
		if c.BareReceiver {
			ls = append(ls, "receiver-without-constructor")
			if len(c.BStyles)+len(c.BRegions) > 0 {
				ls = append(ls, "receiver-nil-maps-and-definitions-to-add")
			}
		}
		if len(c.A) == 0 || len(c.B) == 0 {
			ls = append(ls, "merge-empty-side")
		}
		nt := tie || clash || (c.BareReceiver && len(c.BStyles)+len(c.BRegions) > 0)
		ev.Case(nt, fmt.Sprintf("%v", c), ls...)
		if nt {
			ev.Sample("merge", c)
		}
		verdict(rt, "C12", "c12", c, checkC12)
	})
}

package props

import (
	"bytes"
	"fmt"
	"math/bits"
	"strings"

	astisub "github.com/asticode/go-astisub"
	"pgregory.net/rapid"
)

// C06 - teletext in MPEG-TS. The harness owns an encoder written from the
// standards (ETS 300 706 packets, Hamming 8/4 from the parity equations, odd
// parity, EN 300 472 data units, PES with PTS, PAT/PMT with CRC-32/MPEG) and a
// ground-truth page schedule; the library only reads.

// ---------------------------------------------------------------------------
// Bit level

// ham84 encodes a 4-bit value with the Hamming 8/4 code of ETS 300 706 (8.2)
// and returns the byte as it appears in a PES data unit (bits reversed).
func ham84(d uint8) byte {
	d1, d2, d3, d4 := d&1, d>>1&1, d>>2&1, d>>3&1
	p1 := 1 ^ d1 ^ d3 ^ d4
	p2 := 1 ^ d1 ^ d2 ^ d4
	p3 := 1 ^ d1 ^ d2 ^ d3
	p4 := 1 ^ p1 ^ d1 ^ p2 ^ d2 ^ p3 ^ d3 ^ d4
	v := p1 | d1<<1 | p2<<2 | d2<<3 | p3<<4 | d3<<5 | p4<<6 | d4<<7
	return bits.Reverse8(v)
}

// oddPar sets bit 7 so that the byte has odd parity; bad=true produces even parity (an error).
func oddPar(c byte, bad bool) byte {
	c &= 0x7f
	even := bits.OnesCount8(c)%2 == 0
	if even != bad {
		c |= 0x80
	}
	return bits.Reverse8(c)
}

func crc32mpeg(b []byte) uint32 {
	crc := uint32(0xffffffff)
	for _, x := range b {
		crc ^= uint32(x) << 24
		for i := 0; i < 8; i++ {
			if crc&0x80000000 != 0 {
				crc = crc<<1 ^ 0x04C11DB7
			} else {
				crc <<= 1
			}
		}
	}
	return crc
}

// ---------------------------------------------------------------------------
// TS / PSI / PES

type tsMux struct {
	out bytes.Buffer
	cc  map[uint16]uint8
}

func newTSMux() *tsMux { return &tsMux{cc: map[uint16]uint8{}} }

func (m *tsMux) packets(pid uint16, payload []byte) {
	first := true
	for len(payload) > 0 {
		var p [188]byte
		p[0] = 0x47
		p[1] = byte(pid >> 8 & 0x1f)
		if first {
			p[1] |= 0x40
		}
		p[2] = byte(pid)
		cc := m.cc[pid]
		m.cc[pid] = (cc + 1) & 0xf
		n := len(payload)
		if n >= 184 {
			p[3] = 0x10 | cc
			copy(p[4:], payload[:184])
			payload = payload[184:]
		} else {
			p[3] = 0x30 | cc
			afl := 183 - n
			p[4] = byte(afl)
			if afl > 0 {
				p[5] = 0
				for i := 6; i < 5+afl; i++ {
					p[i] = 0xff
				}
			}
			copy(p[5+afl:], payload)
			payload = nil
		}
		m.out.Write(p[:])
		first = false
	}
}

func psiSection(tableID byte, ext uint16, body []byte) []byte {
	l := 5 + len(body) + 4
	s := []byte{tableID, 0xb0 | byte(l>>8), byte(l), byte(ext >> 8), byte(ext), 0xc1, 0, 0}
	s = append(s, body...)
	c := crc32mpeg(s)
	s = append(s, byte(c>>24), byte(c>>16), byte(c>>8), byte(c))
	return append([]byte{0}, s...) // pointer_field
}

type esEntry struct {
	streamType byte
	pid        uint16
	teletext   bool
	descKind   int // how the teletext PID is announced (see ttxStream.DescKind)
}

func pmtBody(pcrPID uint16, es []esEntry) []byte {
	b := []byte{0xe0 | byte(pcrPID>>8), byte(pcrPID), 0xf0, 0x00}
	for _, e := range es {
		var desc []byte
		if e.teletext {
			// teletext_descriptor: tag 0x56, one entry: language, type 0x02 (subtitle page), magazine 1, page 0x88
			desc = []byte{0x56, 0x05, 'e', 'n', 'g', 0x02<<3 | 0x01, 0x88}
			switch e.descKind {
			case 1:
				// announces an initial teletext page only (type 0x01), no subtitle page
				desc = []byte{0x56, 0x05, 'e', 'n', 'g', 0x01<<3 | 0x01, 0x00}
			case 2:
				// VBI teletext descriptor (tag 0x46), same layout
				desc = []byte{0x46, 0x05, 'e', 'n', 'g', 0x02<<3 | 0x01, 0x88}
			case 3:
				// two entries: an additional information page and a page for the hearing impaired
				desc = []byte{0x56, 0x0a, 'e', 'n', 'g', 0x03<<3 | 0x01, 0x00, 'f', 'r', 'a', 0x05<<3 | 0x02, 0x77}
			case 4:
				// no entry at all
				desc = []byte{0x56, 0x00}
			}
		}
		b = append(b, e.streamType, 0xe0|byte(e.pid>>8), byte(e.pid), 0xf0|byte(len(desc)>>8), byte(len(desc)))
		b = append(b, desc...)
	}
	return b
}

func pesPacket(streamID byte, pts int64, data []byte) []byte {
	h := []byte{0, 0, 1, streamID, 0, 0, 0x84, 0x80, 0x24}
	p := []byte{0x21 | byte(pts>>29&0x0e), byte(pts >> 22), 0x01 | byte(pts>>14&0xfe), byte(pts >> 7), 0x01 | byte(pts<<1&0xfe)}
	h = append(h, p...)
	for len(h) < 9+0x24 {
		h = append(h, 0xff)
	}
	h = append(h, data...)
	l := len(h) - 6
	h[4], h[5] = byte(l>>8), byte(l)
	return h
}

// ---------------------------------------------------------------------------
// Teletext packets

// dataUnit wraps a 42-byte teletext packet (MRAG + 40 data bytes) into an EN 300 472 data unit.
func dataUnit(id byte, mag, y uint8, data []byte) []byte {
	u := []byte{id, 0x2c, 0xc0 | 0x20 | 0x07, 0xe4}
	a := mag&7 | (y&1)<<3
	b := y >> 1
	u = append(u, ham84(a), ham84(b))
	u = append(u, data...)
	if len(u) != 46 {
		panic(fmt.Sprintf("data unit of %d bytes", len(u)))
	}
	return u
}

func stuffingUnit() []byte {
	u := make([]byte, 46)
	u[0], u[1] = 0xff, 0x2c
	for i := 2; i < 46; i++ {
		u[i] = 0xff
	}
	return u
}

type ttxHeader struct {
	Mag      uint8 `json:"mag"`   // 1..8
	Tens     uint8 `json:"tens"`  // 0..15
	Units    uint8 `json:"units"` // 0..15
	Subtitle bool  `json:"subtitle"`
	Erase    bool  `json:"erase"`
	Serial   bool  `json:"serial"`
	// Newsflash (C5): another kind of boxed page, not a subtitle page
	Newsflash bool `json:"newsflash,omitempty"`
	// National option bits C12, C13, C14 as the standard's table lists them
	C12 uint8 `json:"c12"`
	C13 uint8 `json:"c13"`
	C14 uint8 `json:"c14"`
	// Ctl: the control bits C7 (suppress header), C8 (update indicator), C9 (interrupted sequence), C10 (inhibit
	// display) as a nibble; Sub: the page sub-code S1..S4 (4+3+4+2 bits). None of them says which rows the instance has
	Ctl uint8  `json:"ctl,omitempty"`
	Sub uint16 `json:"sub,omitempty"`
}

func headerUnit(h ttxHeader, id byte) []byte {
	var c4, c6, c11 uint8
	if h.Erase {
		c4 = 8
	}
	if h.Subtitle {
		c6 = 8
	}
	if h.Newsflash {
		c6 |= 4
	}
	if h.Serial {
		c11 = 1
	}
	s1, s2, s3, s4 := uint8(h.Sub&15), uint8(h.Sub>>4&7), uint8(h.Sub>>7&15), uint8(h.Sub>>11&3)
	d := []byte{ham84(h.Units), ham84(h.Tens), ham84(s1), ham84(s2 | c4), ham84(s3), ham84(s4 | c6), ham84(h.Ctl & 15), ham84(c11 | h.C12<<1 | h.C13<<2 | h.C14<<3)}
	for i := 0; i < 32; i++ {
		d = append(d, oddPar(' ', false))
	}
	return dataUnit(id, h.Mag&7, 0, d)
}

func rowUnit(mag, y uint8, cells []byte, badParity map[int]bool, id byte) []byte {
	d := make([]byte, 40)
	for i := range d {
		c := byte(' ')
		if i < len(cells) {
			c = cells[i]
		}
		d[i] = oddPar(c, badParity[i])
	}
	return dataUnit(id, mag&7, y, d)
}

// ham2418 encodes 18 data bits with the Hamming 24/18 code of ETS 300 706 (8.3); the three bytes are returned as they
// appear in a PES data unit (bits reversed).
func ham2418(d uint32) [3]byte {
	bit := func(n int) uint32 { return d >> (n - 1) & 1 } // D1..D18
	x := func(ns ...int) uint32 {
		v := uint32(1)
		for _, n := range ns {
			v ^= bit(n)
		}
		return v
	}
	p1 := x(1, 2, 4, 5, 7, 9, 11, 12, 14, 16, 18)
	p2 := x(1, 3, 4, 6, 7, 10, 11, 13, 14, 17, 18)
	p3 := x(2, 3, 4, 8, 9, 10, 11, 15, 16, 17, 18)
	p4 := x(5, 6, 7, 8, 9, 10, 11)
	p5 := x(12, 13, 14, 15, 16, 17, 18)
	b1 := p1 | p2<<1 | bit(1)<<2 | p3<<3 | bit(2)<<4 | bit(3)<<5 | bit(4)<<6 | p4<<7
	b2 := bit(5) | bit(6)<<1 | bit(7)<<2 | bit(8)<<3 | bit(9)<<4 | bit(10)<<5 | bit(11)<<6 | p5<<7
	b3 := bit(12) | bit(13)<<1 | bit(14)<<2 | bit(15)<<3 | bit(16)<<4 | bit(17)<<5 | bit(18)<<6
	// P6: overall odd parity
	ones := bits.OnesCount32(b1) + bits.OnesCount32(b2) + bits.OnesCount32(b3)
	if ones%2 == 0 {
		b3 |= 1 << 7
	}
	return [3]byte{bits.Reverse8(byte(b1)), bits.Reverse8(byte(b2)), bits.Reverse8(byte(b3))}
}

// designationUnit builds an X/28/0 format 1 (y=28) or M/29/0 (y=29) packet that designates the Latin G0/G2 sets with
// the national option sub-set given by C12-C14 (table 32: bits 14-11 = 0000, bits 10-8 = C12 C13 C14); all other
// triplets are zero.
func designationUnit(mag, y uint8, c12, c13, c14 uint8, family uint32, code ...uint8) []byte {
	// page function 0 (bits 1-4), page coding 0 (bits 5-7), set designation: bits 14-11 family, bits 10-8 national option
	t1 := family<<10 | uint32(c12)<<9 | uint32(c13)<<8 | uint32(c14)<<7
	dc := uint8(0) // designation code: 0, or 4 (the level 3.5 twin of the packet, same layout)
	if len(code) > 0 {
		dc = code[0]
	}
	d := []byte{ham84(dc)}
	tr := ham2418(t1)
	d = append(d, tr[0], tr[1], tr[2])
	z := ham2418(0)
	for i := 0; i < 12; i++ {
		d = append(d, z[0], z[1], z[2])
	}
	return dataUnit(0x03, mag&7, y, d)
}

// enhancementUnit builds an X/26, X/27, X/28, M/29 or 8/30 packet with a designation code and arbitrary triplet bytes.
func enhancementUnit(mag, y, designation uint8) []byte {
	d := []byte{ham84(designation)}
	for i := 0; i < 39; i++ {
		d = append(d, byte(0x15+i*7))
	}
	return dataUnit(0x03, mag&7, y, d)
}

// ---------------------------------------------------------------------------
// National option sub-sets, typed from ETS 300 706 table 36 (positions 23 24 40 5B 5C 5D 5E 5F 60 7B 7C 7D 7E).
// Keyed by the bits C12 C13 C14 in the order of table 32.

var natPositions = []byte{0x23, 0x24, 0x40, 0x5b, 0x5c, 0x5d, 0x5e, 0x5f, 0x60, 0x7b, 0x7c, 0x7d, 0x7e}

var natOptions = map[[3]uint8][]string{
	{0, 0, 0}: {"£", "$", "@", "←", "½", "→", "↑", "#", "―", "¼", "‖", "¾", "÷"}, // English
	{0, 0, 1}: {"#", "$", "§", "Ä", "Ö", "Ü", "^", "_", "°", "ä", "ö", "ü", "ß"}, // German
	{0, 1, 0}: {"#", "¤", "É", "Ä", "Ö", "Å", "Ü", "_", "é", "ä", "ö", "å", "ü"}, // Swedish/Finnish/Hungarian
	{0, 1, 1}: {"£", "$", "é", "°", "ç", "→", "↑", "#", "ù", "à", "ò", "è", "ì"}, // Italian
	{1, 0, 0}: {"é", "ï", "à", "ë", "ê", "ù", "î", "#", "è", "â", "ô", "û", "ç"}, // French
	{1, 0, 1}: {"ç", "$", "¡", "á", "é", "í", "ó", "ú", "¿", "ü", "ñ", "è", "à"}, // Portuguese/Spanish
	{1, 1, 0}: {"#", "ů", "č", "ť", "ž", "ý", "í", "ř", "é", "á", "ě", "ú", "š"}, // Czech/Slovak
	// second Latin row of table 32 (designation bits 14-11 = 0001) with C12-C14 = 000; pseudo-key, only reachable
	// through an X/28 or M/29 designation
	natPolishKey: {"#", "ń", "ą", "Ż", "Ś", "Ł", "ć", "ó", "ę", "ż", "ś", "ł", "ź"},
}

var natPolishKey = [3]uint8{9, 9, 9}

// glyphAlternatives: arrows and bars of the standard that de-facto decoders (telxcc) approximate.
var glyphAlternatives = map[string]string{"←": "«", "→": "»", "↑": "^", "―": "-", "‖": "¦", "Ż": "Ƶ"}

// ttxDecode gives the text a row of cells denotes under a national option, and the same text
// with the de-facto approximations.
func ttxDecode(cells string, opt [3]uint8) (std, alt string) {
	sub := natOptions[opt]
	var a, b strings.Builder
	for i := 0; i < len(cells); i++ {
		c := cells[i]
		s := string(rune(c))
		for k, p := range natPositions {
			if p == c {
				s = sub[k]
			}
		}
		a.WriteString(s)
		if x, ok := glyphAlternatives[s]; ok {
			b.WriteString(x)
		} else {
			b.WriteString(s)
		}
	}
	return a.String(), b.String()
}

// ---------------------------------------------------------------------------
// Schedule model

type ttxSeg struct {
	Codes []byte `json:"codes"` // colour (0..7) / size (0x0c..0x0f) codes in front of the text
	Text  string `json:"text"`  // G0 characters 0x20..0x7e
	// ReboxAt > 0: the box is closed after that many characters of Text and opened again ahead of the rest, with Unboxed
	// (text outside any box: not part of the subtitle) in between; no colour or size code is involved, so the run goes on
	ReboxAt int    `json:"rebox_at,omitempty"`
	Unboxed string `json:"unboxed,omitempty"`
}

type ttxRow struct {
	Y         uint8    `json:"y"`
	Pre       []byte   `json:"pre"` // codes before the start box
	Segs      []ttxSeg `json:"segs"`
	BadParity []int    `json:"bad_parity,omitempty"` // cell indexes transmitted with a parity error
}

// cells lays the row out: pre codes, start box x2, segments, end box x2.
func (r ttxRow) cells() []byte {
	c := append([]byte(nil), r.Pre...)
	c = append(c, 0x0b, 0x0b)
	for _, s := range r.Segs {
		c = append(c, s.Codes...)
		if s.ReboxAt > 0 && s.ReboxAt < len(s.Text) {
			c = append(c, s.Text[:s.ReboxAt]...)
			c = append(c, 0x0a, 0x0a)
			c = append(c, s.Unboxed...)
			c = append(c, 0x0b, 0x0b)
			c = append(c, s.Text[s.ReboxAt:]...)
			continue
		}
		c = append(c, s.Text...)
	}
	return append(c, 0x0a, 0x0a)
}

type ttxInstance struct {
	PTS     int64    `json:"pts"`
	Rows    []ttxRow `json:"rows"` // empty: erase-only instance
	C12     uint8    `json:"c12"`
	C13     uint8    `json:"c13"`
	C14     uint8    `json:"c14"`
	SplitAt int      `json:"split_at"` // >0: rows from this index on go into a second PES with a later PTS
	// PackWithNext: the instance is carried in the PES packet of the next instance (its presentation time is that packet's)
	PackWithNext bool `json:"pack_with_next,omitempty"`
	// NoFlag: the header of this instance does not carry the subtitle flag (C6). Only the choice of a page when none is
	// given looks at that flag: an instance of the page being read is an instance all the same
	NoFlag bool `json:"no_subtitle_flag,omitempty"`
	// NoErase: the header does not carry the erase flag (C4). An instance shows the rows sent with it, whatever the flag
	NoErase bool `json:"no_erase_flag,omitempty"`
	// Ctl, Sub: control bits C7..C10 and page sub-code of this instance's header (see ttxHeader)
	Ctl uint8  `json:"ctl,omitempty"`
	Sub uint16 `json:"sub,omitempty"`
}

type ttxStream struct {
	Mag       uint8         `json:"mag"`
	Tens      uint8         `json:"tens"`
	Units     uint8         `json:"units"`
	Serial    bool          `json:"serial"`
	Instances []ttxInstance `json:"instances"`
	// multiplex choices
	OtherPIDFirst bool `json:"other_pid_first"` // PMT lists non-teletext streams first
	SecondTTXPID  bool `json:"second_ttx_pid"`  // a second teletext PID carrying the same page number with other text
	// SecondLower: that second PID is numerically lower than the first one listed ("first" is the PMT's order)
	SecondLower   bool `json:"second_pid_lower,omitempty"`
	PMTRepeat     bool `json:"pmt_repeat"`
	Stuffing      bool `json:"stuffing"`
	NonSubtitle   bool `json:"non_subtitle"` // data units 0x02 carrying look-alike packets
	Enhancement   bool `json:"enhancement"`  // X/26, X/27, 8/30 and X/28, M/29 of other magazines
	Filler        bool `json:"filler"`       // 0xFF time-filling headers
	HexDistractor bool `json:"hex_distractor"`
	SamePageOther bool `json:"same_page_other_mag"` // parallel mode only
	// DescKind: how the PMT announces the (first) teletext PID: 0 teletext descriptor with a subtitle page, 1 initial page
	// only, 2 VBI teletext descriptor, 3 two entries of other types, 4 descriptor without entries. It is the first
	// teletext PID of the PMT in every case.
	DescKind int `json:"desc_kind,omitempty"`
	// PrivateData: packets of an unrelated PID holding private data follow each PES packet of the teletext PID
	PrivateData bool `json:"private_data,omitempty"`
	// ViaFile: also read the stream from a file through Open
	ViaFile     bool  `json:"via_file,omitempty"`
	Designation int   `json:"designation"` // 1: X/28/0 after each header, 2: M/29/0 before each header, designating the set the header already selects
	LeadIn      int64 `json:"lead_in"`     // PTS of a PES sent before the first instance (sets the time origin); 0 none
	LeadOut     int64 `json:"lead_out"`    // extra PTS after the last instance
	// reader options
	OptPage bool `json:"opt_page"`
	OptPID  bool `json:"opt_pid"`
}

const (
	ttxPID   = 0x101
	ttxPID2  = 0x102
	videoPID = 0x100
	pmtPID   = 0x1000
)

func (s ttxStream) pid2() uint16 {
	if s.SecondLower {
		return 0x0f1
	}
	return ttxPID2
}

func (s ttxStream) pageOption() int {
	m := int(s.Mag)
	return m*100 + int(s.Tens)*10 + int(s.Units)
}

// render assembles the transport stream and returns it with the ground truth.
func (s ttxStream) render() ([]byte, []ttxExpCue) {
	m := newTSMux()
	es := []esEntry{{0x06, ttxPID, true, s.DescKind}}
	if s.SecondTTXPID {
		es = append(es, esEntry{0x06, s.pid2(), true, 0})
	}
	if s.OtherPIDFirst {
		es = append([]esEntry{{0x02, videoPID, false, 0}, {0x06, 0x103, false, 0}}, es...)
	}
	tables := func() {
		m.packets(0, psiSection(0, 1, []byte{0, 1, 0xe0 | byte(pmtPID>>8), byte(pmtPID & 0xff)}))
		m.packets(pmtPID, psiSection(2, 1, pmtBody(ttxPID, es)))
	}
	tables()
	var minPTS, maxPTS int64 = -1, -1
	seen := func(p int64) {
		if minPTS < 0 || p < minPTS {
			minPTS = p
		}
		if p > maxPTS {
			maxPTS = p
		}
	}
	send := func(pid uint16, pts int64, units ...[]byte) {
		// data identifier: any of the EBU values 0x10..0x1f, a function of the packet's presentation time
		d := []byte{0x10 | byte(uint64(pts)*0x9E3779B97F4A7C15>>60)}
		for _, u := range units {
			d = append(d, u...)
		}
		for (len(d)+45)%184 != 0 {
			d = append(d, stuffingUnit()...)
		}
		m.packets(pid, pesPacket(0xbd, pts, d))
		if pid == ttxPID {
			seen(pts)
		}
	}
	sel := func(in ttxInstance) ttxHeader {
		return ttxHeader{Mag: s.Mag, Tens: s.Tens, Units: s.Units, Subtitle: !in.NoFlag, Erase: !in.NoErase, Serial: s.Serial, C12: in.C12, C13: in.C13, C14: in.C14, Ctl: in.Ctl, Sub: in.Sub}
	}
	otherMag := s.Mag%8 + 1
	distractorText := func(y uint8, txt string) []byte {
		return rowUnit(otherMag, y, append(append([]byte{0x0b, 0x0b}, txt...), 0x0a, 0x0a), nil, 0x03)
	}
	if s.LeadIn > 0 {
		// a PES on the teletext PID before the first instance: stuffing, and a page without the subtitle flag that
		// must not be picked when the page is auto-detected (nor contribute when it is given)
		early := ttxHeader{Mag: s.Mag, Tens: (s.Tens + 3) % 10, Units: (s.Units + 1) % 10, Serial: s.Serial, Newsflash: s.LeadIn%2 == 0}
		send(ttxPID, s.LeadIn, stuffingUnit(), headerUnit(early, 0x03), rowUnit(s.Mag, 3, append(append([]byte{0x0b, 0x0b}, "NOT A SUBTITLE PAGE"...), 0x0a, 0x0a), nil, 0x03))
	}
	if s.OtherPIDFirst {
		// video PES on another PID with an earlier PTS must not move the time origin
		m.packets(videoPID, pesPacket(0xe0, 1, []byte{0, 0, 1, 0xb3, 1, 2, 3}))
	}
	var exp []ttxExpCue
	var headers []int64
	var carry [][]byte
	var pending []int
	for ii, in := range s.Instances {
		if s.PMTRepeat && ii > 0 {
			tables()
		}
		units := [][]byte{}
		if s.Filler {
			units = append(units, headerUnit(ttxHeader{Mag: otherMag, Tens: 0xf, Units: 0xf, Serial: s.Serial}, 0x03))
		}
		if s.Designation == 2 {
			units = append(units, designationUnit(s.Mag, 29, in.C12, in.C13, in.C14, 0))
		}
		if s.Designation == 4 && ii == 0 || s.Designation == 5 {
			// the magazine's default character set is the second Latin row of table 32 (Polish under C12-C14 = 000), announced
			// once before the first page header of the stream, or before every header; no X/28 contradicts it
			if s.Stuffing {
				// first a designation of the Cyrillic set under the other designation code: the later packet replaces it
				units = append(units, designationUnit(s.Mag, 29, 0, 0, 0, 4, uint8(4*(ii%2))))
			}
			units = append(units, designationUnit(s.Mag, 29, 0, 0, 0, 1, uint8(4*((ii+1)%2))))
			if s.Enhancement {
				// and right after it, another magazine announces a Cyrillic default: none of this page's business
				units = append(units, designationUnit(otherMag, 29, 0, 0, 0, 4))
			}
		}
		if s.Designation == 3 {
			// the magazine-wide default (M/29) names the first Cyrillic set, the page's own X/28 names Latin: X/28 wins
			units = append(units, designationUnit(s.Mag, 29, 0, 0, 0, 4))
		}
		units = append(units, headerUnit(sel(in), 0x03))
		if s.Designation == 1 || s.Designation == 3 {
			units = append(units, designationUnit(s.Mag, 28, in.C12, in.C13, in.C14, 0))
		}
		headers = append(headers, in.PTS)
		secondPTS := in.PTS
		var second [][]byte
		for ri, r := range in.Rows {
			bad := map[int]bool{}
			for _, i := range r.BadParity {
				bad[i] = true
			}
			u := rowUnit(s.Mag, r.Y, r.cells(), bad, 0x03)
			target := &units
			if in.SplitAt > 0 && ri >= in.SplitAt {
				target = &second
				secondPTS = in.PTS + 1800
			}
			// interleaved distractors that must neither contribute nor stop reception
			if !s.Serial {
				// parallel mode: a page of another magazine is interleaved
				if ri == 0 {
					*target = append(*target, headerUnit(ttxHeader{Mag: otherMag, Tens: 1, Units: 2, Serial: false}, 0x03))
				}
				*target = append(*target, distractorText(r.Y, "OTHER MAGAZINE"))
				if s.SamePageOther && ri == 0 {
					*target = append(*target, headerUnit(ttxHeader{Mag: otherMag, Tens: s.Tens, Units: s.Units, Subtitle: true, Serial: false}, 0x03), distractorText(r.Y+0, "SAME NUMBER"))
				}
			}
			if s.Stuffing {
				*target = append(*target, stuffingUnit())
			}
			if s.NonSubtitle {
				*target = append(*target, rowUnit(s.Mag, r.Y, append(append([]byte{0x0b, 0x0b}, "NON SUBTITLE UNIT"...), 0x0a, 0x0a), nil, 0x02))
			}
			if s.Enhancement {
				*target = append(*target, enhancementUnit(s.Mag, 26, 0), enhancementUnit(s.Mag, 27, 1), enhancementUnit(8, 30, 0), enhancementUnit(otherMag, 28, 0), enhancementUnit(otherMag, 29, 0))
			}
			*target = append(*target, u)
		}
		if in.PackWithNext && ii+1 < len(s.Instances) && len(second) == 0 {
			// this instance travels in the PES packet of the next one (same presentation time)
			carry = append(carry, units...)
			pending = append(pending, ii)
			continue
		}
		if len(carry) > 0 {
			units = append(carry, units...)
			carry = nil
			for _, j := range pending {
				headers[j] = in.PTS
			}
			pending = nil
		}
		send(ttxPID, in.PTS, units...)
		if s.PrivateData {
			// packets of a PID that carries neither PES packets nor tables the demultiplexer knows (private data), with a
			// payload unit start: whatever it makes of them, they are no subtitles
			m.packets(0x1ff0, append([]byte{0x47, 0x11, 0x22, 0x33}, bytes.Repeat([]byte{0x5a}, 200)...))
		}
		if len(second) > 0 {
			send(ttxPID, secondPTS, second...)
		}
		if s.SecondTTXPID {
			send(s.pid2(), in.PTS+7, headerUnit(sel(in), 0x03), rowUnit(s.Mag, 20, append(append([]byte{0x0b, 0x0b}, "SECOND PID"...), 0x0a, 0x0a), nil, 0x03))
		}
		// after the instance: a terminating page (same magazine, or any magazine in serial mode) with its own rows
		if in.PTS%2 == 0 || s.HexDistractor {
			th := ttxHeader{Mag: s.Mag, Tens: (s.Tens + 1) % 10, Units: s.Units, Serial: s.Serial}
			if s.Serial && in.PTS%3 == 0 {
				th.Mag = otherMag
			}
			tu := [][]byte{headerUnit(th, 0x03), rowUnit(th.Mag, 5, append(append([]byte{0x0b, 0x0b}, "TERMINATING PAGE"...), 0x0a, 0x0a), nil, 0x03)}
			if th.Mag != s.Mag {
				// serial mode: the header of another magazine ended the page; a stray packet carrying the selected
				// magazine's number afterwards does not belong to the selected page any more
				tu = append(tu, rowUnit(s.Mag, 7, append(append([]byte{0x0b, 0x0b}, "ORPHAN ROW"...), 0x0a, 0x0a), nil, 0x03))
			}
			if s.HexDistractor {
				// a page with a hexadecimal digit: tens*10+units must not alias the selected page
				var ht, hu uint8 = 0xff, 0xff
				n := int(s.Tens)*10 + int(s.Units)
				for t := uint8(0); t < 16; t++ {
					for u := uint8(10); u < 16; u++ {
						if int(t)*10+int(u) == n {
							ht, hu = t, u
						}
					}
				}
				if ht != 0xff && !(ht == 0xf && hu == 0xf) {
					hh := ttxHeader{Mag: s.Mag, Tens: ht, Units: hu, Serial: s.Serial}
					tu = append(tu, headerUnit(hh, 0x03), rowUnit(s.Mag, 6, append(append([]byte{0x0b, 0x0b}, "HEX PAGE"...), 0x0a, 0x0a), nil, 0x03))
				}
			}
			send(ttxPID, in.PTS+2000, tu...)
		}
	}
	if s.LeadOut > 0 && len(s.Instances) > 0 {
		send(ttxPID, s.Instances[len(s.Instances)-1].PTS+s.LeadOut, stuffingUnit())
	}
	if s.PrivateData {
		m.packets(0x1ff0, append([]byte{0x47, 0x11, 0x22, 0x33}, bytes.Repeat([]byte{0x5a}, 300)...))
	}
	// ground truth
	for ii, in := range s.Instances {
		if len(in.Rows) == 0 {
			continue
		}
		c := ttxExpCue{StartPTS: headers[ii] - minPTS}
		if ii+1 < len(s.Instances) {
			c.EndPTS = headers[ii+1] - minPTS
		} else {
			c.EndPTS = maxPTS - minPTS
		}
		rows := append([]ttxRow(nil), in.Rows...)
		for i := 1; i < len(rows); i++ {
			for j := i; j > 0 && rows[j-1].Y > rows[j].Y; j-- {
				rows[j-1], rows[j] = rows[j], rows[j-1]
			}
		}
		opt := [3]uint8{in.C12, in.C13, in.C14}
		if s.Designation >= 4 {
			opt = natPolishKey
		}
		for _, r := range rows {
			// a row left without any text (its only characters failed parity) yields no line
			if opt == [3]uint8{1, 1, 1} {
				l := expLine(r, [3]uint8{0, 0, 0})
				l.AnyText = true
				if len(l.Runs) > 0 {
					c.Lines = append(c.Lines, l)
				}
				continue
			}
			if l := expLine(r, opt); len(l.Runs) > 0 {
				c.Lines = append(c.Lines, l)
			}
		}
		exp = append(exp, c)
	}
	return m.out.Bytes(), exp
}

type ttxExpRun struct {
	Text    string `json:"text"`
	AltText string `json:"alt_text"`
	Color   int    `json:"color"` // -1 none
	DH      bool   `json:"dh"`
	DW      bool   `json:"dw"`
	DS      bool   `json:"ds"`
}

type ttxExpLine struct {
	Runs      []ttxExpRun `json:"runs"`
	BadParity bool        `json:"bad_parity"`
	// AnyText: the page uses the reserved national option (C12-C14 = 111): what the 13 national positions show is
	// not defined by the standard, so only the structure of the line is asserted (and that reading is repeatable)
	AnyText bool `json:"any_text"`
}

type ttxExpCue struct {
	StartPTS int64        `json:"start_pts"`
	EndPTS   int64        `json:"end_pts"`
	Lines    []ttxExpLine `json:"lines"`
}

// expLine computes what a row denotes: boxed text split into runs at colour and size codes.
func expLine(r ttxRow, opt [3]uint8) ttxExpLine {
	l := ttxExpLine{BadParity: len(r.BadParity) > 0}
	st := ttxExpRun{Color: -1}
	apply := func(c byte) {
		switch {
		case c <= 7:
			st.Color = int(c)
		case c == 0x0c:
			st.DH, st.DW, st.DS = false, false, false
		case c == 0x0d:
			st.DH = true
		case c == 0x0e:
			st.DW = true
		case c == 0x0f:
			st.DS = true
		}
	}
	for _, c := range r.Pre {
		apply(c)
	}
	bad := map[int]bool{}
	for _, i := range r.BadParity {
		bad[i] = true
	}
	pos := len(r.Pre) + 2
	for _, s := range r.Segs {
		for _, c := range s.Codes {
			apply(c)
			pos++
		}
		cells := []byte(s.Text)
		var kept []byte
		for i, c := range cells {
			at := pos + i
			if s.ReboxAt > 0 && s.ReboxAt < len(cells) && i >= s.ReboxAt {
				at += 4 + len(s.Unboxed)
			}
			if !bad[at] {
				kept = append(kept, c)
			}
		}
		pos += len(cells)
		if s.ReboxAt > 0 && s.ReboxAt < len(cells) {
			pos += 4 + len(s.Unboxed)
		}
		std, alt := ttxDecode(string(kept), opt)
		if strings.TrimSpace(std) != "" {
			run := st
			run.Text, run.AltText = strings.TrimSpace(std), strings.TrimSpace(alt)
			l.Runs = append(l.Runs, run)
		}
	}
	return l
}

// ---------------------------------------------------------------------------
// Comparison with what the reader returned

func diffTTX(exp []ttxExpCue, s *astisub.Subtitles) string {
	if len(s.Items) != len(exp) {
		var texts []string
		for _, it := range s.Items {
			texts = append(texts, fmt.Sprintf("[%v,%v)%q", it.StartAt, it.EndAt, it.String()))
		}
		return fmt.Sprintf("%d cues %v, expected %d (one per non-empty instance of the selected page)", len(s.Items), texts, len(exp))
	}
	for i, w := range exp {
		it := s.Items[i]
		for k, p := range [][2]int64{{int64(it.StartAt), w.StartPTS}, {int64(it.EndAt), w.EndPTS}} {
			// PTS ticks of 1/90000 s; two floor divisions in the demultiplexer: tolerance 1 ns
			wantNs := p[1] * 100000 / 9
			if d := p[0] - wantNs; d < -1 || d > 1 {
				return fmt.Sprintf("cue %d boundary %d: %d ns, expected %d ns (%d ticks of 90 kHz after the first presentation time)", i, k, p[0], wantNs, p[1])
			}
		}
		if len(it.Lines) != len(w.Lines) {
			return fmt.Sprintf("cue %d: %d lines %q, expected %d lines %+v", i, len(it.Lines), it.String(), len(w.Lines), w.Lines)
		}
		for j, wl := range w.Lines {
			gl := it.Lines[j]
			if wl.BadParity {
				// cells failing parity contribute no text; run structure is not asserted for such rows
				var g, a, b string
				for _, li := range gl.Items {
					g += li.Text
				}
				for _, r := range wl.Runs {
					a += r.Text
					b += r.AltText
				}
				if !wl.AnyText && stripSpaces(g) != stripSpaces(a) && stripSpaces(g) != stripSpaces(b) {
					return fmt.Sprintf("cue %d line %d (row with parity errors): text %q, expected %q", i, j, g, a)
				}
				continue
			}
			if len(gl.Items) != len(wl.Runs) {
				return fmt.Sprintf("cue %d line %d: %d runs %q, expected %d runs %+v", i, j, len(gl.Items), gl.String(), len(wl.Runs), wl.Runs)
			}
			for k, wr := range wl.Runs {
				li := gl.Items[k]
				if !wl.AnyText && li.Text != wr.Text && li.Text != wr.AltText {
					return fmt.Sprintf("cue %d line %d run %d: text %q, expected %q", i, j, k, li.Text, wr.Text)
				}
				gc, dh, dw, ds := -1, false, false, false
				if sa := li.InlineStyle; sa != nil {
					gc = colorIndex(sa.TeletextColor)
					dh, dw, ds = bval(sa.TeletextDoubleHeight), bval(sa.TeletextDoubleWidth), bval(sa.TeletextDoubleSize)
				}
				if gc != wr.Color || dh != wr.DH || dw != wr.DW || ds != wr.DS {
					return fmt.Sprintf("cue %d line %d run %d (%q): colour %d double h/w/s %v/%v/%v, expected colour %d %v/%v/%v", i, j, k, li.Text, gc, dh, dw, ds, wr.Color, wr.DH, wr.DW, wr.DS)
				}
			}
		}
	}
	return ""
}

// ---------------------------------------------------------------------------
// Generators

func genTTXText(t *rapid.T, max int) string {
	words := []string{"Hello", "world", "#[]@", "{|}~", "$", "`_^\\", "a", "Z9", "it's", "50%", "(x)", "Q&A", "*+,-./", ":;<=>?", "\"!\"", "0123"}
	var sb strings.Builder
	n := rapid.IntRange(1, 3).Draw(t, "words")
	for i := 0; i < n; i++ {
		w := rapid.SampledFrom(words).Draw(t, "word")
		if rapid.IntRange(0, 4).Draw(t, "rawch") == 0 {
			w = string(rune(rapid.IntRange(0x21, 0x7e).Draw(t, "ch")))
		}
		if sb.Len()+len(w)+1 > max {
			break
		}
		if i > 0 {
			sb.WriteByte(' ')
		}
		sb.WriteString(w)
	}
	if sb.Len() == 0 {
		return "x"
	}
	return sb.String()
}

func genTTXRow(t *rapid.T, y uint8) ttxRow {
	r := ttxRow{Y: y}
	budget := 34
	color, size := byte(0xff), byte(0x0c)
	code := func(label string) []byte {
		var cs []byte
		if rapid.IntRange(0, 2).Draw(t, label+"c") == 0 {
			c := byte(rapid.IntRange(0, 7).Draw(t, label+"col"))
			if c != color {
				cs = append(cs, c)
				color = c
			}
		}
		if rapid.IntRange(0, 4).Draw(t, label+"s") == 0 {
			sz := rapid.SampledFrom([]byte{0x0c, 0x0d, 0x0e, 0x0f}).Draw(t, label+"size")
			if sz != size {
				cs = append(cs, sz)
				size = sz
			}
		}
		return cs
	}
	r.Pre = code("pre")
	budget -= len(r.Pre)
	n := rapid.IntRange(1, 3).Draw(t, "segs")
	for i := 0; i < n && budget > 3; i++ {
		sg := ttxSeg{}
		if i > 0 {
			sg.Codes = code("seg")
			if len(sg.Codes) == 0 {
				continue // a new segment only exists where a code changes state
			}
		}
		sg.Text = genTTXText(t, budget-len(sg.Codes)-1)
		if i > 0 && rapid.Bool().Draw(t, "lead") {
			sg.Text = " " + sg.Text
		}
		budget -= len(sg.Codes) + len(sg.Text)
		if len(sg.Text) >= 2 && budget >= 8 && rapid.IntRange(0, 5).Draw(t, "rebox") == 0 {
			sg.ReboxAt = rapid.IntRange(1, len(sg.Text)-1).Draw(t, "reboxat")
			sg.Unboxed = rapid.SampledFrom([]string{"", "  ", "xx", " x"}).Draw(t, "unboxed")
			budget -= 4 + len(sg.Unboxed)
		}
		r.Segs = append(r.Segs, sg)
	}
	if rapid.IntRange(0, 5).Draw(t, "parity") == 0 {
		cells := r.cells()
		k := rapid.IntRange(0, len(cells)-1).Draw(t, "badcell")
		// only text cells inside the box (errors in control cells change what the row denotes)
		if cells[k] >= 0x20 {
			r.BadParity = []int{k}
		}
	}
	return r
}

func genTTXStream(t *rapid.T) ttxStream {
	s := ttxStream{
		Mag:           uint8(rapid.IntRange(1, 8).Draw(t, "mag")),
		Tens:          uint8(rapid.IntRange(0, 9).Draw(t, "tens")),
		Units:         uint8(rapid.IntRange(0, 9).Draw(t, "units")),
		Serial:        rapid.Bool().Draw(t, "serial"),
		OtherPIDFirst: rapid.Bool().Draw(t, "otherpid"),
		SecondTTXPID:  rapid.IntRange(0, 2).Draw(t, "secondpid") == 0,
		SecondLower:   rapid.Bool().Draw(t, "secondlower"),
		PMTRepeat:     rapid.Bool().Draw(t, "pmtrepeat"),
		Stuffing:      rapid.Bool().Draw(t, "stuffing"),
		NonSubtitle:   rapid.Bool().Draw(t, "nonsub"),
		Enhancement:   rapid.Bool().Draw(t, "enh"),
		Filler:        rapid.Bool().Draw(t, "filler"),
		HexDistractor: rapid.IntRange(0, 2).Draw(t, "hex") == 0,
		SamePageOther: rapid.Bool().Draw(t, "samepage"),
		OptPage:       rapid.Bool().Draw(t, "optpage"),
		OptPID:        rapid.Bool().Draw(t, "optpid"),
		Designation:   rapid.SampledFrom([]int{0, 0, 1, 2, 3, 4, 5}).Draw(t, "designation"),
		DescKind:      rapid.SampledFrom([]int{0, 0, 0, 1, 2, 3, 4}).Draw(t, "desckind"),
		ViaFile:       rapid.IntRange(0, 3).Draw(t, "viafile") == 0,
		PrivateData:   rapid.IntRange(0, 2).Draw(t, "privatedata") == 0,
	}
	if !s.OptPage && rapid.IntRange(0, 4).Draw(t, "hexpage") == 0 {
		// a page number with a hexadecimal digit (not reachable from a remote control, fine for subtitles): only found
		// by auto-detection, the page option being decimal
		s.Units = uint8(rapid.IntRange(10, 15).Draw(t, "hexunits"))
		if rapid.Bool().Draw(t, "hextens") {
			s.Tens = uint8(rapid.IntRange(10, 14).Draw(t, "hextensv"))
		}
		s.HexDistractor = false // (that distractor is built for decimal page numbers)
	}
	pts := rapid.Int64Range(2, 90000*3600).Draw(t, "pts0")
	if rapid.Bool().Draw(t, "leadin") {
		s.LeadIn = pts - 1 - rapid.Int64Range(0, 90000).Draw(t, "leadinD")
		if s.LeadIn < 1 {
			s.LeadIn = 1
		}
	}
	n := rapid.IntRange(1, 5).Draw(t, "instances")
	opts := [][3]uint8{{0, 0, 0}, {0, 0, 1}, {0, 1, 0}, {0, 1, 1}, {1, 0, 0}, {1, 0, 1}, {1, 1, 0}, {1, 1, 1}}
	for i := 0; i < n; i++ {
		o := rapid.SampledFrom(opts).Draw(t, "natopt")
		if s.Designation >= 4 {
			o = [3]uint8{0, 0, 0}
		}
		in := ttxInstance{PTS: pts, C12: o[0], C13: o[1], C14: o[2]}
		if rapid.IntRange(0, 4).Draw(t, "eraseonly") > 0 || i == 0 {
			nr := rapid.IntRange(1, 4).Draw(t, "rows")
			used := map[uint8]bool{}
			for j := 0; j < nr; j++ {
				y := uint8(rapid.IntRange(1, 24).Draw(t, "y"))
				if used[y] {
					continue
				}
				used[y] = true
				in.Rows = append(in.Rows, genTTXRow(t, y))
			}
			if len(in.Rows) > 1 && rapid.IntRange(0, 2).Draw(t, "split") == 0 {
				in.SplitAt = rapid.IntRange(1, len(in.Rows)-1).Draw(t, "splitat")
			}
			if in.SplitAt == 0 && rapid.IntRange(0, 5).Draw(t, "pack") == 0 {
				in.PackWithNext = true
			}
		}
		if i > 0 && len(s.Instances[i-1].Rows) > 0 && rapid.IntRange(0, 5).Draw(t, "repeat") == 0 {
			// the same subtitle transmitted again (a page is repeated as long as it is on screen): one more instance
			prev := s.Instances[i-1]
			in.Rows, in.C12, in.C13, in.C14, in.SplitAt = prev.Rows, prev.C12, prev.C13, prev.C14, 0
		}
		in.NoFlag = (s.OptPage || i > 0) && rapid.IntRange(0, 5).Draw(t, "noflag") == 0
		in.NoErase = rapid.IntRange(0, 3).Draw(t, "noerase") == 0
		// control bits C7..C10 and sub-code: derived from the presentation time (itself drawn), on two instances in three
		if h := uint64(pts) * 0x9E3779B97F4A7C15 >> 24; h%3 != 0 {
			in.Ctl, in.Sub = uint8(h>>8)&15, uint16(h>>16)&0x1fff
		}
		s.Instances = append(s.Instances, in)
		pts += rapid.Int64Range(3600, 90000*20).Draw(t, "gap")
	}
	if rapid.Bool().Draw(t, "leadout") {
		s.LeadOut = rapid.Int64Range(2500, 90000*5).Draw(t, "leadoutD")
	}
	return s
}

package props

import (
	"bytes"
	"encoding/json"
	"errors"
	"fmt"
	"log"
	"os"
	"os/exec"
	"path/filepath"
	"runtime"
	"strings"
	"sync"
	"sync/atomic"
	"testing"
	"time"
	"unicode"

	astisub "github.com/asticode/go-astisub"
	"pgregory.net/rapid"
)

// C20 - independent calls are safe to run concurrently. The test binary is
// built with -race; every call's canonical result must equal its sequential result.

type c20Op struct {
	Kind   string    `json:"kind"` // read | write | transform
	Format string    `json:"format,omitempty"`
	Doc    []byte    `json:"doc,omitempty"`
	Opts   readOpts  `json:"opts"`
	Spec   *glSpec   `json:"spec,omitempty"`
	Name   string    `json:"name,omitempty"` // transform
	Cues   []cueSpec `json:"cues,omitempty"`
	Arg    int64     `json:"arg,omitempty"`
	// write to a destination that fails at byte FailAt-1 (FailAt > 0), in one of the three ways a writer can fail (C18)
	FailAt   int `json:"fail_at,omitempty"`
	FailMode int `json:"fail_mode,omitempty"`
	// ViaOpen (read): the document sits in a file of the directory shared by all calls of the process and is read
	// through the file-level opener
	ViaOpen bool `json:"via_open,omitempty"`
	// Ext (with ViaOpen): the spelling of the file's extension (extensions are matched whatever their case)
	Ext string `json:"ext,omitempty"`
	// WantAny (read): the result is known by construction to hold one of these texts - in every phase, whatever the
	// process read before
	WantAny []string `json:"want_any,omitempty"`
}

const c20Unexpected = "UNEXPECTED-RESULT: "

func flagUnexpected(i int, o c20Op, r string) string {
	if strings.HasPrefix(r, c20Unexpected) {
		return fmt.Sprintf("operation %d (%s %s) returned something else than what its input denotes (expected one of %q): %s", i, o.Kind, o.Format, o.WantAny, clip(strings.TrimPrefix(r, c20Unexpected), 500))
	}
	return ""
}

type c20Case struct {
	Ops        []c20Op `json:"ops"`
	Goroutines int     `json:"goroutines"`
	Release    []int   `json:"release"` // order in which the goroutines are released
	Rounds     int     `json:"rounds"`
	// Cold: run in a process of its own in which the concurrent calls are the very first calls into the package
	// (whatever the package initialises lazily is then initialised under contention)
	Cold bool `json:"cold,omitempty"`
	// History (with Cold): no concurrency at all; the fresh process makes the calls one after the other, forwards then
	// backwards: a call's result may not depend on which calls the process made before
	History bool `json:"history,omitempty"`
}

func init() { register("c20", checkC20) }

// c20Day: which of two days the injectable clock shows; the sequential passes run on different days (a write whose
// metadata supplies no STL dates takes them from the clock of that very call, whatever earlier calls saw)
var c20Day atomic.Int32

func c20Now() time.Time {
	if c20Day.Load() == 1 {
		return c19NowB
	}
	return c19NowA
}

// stlDatesResult blanks the creation / revision dates of an STL file and says whether they were those of the clock.
func stlDatesResult(o c20Op, b []byte) ([]byte, string) {
	if len(b) <= 224 || (o.Format != "stl" && !strings.EqualFold(o.Format, "file:stl")) {
		return b, ""
	}
	m := o.Spec.Meta
	if m.STL != nil && m.STLDates && !m.Nil {
		return b, ""
	}
	today := c20Now().Format("060102")
	flag := ""
	if len(b) >= 236 {
		flag = fmt.Sprintf("|dates-follow-the-clock:%v", string(b[224:230]) == today && string(b[230:236]) == today)
	}
	b = append([]byte(nil), b...)
	for i := 224; i < 236 && i < len(b); i++ {
		b[i] = '-'
	}
	return b, flag
}

var (
	c20DirOnce sync.Once
	c20Dir     string
	c20FileSeq atomic.Int64
)

// run executes the operation on inputs private to the call and returns a canonical result.
func (o c20Op) run() (res string) {
	defer func() {
		if r := recover(); r != nil {
			res = fmt.Sprintf("PANIC: %v", r)
		}
	}()
	switch o.Kind {
	case "badext":
		// the file-level helpers refusing an extension they do not know (o.Format): the error says which, every time
		dir, err := os.MkdirTemp("", "c20ext")
		if err != nil {
			return "no temp dir"
		}
		defer os.RemoveAll(dir)
		in := filepath.Join(dir, "in."+o.Format)
		_ = os.WriteFile(in, []byte("1\n00:00:01,000 --> 00:00:02,000\nx\n"), 0o644)
		_, e1 := astisub.OpenFile(in)
		e2 := astisub.NewSubtitles().Write(filepath.Join(dir, "out."+o.Format))
		first := fmt.Sprintf("%v|%v", e1, e2)
		runtime.Gosched()
		return first + "|" + fmt.Sprintf("%v|%v", e1, e2)
	case "read":
		res := ""
		func() {
			defer func() {
				if rec := recover(); rec != nil {
					res = "PANIC"
				}
			}()
			var s *astisub.Subtitles
			var err error
			if o.ViaOpen {
				c20DirOnce.Do(func() { c20Dir, _ = os.MkdirTemp("", "c20files") })
				ext := o.Ext
				if ext == "" {
					ext = o.Format
				}
				p := filepath.Join(c20Dir, fmt.Sprintf("in-%d.%s", c20FileSeq.Add(1), ext))
				_ = os.WriteFile(p, o.Doc, 0o644)
				s, err = astisub.Open(astisub.Options{Filename: p, STL: astisub.STLOptions{IgnoreTimecodeStartOfProgramme: o.Opts.IgnoreTCP}, Teletext: astisub.TeletextOptions{Page: o.Opts.Page, PID: o.Opts.PID}})
				_ = os.Remove(p)
				if err != nil {
					err = errors.New(strings.ReplaceAll(err.Error(), p, "<path>"))
				}
			} else {
				s, err = readFormat(o.Format, bytes.NewReader(o.Doc), o.Opts)
			}
			res = canonResult(s, err)
			if err != nil {
				// which error a call returns is part of its result
				res += ": " + err.Error()
			}
			if len(o.WantAny) > 0 {
				found := false
				for _, w := range o.WantAny {
					found = found || strings.Contains(res, w)
				}
				if !found {
					res = c20Unexpected + res
				}
			}
			if err == nil && s != nil {
				// the caller owns the list it got: it edits every part of it, through the pointers it was given too
				if s.Styles == nil {
					s.Styles = map[string]*astisub.Style{}
				}
				if s.Regions == nil {
					s.Regions = map[string]*astisub.Region{}
				}
				scribble(s)
			}
		}()
		return res
	case "write":
		s := o.Spec.build()
		var buf bytes.Buffer
		var err error
		if o.FailAt > 0 {
			fw := &faultWriter{k: o.FailAt - 1, mode: o.FailMode}
			err = writeFormat(o.Format, s, fw)
			part, _ := stlDatesResult(o, fw.buf.Bytes())
			return fmt.Sprintf("%v|%s|%s", err != nil, hashOf(part), hashOf([]byte(canon(s))))
		}
		if strings.HasPrefix(o.Format, "file:") {
			// the file-level helper, every call to a file of its own in one directory shared by all calls of the process
			c20DirOnce.Do(func() { c20Dir, _ = os.MkdirTemp("", "c20files") })
			p := filepath.Join(c20Dir, fmt.Sprintf("out-%d.%s", c20FileSeq.Add(1), strings.TrimPrefix(o.Format, "file:")))
			err = s.Write(p)
			b, _ := os.ReadFile(p)
			_ = os.Remove(p)
			if err != nil {
				err = errors.New(strings.ReplaceAll(err.Error(), p, "<path>"))
			}
			b, flag := stlDatesResult(o, b)
			return fmt.Sprintf("%v|%s|%s%s", err, hashOf(b), hashOf([]byte(canon(s))), flag)
		}
		if strings.HasPrefix(o.Format, "ttml-indent:") {
			// a per-call option: must not leak into any other call
			err = s.WriteToTTML(&buf, astisub.WriteToTTMLWithIndentOption(strings.TrimPrefix(o.Format, "ttml-indent:")))
		} else {
			err = writeFormat(o.Format, s, &buf)
		}
		out, flag := stlDatesResult(o, buf.Bytes())
		return fmt.Sprintf("%v|%s|%s%s", err, hashOf(out), hashOf([]byte(canon(s))), flag)
	default:
		b := buildList(o.Cues)
		d := time.Duration(o.Arg)
		steps := strings.Split(o.Name, "+")
		for i, name := range steps {
			if i == len(steps)-1 && i > 0 && name != "edittext" {
				// the last step also runs on a list rebuilt from scratch out of the current cues (new objects, same
				// boundaries and texts): what the library remembers about the old objects must not matter
				var snap []cueSpec
				for _, it := range b.sub.Items {
					snap = append(snap, cueSpec{S: int64(it.StartAt), E: int64(it.EndAt), T: strings.ReplaceAll(itemText(it), "+", "")})
				}
				fresh := buildList(snap)
				applyTransform(fresh, name, d, o.Cues)
				applyTransform(b, name, d, o.Cues)
				if a, f := timelineValues(b.sub), timelineValues(fresh.sub); a != f {
					return fmt.Sprintf("INTERNAL-VIOLATION: step %q after %q gives %s on the list the earlier steps worked on, %s on a list rebuilt from the same cues", name, strings.Join(steps[:i], "+"), clip(a, 400), clip(f, 400))
				}
				break
			}
			applyTransform(b, name, d, o.Cues)
		}
		return canon(b.sub)
	}
}

// runLogged runs the operation with the standard logger redirected (sequential phases only) and returns what it logged,
// timestamps aside.
func runLogged(o c20Op) (res, logged string) {
	var buf bytes.Buffer
	flags, out := log.Flags(), log.Writer()
	log.SetFlags(0)
	log.SetOutput(&buf)
	defer func() {
		log.SetOutput(out)
		log.SetFlags(flags)
	}()
	res = o.run()
	return res, hexRe.ReplaceAllString(buf.String(), "")
}

// timelineValues prints boundaries and texts of a list (no object identities).
func timelineValues(s *astisub.Subtitles) string {
	var sb strings.Builder
	for _, it := range s.Items {
		fmt.Fprintf(&sb, "[%d,%d)%q;", int64(it.StartAt), int64(it.EndAt), it.String())
	}
	return sb.String()
}

func applyTransform(b *builtList, name string, d time.Duration, cues []cueSpec) {
	{
		switch name {
		case "add":
			b.sub.Add(d)
		case "fragment":
			if d > 0 {
				b.sub.Fragment(d)
			}
		case "unfragment":
			b.sub.Unfragment()
		case "order":
			b.sub.Order()
		case "merge":
			other := buildList(cues)
			b.sub.Merge(other.sub)
		case "optimize":
			b.sub.Optimize()
		case "removestyling":
			b.sub.RemoveStyling()
		case "forceduration":
			if d > 0 {
				b.sub.ForceDuration(d, true)
			}
		case "linear":
			b.sub.ApplyLinearCorrection(time.Second, 2*time.Second, 5*time.Second, 5*time.Second+d)
		case "edittext":
			// a caller editing the list it owns (e.g. the filler it just got)
			for _, it := range b.sub.Items {
				for li := range it.Lines {
					for ri := range it.Lines[li].Items {
						switch it.Lines[li].Items[ri].Text {
						case "b":
							// some texts become equal to others that stay as they are ("b" -> "a"), the rest changes
							it.Lines[li].Items[ri].Text = "a"
						case "a":
						default:
							it.Lines[li].Items[ri].Text += "!"
						}
					}
				}
			}
		}
	}
}

// checkC20Cold re-executes the test binary on the case; the child runs the concurrent phase before anything else.
func checkC20Cold(c c20Case) string {
	dir, err := os.MkdirTemp("", "c20cold")
	if err != nil {
		return ""
	}
	defer os.RemoveAll(dir)
	b, _ := json.Marshal(c)
	p := filepath.Join(dir, "case.json")
	if os.WriteFile(p, b, 0o644) != nil {
		return ""
	}
	cmd := exec.Command(os.Args[0], "-test.run", "^TestC20Child$", "-test.count", "1", "-test.v")
	env := []string{"VERIF_C20_CASE=" + p, "GORACE=halt_on_error=1 exitcode=66", "VERIF_FRAG=", "VERIF_REPLAY_OUT="}
	for _, e := range os.Environ() {
		if !strings.HasPrefix(e, "GORACE=") && !strings.HasPrefix(e, "VERIF_FRAG=") && !strings.HasPrefix(e, "VERIF_REPLAY_OUT=") {
			env = append(env, e)
		}
	}
	cmd.Env = env
	out, runErr := cmd.CombinedOutput()
	if i := bytes.Index(out, []byte("C20CHILD-RESULT:")); i >= 0 {
		rest := out[i+len("C20CHILD-RESULT:"):]
		if j := bytes.IndexByte(rest, '\n'); j >= 0 {
			rest = rest[:j]
		}
		var msg string
		if json.Unmarshal(rest, &msg) == nil && !bytes.Contains(out, []byte("WARNING: DATA RACE")) {
			return msg
		}
	}
	if i := bytes.Index(out, []byte("WARNING: DATA RACE")); i >= 0 {
		return "data race when the concurrent calls are the first calls of the process:\n" + hexRe.ReplaceAllString(clip(string(out[i:]), 1800), "")
	}
	if ee, ok := runErr.(*exec.ExitError); ok && ee.ProcessState != nil && !ee.ProcessState.Exited() {
		// killed from outside (memory, time): nothing was learnt about the library
		ev.Excluded("cold-start process killed by the system")
		return ""
	}
	return fmt.Sprintf("the process running the calls as its first calls died (%v):\n%s", runErr, clip(string(out), 800))
}

// TestC20Child is the body of that process.
func TestC20Child(t *testing.T) {
	p := os.Getenv("VERIF_C20_CASE")
	if p == "" {
		t.Skip("not a child")
	}
	b, err := os.ReadFile(p)
	if err != nil {
		t.Fatal(err)
	}
	var c c20Case
	if err := json.Unmarshal(b, &c); err != nil {
		t.Fatal(err)
	}
	msg, _ := json.Marshal(checkC20(c))
	fmt.Printf("\nC20CHILD-RESULT:%s\n", msg)
}

func checkC20(c c20Case) string {
	if c.Cold && os.Getenv("VERIF_C20_CASE") == "" {
		return checkC20Cold(c)
	}
	restore := astisub.Now
	astisub.Now = c20Now
	c20Day.Store(0)
	defer func() { astisub.Now = restore; c20Day.Store(0) }()
	if c.Cold && c.History {
		first := make([]string, len(c.Ops))
		firstLog := make([]string, len(c.Ops))
		for i, o := range c.Ops {
			first[i], firstLog[i] = runLogged(o)
			if m := flagUnexpected(i, o, first[i]); m != "" {
				return m
			}
		}
		c20Day.Store(1)
		for i := len(c.Ops) - 1; i >= 0; i-- {
			again, againLog := runLogged(c.Ops[i])
			if againLog != firstLog[i] {
				return fmt.Sprintf("operation %d (%s %s%s) of a fresh process wrote something else to the log once other calls had been made: state is kept between calls\n--- as call number %d of the process ---\n%s\n--- later ---\n%s",
					i, c.Ops[i].Kind, c.Ops[i].Format, c.Ops[i].Name, i+1, clip(firstLog[i], 400), clip(againLog, 400))
			}
			if again != first[i] {
				return fmt.Sprintf("operation %d (%s %s%s) of a fresh process returned a different result once other calls had been made: state is kept between calls\n--- as call number %d of the process ---\n%s\n--- later ---\n%s",
					i, c.Ops[i].Kind, c.Ops[i].Format, c.Ops[i].Name, i+1, clip(first[i], 500), clip(again, 500))
			}
		}
		return ""
	}
	for i, o := range c.Ops {
		if o.Kind == "transform" && strings.Contains(o.Name, "+") {
			if r := o.run(); strings.HasPrefix(r, "INTERNAL-VIOLATION") {
				return fmt.Sprintf("operation %d (transform %s): %s", i, o.Name, strings.TrimPrefix(r, "INTERNAL-VIOLATION: "))
			}
		}
	}
	want := make([]string, len(c.Ops))
	logged := make([]string, len(c.Ops))
	if c.Cold {
		// the concurrent phase comes first; the sequential reference is taken afterwards
		want = nil
	}
	for i, o := range c.Ops {
		if want == nil {
			break
		}
		want[i], logged[i] = runLogged(o)
		if m := flagUnexpected(i, o, want[i]); m != "" {
			return m
		}
	}
	// "alone" must not depend on what ran before: the same calls, one after the other, in the opposite order (and on
	// another day)
	c20Day.Store(1)
	defer c20Day.Store(0)
	for i := len(c.Ops) - 1; i >= 0 && want != nil; i-- {
		again, againLog := runLogged(c.Ops[i])
		if againLog != logged[i] {
			return fmt.Sprintf("operation %d (%s %s%s) wrote something else to the log when the same calls were made one after the other in the opposite order: state is kept between calls\n--- first ---\n%s\n--- then ---\n%s",
				i, c.Ops[i].Kind, c.Ops[i].Format, c.Ops[i].Name, clip(logged[i], 400), clip(againLog, 400))
		}
		if again != want[i] {
			return fmt.Sprintf("operation %d (%s %s%s) returned a different result when the same calls were made one after the other in the opposite order: state is kept between calls\n--- first ---\n%s\n--- then ---\n%s",
				i, c.Ops[i].Kind, c.Ops[i].Format, c.Ops[i].Name, clip(want[i], 500), clip(again, 500))
		}
	}
	c20Day.Store(0)
	g := c.Goroutines
	if g < 1 {
		g = 1
	}
	rounds := c.Rounds
	if rounds < 1 {
		rounds = 1
	}
	for round := 0; round < rounds; round++ {
		got := make([]string, len(c.Ops))
		gates := make([]chan struct{}, g)
		for i := range gates {
			gates[i] = make(chan struct{})
		}
		var wg sync.WaitGroup
		for w := 0; w < g; w++ {
			wg.Add(1)
			go func(w int) {
				defer wg.Done()
				<-gates[w]
				for i := w; i < len(c.Ops); i += g {
					got[i] = c.Ops[i].run()
				}
			}(w)
		}
		released := map[int]bool{}
		for _, w := range c.Release {
			if w >= 0 && w < g && !released[w] {
				released[w] = true
				close(gates[w])
				runtime.Gosched()
			}
		}
		for w := 0; w < g; w++ {
			if !released[w] {
				close(gates[w])
			}
		}
		wg.Wait()
		if want == nil {
			want = make([]string, len(c.Ops))
			for i, o := range c.Ops {
				want[i] = o.run()
			}
		}
		for i := range want {
			if m := flagUnexpected(i, c.Ops[i], got[i]); m != "" {
				return m
			}
			if got[i] != want[i] {
				return fmt.Sprintf("operation %d (%s %s%s) returned a different result when run concurrently with %d other operations on %d goroutines (round %d)\n--- alone ---\n%s\n--- concurrent ---\n%s",
					i, c.Ops[i].Kind, c.Ops[i].Format, c.Ops[i].Name, len(c.Ops)-1, g, round, clip(want[i], 500), clip(got[i], 500))
			}
		}
	}
	return ""
}

// withAnonymousRegion adds a region definition without identifier to a WebVTT or TTML document.
func withAnonymousRegion(format string, doc []byte) []byte {
	if format == "vtt" {
		i := bytes.IndexAny(doc, "\r\n")
		if i < 0 {
			return doc
		}
		eol := "\n"
		if doc[i] == '\r' {
			eol = "\r"
			if i+1 < len(doc) && doc[i+1] == '\n' {
				eol = "\r\n"
			}
		}
		return append(append(append([]byte(nil), doc[:i+len(eol)]...), []byte("Region: width=10% lines=2"+eol)...), doc[i+len(eol):]...)
	}
	reg := `<region tts:extent="10% 10%"/>`
	switch {
	case bytes.Contains(doc, []byte("</layout>")):
		return bytes.Replace(doc, []byte("</layout>"), []byte(reg+"</layout>"), 1)
	case bytes.Contains(doc, []byte("</head>")):
		return bytes.Replace(doc, []byte("</head>"), []byte("<layout>"+reg+"</layout></head>"), 1)
	}
	return doc
}

// mixCase draws a spelling of an extension: each letter in either case.
func mixCase(t *rapid.T, ext string) string {
	b := []byte(ext)
	for i := range b {
		if rapid.Bool().Draw(t, "upper") {
			b[i] = byte(unicode.ToUpper(rune(b[i])))
		}
	}
	return string(b)
}

// c20FixedReads: documents that exercise what readers might share between calls - styled SubRip text (tags, colours)
// and coloured teletext rows (the package's exported colour values end up in the results) - two of each.
func c20FixedReads() []c20Op {
	var ops []c20Op
	for k, word := range []string{"first", "second"} {
		ops = append(ops, c20Op{Kind: "read", Format: "srt", Doc: []byte(fmt.Sprintf("1\n00:00:0%d,000 --> 00:00:0%d,500\n<b>%s bold</b> <i>italic</i> <u>under</u> <font color=\"#ff0000\">red</font>\n<b><i>both</i></b>\n", k+1, k+1, word))})
		st := ttxStream{Mag: 2, Tens: 0, Units: uint8(k), Serial: true, OptPID: true, OptPage: true,
			Instances: []ttxInstance{{PTS: 90000, Rows: []ttxRow{{Y: 20, Pre: []byte{0x03}, Segs: []ttxSeg{{Text: word}, {Codes: []byte{0x06}, Text: " cyan"}, {Codes: []byte{0x01, 0x0d}, Text: " red tall"}}}}}, {PTS: 180000}}}
		doc, _ := st.render()
		ops = append(ops, c20Op{Kind: "read", Format: "ts", Doc: doc, Opts: readOpts{PID: ttxPID, Page: st.pageOption()}})
	}
	return ops
}

// c20FixedWrites: lists whose runs carry colours in several spellings (what a TTML, SubRip or teletext read leaves), to
// every format: whatever a writer looks up per colour is looked up for the first time under contention.
func c20FixedWrites() []c20Op {
	var ops []c20Op
	for k, cols := range [][]string{{"#FFFF00", "white", "#123456", "Red"}, {"#00FFFF", "#ff00FF", "lime", "#abcdef"}} {
		g := glSpec{}
		for i, col := range cols {
			g.Cues = append(g.Cues, glCue{Start: int64(i+k) * 2e9, End: int64(i+k)*2e9 + 1e9, Lines: []glLine{{Runs: []glRun{{Text: "colour " + col, Color: col, TTML: map[string]string{"color": col}}}}}})
		}
		spec := g
		for _, f := range writerFormats {
			ops = append(ops, c20Op{Kind: "write", Format: f, Spec: &spec})
		}
	}
	return ops
}

var c20Transforms = []string{"add", "fragment", "unfragment", "order", "merge", "optimize", "removestyling", "forceduration", "linear"}

func genC20Op(t *rapid.T) c20Op {
	switch rapid.IntRange(0, 12).Draw(t, "kind") % 4 {
	case 3:
		return c20Op{Kind: "badext", Format: rapid.SampledFrom([]string{"foo", "bar", "txt", "sub", "SRTX", "x"}).Draw(t, "badext")}
	case 0:
		f := rapid.SampledFrom(allFormats).Draw(t, "format")
		o := c20Op{Kind: "read", Format: f, Doc: docGen(f).Draw(t, "doc")}
		if (f == "vtt" || f == "ttml") && rapid.IntRange(0, 2).Draw(t, "anonymousdef") == 0 {
			// a definition nobody refers to and that has no identifier
			o.Doc = withAnonymousRegion(f, o.Doc)
		}
		if f == "ts" && rapid.Bool().Draw(t, "pid") {
			o.Opts.PID = ttxPID
		}
		if rapid.IntRange(0, 3).Draw(t, "hostiledoc") == 0 {
			// a document with several things wrong: the call fails the same way every time
			o.Doc, o.Opts = genHostileDoc(t, f)
		}
		o.ViaOpen = rapid.IntRange(0, 3).Draw(t, "viaopen") == 0
		if o.ViaOpen {
			o.Ext = mixCase(t, f)
		}
		return o
	case 1:
		g := genGLRaw(t)
		o := c20Op{Kind: "write", Format: rapid.SampledFrom(writerFormats).Draw(t, "writer"), Spec: &g}
		if rapid.IntRange(0, 3).Draw(t, "tofile") == 0 {
			o.Format = "file:" + mixCase(t, rapid.SampledFrom([]string{"srt", "vtt", "ssa", "ass", "ttml", "stl"}).Draw(t, "fileext"))
			return o
		}
		if rapid.IntRange(0, 3).Draw(t, "failingdest") == 0 {
			// the destination of this call fails: no other call may notice
			o.FailAt, o.FailMode = rapid.IntRange(1, 400).Draw(t, "failat"), rapid.IntRange(0, 2).Draw(t, "failmode")
		}
		return o
	default:
		name := rapid.SampledFrom(c20Transforms).Draw(t, "name")
		for extra := rapid.IntRange(0, 2).Draw(t, "extra"); extra > 0; extra-- {
			name += "+" + rapid.SampledFrom(append([]string{"edittext"}, c20Transforms...)).Draw(t, "name2")
		}
		if rapid.IntRange(0, 3).Draw(t, "sameopafteredit") == 0 {
			// an operation, the caller editing the texts of its cues, the same operation again
			x := rapid.SampledFrom([]string{"unfragment", "unfragment", "fragment", "order", "forceduration", "add"}).Draw(t, "repeated")
			name = x + "+edittext+" + x
			return c20Op{Kind: "transform", Name: name, Cues: genCues(t, 0, 6, 100*nsMs*1000, opTexts), Arg: rapid.Int64Range(5000, 200000).Draw(t, "bigarg") * nsMs}
		}
		if rapid.IntRange(0, 3).Draw(t, "fillerthenedit") == 0 {
			// a filler cue is created, then the caller edits or strips the list it owns
			name = "forceduration+" + rapid.SampledFrom([]string{"removestyling", "edittext", "edittext+forceduration"}).Draw(t, "after")
		}
		cues := genCues(t, 0, 6, 100*nsMs*1000, opTexts)
		// the argument (period, shift, duration) is bounded from below so that no operation yields more than a few
		// hundred cues: under the race detector, tens of thousands of them per call exhaust the machine's memory
		var maxEnd int64 = nsMs
		for _, cu := range cues {
			if cu.E > maxEnd {
				maxEnd = cu.E
			}
		}
		return c20Op{Kind: "transform", Name: name, Cues: cues, Arg: rapid.Int64Range(maxEnd/nsMs/300+1, 200000).Draw(t, "arg") * nsMs}
	}
}

// c20STLRowReads: EBU STL files that use the same row under different numbers of displayable rows and display
// standards: the line percentage each read derives is known by construction (row 10 of 23 teletext rows: 39%, of 99
// in-vision rows: 10%, of 11: 90%), whatever the process read before.
func c20STLRowReads() []c20Op {
	var ops []c20Op
	for _, v := range []struct {
		dsc  string
		mnr  int
		want string
	}{{"1", 23, `WebVTTLine:"39%"`}, {"0", 99, `WebVTTLine:"10%"`}, {"0", 11, `WebVTTLine:"90%"`}, {"2", 23, `WebVTTLine:"39%"`}} {
		d := stlDoc{GSI: stlGSI{Rate: 25, DSC: v.dsc, LC: "09", CD: "170702", RD: "170702", MNC: 40, MNR: v.mnr}}
		d.Cues = append(d.Cues, stlCue{In: stlTC{0, 0, 1, 0}, Out: stlTC{0, 0, 2, 0}, VP: 10, JC: 2, Rows: [][]stlRun{{{Text: "row", Color: -1}}}})
		if b, ok := renderSTL(d); ok {
			ops = append(ops, c20Op{Kind: "read", Format: "stl", Doc: b, WantAny: []string{v.want}})
		}
	}
	return ops
}

func TestC20(t *testing.T) {
	runWitnesses(t, "C20")
	// fixed cold-start cases: the reads above plus the fixed styled reads, as the first calls of a process - one after
	// the other in both directions (history), and concurrently
	sub(t, "fixed-cold-start", func(t *testing.T) {
		if cfgShard != 0 {
			return
		}
		ops := append(c20STLRowReads(), c20FixedReads()...)
		for _, history := range []bool{true, false} {
			c := c20Case{Goroutines: 8, Rounds: 1, Cold: true, History: history, Release: []int{0, 1, 2, 3, 4, 5, 6, 7}}
			c.Ops = append(append(c.Ops, ops...), ops...)
			ev.Case(true, fmt.Sprintf("fixed-cold-%v", history), "cold-start", "fixed-stl-rows", map[bool]string{true: "cold-start-history", false: "cold-start-concurrent"}[history])
			verdict(t, "C20", "c20", c, checkC20)
		}
	})
	rapidCheck(t, "C20/multisets", tier(96, 4000), func(rt *rapid.T) {
		n := rapid.IntRange(4, 64).Draw(rt, "nops")
		c := c20Case{Goroutines: rapid.IntRange(2, 32).Draw(rt, "goroutines"), Rounds: rapid.IntRange(1, 2).Draw(rt, "rounds")}
		// a few distinct operations repeated: same tables hit from several goroutines at once
		base := rapid.IntRange(2, 8).Draw(rt, "distinct")
		var pool []c20Op
		for i := 0; i < base; i++ {
			pool = append(pool, genC20Op(rt))
		}
		if rapid.IntRange(0, 3).Draw(rt, "segments") == 0 {
			// files of one directory read through the opener: WebVTT segments with and without a timestamp map, and
			// documents in which several things are wrong at once (which error comes back is part of the result)
			withMap := []byte("WEBVTT\nX-TIMESTAMP-MAP=LOCAL:00:00:00.000,MPEGTS:900000\n\n00:00:01.000 --> 00:00:02.000\nfirst segment\n")
			without := []byte("WEBVTT\n\n00:00:03.000 --> 00:00:04.000\nsecond segment\n")
			faulty := []byte(`<tt xmlns="http://www.w3.org/ns/ttml"><head><styling><style xml:id="s"/></styling></head><body><div><p begin="1s" end="2s" style="nope1">a</p><p begin="3s" end="4s" region="nope2">b</p><p begin="5s">c</p><p begin="6s" end="7s"><span style="nope3">d</span></p></div></body></tt>`)
			faultyVTT := []byte("WEBVTT\n\n00:00:01.000 --> 00:00:02.000 region:nope1\na\n\n00:00:03.000 --> x\nb\n\nRegion: id=\n")
			// two teletext streams using the same national option code, one of them with a designation packet (M/29)
			// that selects another character set for it
			for _, des := range []int{0, 5} {
				st := ttxStream{Mag: 1, Tens: 2, Units: 3, Serial: true, OptPID: true, OptPage: true, Designation: des,
					Instances: []ttxInstance{{PTS: 90000, Rows: []ttxRow{{Y: 20, Segs: []ttxSeg{{Text: "a#$b @[]"}}}}}, {PTS: 180000}}}
				doc, exp := st.render()
				run := exp[0].Lines[0].Runs[0]
				pool = append(pool, c20Op{Kind: "read", Format: "ts", Doc: doc, Opts: readOpts{PID: ttxPID, Page: st.pageOption()}, WantAny: []string{fmt.Sprintf("%q", run.Text), fmt.Sprintf("%q", run.AltText)}})
			}
			pool = append(pool, c20FixedReads()...)
			pool = append(pool, c20FixedWrites()...)
			// two scripts whose colours have the same digits, one decimal and one hexadecimal: results known by construction
			for _, sc := range [][2]string{{"16777215", "Blue:255 Green:255 Red:255"}, {"&H16777215", "Alpha:22 Blue:119 Green:114 Red:21"}} {
				doc := []byte("[Script Info]\nTitle: t\n\n[V4 Styles]\nFormat: Name, PrimaryColour\nStyle: a," + sc[0] + "\n\n[Events]\nFormat: Start, End, Style, Text\nDialogue: 0:00:01.00,0:00:02.00,a,x\n")
				pool = append(pool, c20Op{Kind: "read", Format: "ssa", Doc: doc, WantAny: []string{sc[1]}})
			}
			// two large lists (thousands of cues) written to WebVTT: big enough for any buffer the writer might keep around
			for k := 0; k < 2 && rapid.IntRange(0, 2).Draw(rt, "biglists") == 0; k++ {
				big := genGL(rt, false)
				if len(big.Cues) > 0 {
					one := big.Cues[0]
					big.Cues = nil
					for i := 0; i < 2100+k; i++ {
						big.Cues = append(big.Cues, one)
					}
					pool = append(pool, c20Op{Kind: "write", Format: "vtt", Spec: &big})
				}
			}
			for _, via := range []bool{true, false} {
				pool = append(pool, c20Op{Kind: "read", Format: "vtt", Doc: withMap, ViaOpen: via}, c20Op{Kind: "read", Format: "vtt", Doc: without, ViaOpen: via},
					c20Op{Kind: "read", Format: "ttml", Doc: faulty, ViaOpen: via}, c20Op{Kind: "read", Format: "vtt", Doc: faultyVTT, ViaOpen: via})
			}
			base = len(pool)
		}
		if rapid.IntRange(0, 3).Draw(rt, "optiontrio") == 0 {
			// the same list written with per-call options and without
			g := genGL(rt, false)
			for _, f := range []string{"ttml", "ttml-indent:" + rapid.SampledFrom([]string{"", "\t"}).Draw(rt, "indentA"), "ttml-indent:" + rapid.SampledFrom([]string{"  ", "        "}).Draw(rt, "indentB")} {
				pool = append(pool, c20Op{Kind: "write", Format: f, Spec: &g})
			}
			base = len(pool)
		}
		for i := 0; i < n; i++ {
			c.Ops = append(c.Ops, pool[rapid.IntRange(0, base-1).Draw(rt, "pick")])
		}
		c.Release = genPerm(rt, c.Goroutines, "release")
		kinds := map[string]bool{}
		for _, o := range c.Ops {
			kinds[o.Kind+o.Format+o.Name] = true
		}
		ev.Case(len(kinds) >= 2, fmt.Sprintf("%v", c), "multiset", fmt.Sprintf("gomaxprocs-%d", runtime.GOMAXPROCS(0)))
		if len(c.Ops) <= 6 {
			var descr []string
			for _, o := range c.Ops {
				descr = append(descr, o.Kind+":"+o.Format+o.Name)
			}
			ev.Sample("multiset", map[string]any{"ops": descr, "goroutines": c.Goroutines, "release": c.Release, "rounds": c.Rounds})
		}
		verdict(rt, "C20", "c20", c, checkC20)
	})
	// cold start: each case in a fresh process whose first calls into the package are the concurrent ones
	rapidCheck(t, "C20/cold-start", tier(12, 300), func(rt *rapid.T) {
		c := c20Case{Goroutines: rapid.IntRange(4, 16).Draw(rt, "goroutines"), Rounds: 1, Cold: true, History: rapid.Bool().Draw(rt, "history")}
		var pool []c20Op
		for i := rapid.IntRange(2, 4).Draw(rt, "distinct"); i > 0; i-- {
			pool = append(pool, genC20Op(rt))
		}
		// the writers with lazily built tables are always part of it
		g := genGL(rt, false)
		// every writer and every reader takes part (whatever any of them builds on first use is then built under contention)
		g2 := genGLRaw(rt)
		for _, f := range writerFormats {
			pool = append(pool, c20Op{Kind: "write", Format: f, Spec: &g}, c20Op{Kind: "write", Format: f, Spec: &g2})
		}
		for _, f := range allFormats {
			pool = append(pool, c20Op{Kind: "read", Format: f, Doc: docGen(f).Draw(rt, "colddoc")})
		}
		// a document the SSA reader has remarks about (unknown sections, lines it does not understand), and extensions
		// the file-level helpers refuse
		nd, ncols := genSSADoc(rt, false)
		nr := genSSARendering(rt, ncols)
		nr.Junk, nr.UnknownSec = true, true
		pool = append(pool, c20Op{Kind: "read", Format: "ssa", Doc: renderSSA(nd, nr)},
			c20Op{Kind: "badext", Format: rapid.SampledFrom([]string{"foo", "txt", "SRTX"}).Draw(rt, "badext1")},
			c20Op{Kind: "badext", Format: rapid.SampledFrom([]string{"bar", "sub", "x"}).Draw(rt, "badext2")})
		// a language code the library has no name for, met by a reader and handed to a writer
		code := rapid.SampledFrom([]string{"de", "xx", "it"}).Draw(rt, "langcode")
		gl := genGL(rt, false)
		gl.Meta.Lang, gl.Meta.Nil = code, false
		td := genTTMLDoc(rt, false)
		td.Lang = code
		pool = append(pool, c20Op{Kind: "read", Format: "ttml", Doc: renderTTML(td, ttmlRendering{StylePfx: "tts", XMLID: true, EOL: "\n"})}, c20Op{Kind: "write", Format: "ttml", Spec: &gl})
		pool = append(pool, c20FixedReads()...)
		pool = append(pool, c20FixedWrites()...)
		// the file-level helpers under extension spellings this process has not met yet
		for _, f := range []string{"srt", "vtt", "ttml", "ssa", "stl"} {
			pool = append(pool, c20Op{Kind: "write", Format: "file:" + mixCase(rt, f), Spec: &g},
				c20Op{Kind: "read", Format: f, Doc: docGen(f).Draw(rt, "coldfiledoc"), ViaOpen: true, Ext: mixCase(rt, f)})
		}
		for _, des := range []int{0, 5} {
			st := ttxStream{Mag: 1, Tens: 2, Units: 3, Serial: true, OptPID: true, OptPage: true, Designation: des,
				Instances: []ttxInstance{{PTS: 90000, Rows: []ttxRow{{Y: 20, Segs: []ttxSeg{{Text: "a#$b @[]"}}}}}, {PTS: 180000}}}
			doc, exp := st.render()
			run := exp[0].Lines[0].Runs[0]
			pool = append(pool, c20Op{Kind: "read", Format: "ts", Doc: doc, Opts: readOpts{PID: ttxPID, Page: st.pageOption()}, WantAny: []string{fmt.Sprintf("%q", run.Text), fmt.Sprintf("%q", run.AltText)}})
		}
		// each operation of the pool twice (two goroutines meet in the same code for the first time), then random picks
		c.Ops = append(append(c.Ops, pool...), pool...)
		for i := rapid.IntRange(0, 16).Draw(rt, "nops"); i > 0; i-- {
			c.Ops = append(c.Ops, pool[rapid.IntRange(0, len(pool)-1).Draw(rt, "pick")])
		}
		for i, j := range genPerm(rt, len(c.Ops), "opsorder") {
			c.Ops[i], c.Ops[j] = c.Ops[j], c.Ops[i]
		}
		c.Release = genPerm(rt, c.Goroutines, "release")
		ev.Case(true, fmt.Sprintf("%v", c), "cold-start", map[bool]string{true: "cold-start-history", false: "cold-start-concurrent"}[c.History])
		verdict(rt, "C20", "c20", c, checkC20)
	})
}

package props

import (
	"fmt"
	"regexp"
	"strconv"
	"strings"
)

// Independent SubRip decoder (harness side, shares nothing with the library):
// own line splitter, timing-line grammar, tag scanner for b/i/u/font and a
// single-pass entity table.

var srtTimingRe = regexp.MustCompile(`^\s*(\d+):(\d{2}):(\d{2})[,.](\d{1,3})\s*-->\s*(\d+):(\d{2}):(\d{2})[,.](\d{1,3})(\s.*)?$`)

func splitLinesAny(b []byte) []string {
	s := string(b)
	var lines []string
	start := 0
	for i := 0; i < len(s); i++ {
		switch s[i] {
		case '\n':
			lines = append(lines, s[start:i])
			start = i + 1
		case '\r':
			lines = append(lines, s[start:i])
			if i+1 < len(s) && s[i+1] == '\n' {
				i++
			}
			start = i + 1
		}
	}
	if start < len(s) {
		lines = append(lines, s[start:])
	}
	return lines
}

func srtMs(h, m, s, f string) int64 {
	hh, _ := strconv.ParseInt(h, 10, 64)
	mm, _ := strconv.ParseInt(m, 10, 64)
	ss, _ := strconv.ParseInt(s, 10, 64)
	for len(f) < 3 {
		f += "0"
	}
	ff, _ := strconv.ParseInt(f, 10, 64)
	return ((hh*60+mm)*60+ss)*1000 + ff
}

var srtEntities = map[string]string{"&amp;": "&", "&lt;": "<", "&gt;": ">", "&nbsp;": "\u00a0", "&quot;": "\""}

// decodeSRTText scans one physical line; st is the emphasis state carried between lines of a cue.
func decodeSRTText(line string, st *srtRun) []srtRun {
	var runs []srtRun
	var cur strings.Builder
	flush := func() {
		if cur.Len() > 0 {
			r := *st
			r.Text = cur.String()
			runs = append(runs, r)
			cur.Reset()
		}
	}
	for i := 0; i < len(line); {
		c := line[i]
		if c == '<' {
			if end := strings.IndexByte(line[i:], '>'); end > 0 {
				inner := line[i+1 : i+end]
				closing := strings.HasPrefix(inner, "/")
				name := strings.ToLower(strings.TrimSpace(strings.TrimPrefix(inner, "/")))
				attrs := ""
				if sp := strings.IndexAny(name, " \t"); sp >= 0 {
					name, attrs = name[:sp], strings.TrimSpace(inner[strings.IndexAny(inner, " \t")+1:])
				}
				known := true
				switch name {
				case "b":
					flush()
					st.B = !closing
				case "i":
					flush()
					st.I = !closing
				case "u":
					flush()
					st.U = !closing
				case "font":
					flush()
					if closing {
						st.Color = ""
					} else if m := regexp.MustCompile(`(?i)color\s*=\s*("([^"]*)"|'([^']*)'|([^\s>]+))`).FindStringSubmatch(attrs); m != nil {
						st.Color = m[2] + m[3] + m[4]
					}
				default:
					known = false
				}
				if known {
					i += end + 1
					continue
				}
			}
		}
		if c == '&' {
			matched := false
			for ent, rep := range srtEntities {
				if strings.HasPrefix(line[i:], ent) {
					cur.WriteString(rep)
					i += len(ent)
					matched = true
					break
				}
			}
			if matched {
				continue
			}
		}
		cur.WriteByte(c)
		i++
	}
	flush()
	return runs
}

func decodeSRTIndep(b []byte) (srtDoc, error) {
	d := srtDoc{}
	b = []byte(strings.TrimPrefix(string(b), "\xef\xbb\xbf"))
	lines := splitLinesAny(b)
	// blocks separated by blank lines
	i := 0
	for i < len(lines) {
		for i < len(lines) && strings.TrimSpace(lines[i]) == "" {
			i++
		}
		if i >= len(lines) {
			break
		}
		// optional index line
		if !srtTimingRe.MatchString(lines[i]) {
			if i+1 < len(lines) && srtTimingRe.MatchString(lines[i+1]) {
				if _, err := strconv.Atoi(strings.TrimSpace(lines[i])); err != nil {
					return d, fmt.Errorf("line %d: cue identifier %q is not a number", i+1, lines[i])
				}
				i++
			} else {
				return d, fmt.Errorf("line %d: expected a timing line, got %q", i+1, lines[i])
			}
		}
		m := srtTimingRe.FindStringSubmatch(lines[i])
		if mm, _ := strconv.Atoi(m[2]); mm > 59 {
			return d, fmt.Errorf("line %d: minutes %s", i+1, m[2])
		}
		if ss, _ := strconv.Atoi(m[3]); ss > 59 {
			return d, fmt.Errorf("line %d: seconds %s", i+1, m[3])
		}
		c := srtCue{Start: srtMs(m[1], m[2], m[3], m[4]), End: srtMs(m[5], m[6], m[7], m[8])}
		i++
		st := &srtRun{}
		for i < len(lines) && strings.TrimSpace(lines[i]) != "" {
			c.Lines = append(c.Lines, decodeSRTText(lines[i], st))
			i++
		}
		d.Cues = append(d.Cues, c)
	}
	return d, nil
}

package props

import (
	"fmt"
	"math/big"
	"strings"
	"time"

	astisub "github.com/asticode/go-astisub"
	"golang.org/x/text/unicode/norm"
	"pgregory.net/rapid"
)

// Ground-truth model of an EBU Tech 3264 (STL) file (C05) and the harness's own
// GSI/TTI encoder and decoder. Field offsets are those of Tech 3264; the Latin
// code table (ISO 6937/2) is typed in below, independently of the library's.

// iso6937 maps the single-byte graphic characters of the Latin table.
var iso6937 = map[byte]rune{
	0xa0: '\u00a0', 0xa1: '¡', 0xa2: '¢', 0xa3: '£', 0xa4: '$', 0xa5: '¥', 0xa7: '§', 0xa8: '¤', 0xa9: '‘', 0xaa: '“', 0xab: '«', 0xac: '←', 0xad: '↑', 0xae: '→', 0xaf: '↓',
	0xb0: '°', 0xb1: '±', 0xb2: '²', 0xb3: '³', 0xb4: '×', 0xb5: 'µ', 0xb6: '¶', 0xb7: '·', 0xb8: '÷', 0xb9: '’', 0xba: '”', 0xbb: '»', 0xbc: '¼', 0xbd: '½', 0xbe: '¾', 0xbf: '¿',
	0xd0: '―', 0xd1: '¹', 0xd2: '®', 0xd3: '©', 0xd4: '™', 0xd5: '♪', 0xd6: '¬', 0xd7: '¦', 0xdc: '⅛', 0xdd: '⅜', 0xde: '⅝', 0xdf: '⅞',
	0xe0: 'Ω', 0xe1: 'Æ', 0xe2: 'Đ', 0xe3: 'ª', 0xe4: 'Ħ', 0xe6: 'Ĳ', 0xe7: 'Ŀ', 0xe8: 'Ł', 0xe9: 'Ø', 0xea: 'Œ', 0xeb: 'º', 0xec: 'Þ', 0xed: 'Ŧ', 0xee: 'Ŋ', 0xef: 'ŉ',
	0xf0: 'ĸ', 0xf1: 'æ', 0xf2: 'đ', 0xf3: 'ð', 0xf4: 'ħ', 0xf5: 'ı', 0xf6: 'ĳ', 0xf7: 'ŀ', 0xf8: 'ł', 0xf9: 'ø', 0xfa: 'œ', 0xfb: 'ß', 0xfc: 'þ', 0xfd: 'ŧ', 0xfe: 'ŋ', 0xff: '\u00ad',
}

// iso6937Diacritics maps the non-spacing diacritical marks (they precede the letter).
var iso6937Diacritics = map[byte]rune{
	0xc1: 0x0300, 0xc2: 0x0301, 0xc3: 0x0302, 0xc4: 0x0303, 0xc5: 0x0304, 0xc6: 0x0306, 0xc7: 0x0307, 0xc8: 0x0308, 0xca: 0x030a, 0xcb: 0x0327, 0xcd: 0x030b, 0xce: 0x0328, 0xcf: 0x030c,
}

func init() {
	for b := byte(0x20); b <= 0x7e; b++ {
		iso6937[b] = rune(b)
	}
	iso6937[0x24] = '¤' // position 2/4 is the currency sign, the dollar is 10/4
}

var (
	iso6937Rev     = map[rune]byte{}
	iso6937DiacRev = map[rune]byte{}
)

func init() {
	for b, r := range iso6937 {
		if b == 0xa8 { // second position of the currency sign; 2/4 is the canonical one
			continue
		}
		iso6937Rev[r] = b
	}
	for b, r := range iso6937Diacritics {
		iso6937DiacRev[r] = b
	}
}

// encode6937 encodes s (Latin repertoire) into the Latin table; ok=false when a rune is outside it.
func encode6937(s string) ([]byte, bool) {
	var out []byte
	lastBase := -1
	for _, r := range s {
		if b, ok := iso6937Rev[r]; ok {
			lastBase = len(out)
			out = append(out, b)
			continue
		}
		// precomposed letter or combining sequence: base letter preceded by its diacritical mark
		for _, d := range norm.NFD.String(string(r)) {
			if b, ok := iso6937Rev[d]; ok {
				lastBase = len(out)
				out = append(out, b)
			} else if m, ok := iso6937DiacRev[d]; ok && lastBase >= 0 && lastBase == len(out)-1 {
				out = append(out[:lastBase], m, out[lastBase])
			} else {
				return nil, false
			}
		}
	}
	return out, true
}

// decode6937 decodes Latin-table bytes; unknown codes contribute nothing.
func decode6937(b []byte) string {
	var sb strings.Builder
	var pending rune
	for _, c := range b {
		if m, ok := iso6937Diacritics[c]; ok {
			pending = m
			continue
		}
		r, ok := iso6937[c]
		if !ok {
			continue
		}
		if pending != 0 {
			sb.WriteString(norm.NFC.String(string([]rune{r, pending})))
			pending = 0
		} else {
			sb.WriteRune(r)
		}
	}
	return sb.String()
}

type stlTC struct {
	H int `json:"h"`
	M int `json:"m"`
	S int `json:"s"`
	F int `json:"f"`
}

func (t stlTC) exactNs(rate int) *big.Rat {
	r := new(big.Rat).SetInt64(int64((t.H*60+t.M)*60+t.S) * 1_000_000_000)
	return r.Add(r, new(big.Rat).SetFrac64(int64(t.F)*1_000_000_000, int64(rate)))
}

func (t stlTC) frames(rate int) int64 { return int64((t.H*60+t.M)*60+t.S)*int64(rate) + int64(t.F) }

func tcFromFrames(n int64, rate int) stlTC {
	f := int(n % int64(rate))
	s := n / int64(rate)
	return stlTC{H: int(s / 3600), M: int(s / 60 % 60), S: int(s % 60), F: f}
}

type stlRun struct {
	Text      string `json:"text"`
	Italic    bool   `json:"italic,omitempty"`
	Underline bool   `json:"underline,omitempty"`
	Box       bool   `json:"box,omitempty"`
	Color     int    `json:"color"` // teletext display standards: 0..7, -1 none
	DoubleH   bool   `json:"double_height,omitempty"`
	// Recode: the run is introduced by a style code that repeats the state already in force (read direction, open subtitling)
	Recode bool `json:"recode,omitempty"`
}

type stlCue struct {
	In   stlTC      `json:"in"`
	Out  stlTC      `json:"out"`
	VP   int        `json:"vp"`
	JC   int        `json:"jc"` // 0 unchanged, 1 left, 2 centred, 3 right
	Rows [][]stlRun `json:"rows"`
	// UserDataBefore: number of user-data TTI blocks (EBN 0xFE) placed before this cue
	UserDataBefore int `json:"user_data_before,omitempty"`
	// ExtraBreak (read direction): one more line-break code that delimits an empty row: 1 ahead of the first row,
	// 2 doubled between the first two rows (after the first when there is one row), 3 after the last row
	ExtraBreak int `json:"extra_break,omitempty"`
	// Comment (read direction): the block's comment flag is 01h (translator's comment); it is a TTI block like any other
	Comment bool `json:"comment,omitempty"`
	// EBN (read direction): 0 = the block is numbered FFh (last block of its subtitle); n > 0 = extension block number n-1
	// (00h..EFh), the block sharing its subtitle number with the next one. One cue per TTI block all the same
	EBN int `json:"ebn,omitempty"`
	// CS (read direction): the block's cumulative status byte (01h first, 02h intermediate, 03h last subtitle of a
	// cumulative set): one cue per TTI block with its own timecodes and text all the same
	CS int `json:"cs,omitempty"`
}

type stlGSI struct {
	Rate int    `json:"rate"` // 25 | 30
	DSC  string `json:"dsc"`  // "0" open subtitling, "1"/"2" teletext
	LC   string `json:"lc"`
	OPT  string `json:"opt"`
	OET  string `json:"oet"`
	TPT  string `json:"tpt"`
	TET  string `json:"tet"`
	TN   string `json:"tn"`
	TCD  string `json:"tcd"`
	SLR  string `json:"slr"`
	CD   string `json:"cd"` // YYMMDD
	RD   string `json:"rd"`
	RN   int    `json:"rn"`
	MNC  int    `json:"mnc"`
	MNR  int    `json:"mnr"`
	TCP  stlTC  `json:"tcp"`
	CO   string `json:"co"`
	PUB  string `json:"pub"`
	EN   string `json:"en"`
	ECD  string `json:"ecd"`
}

type stlDoc struct {
	GSI  stlGSI   `json:"gsi"`
	Cues []stlCue `json:"cues"`
	// SpaceAround: blanks written around runs (not part of what the file denotes)
	SpaceAround bool `json:"space_around"`
	TrailingUD  int  `json:"trailing_user_data"`
	// TCS0 (read direction): the GSI time code status byte says "not intended for use" ('0'); readers take the
	// timecodes as they are all the same
	TCS0 bool `json:"tcs0,omitempty"`
}

func padField(s string, n int) []byte {
	b := []byte(s)
	for len(b) < n {
		b = append(b, ' ')
	}
	return b[:n]
}

func renderGSI(g stlGSI, nBlocks, nSubs int) []byte {
	b := make([]byte, 0, 1024)
	b = append(b, "850"...)
	b = append(b, fmt.Sprintf("STL%d.01", g.Rate)...)
	b = append(b, padField(g.DSC, 1)...)
	b = append(b, "00"...)
	b = append(b, padField(g.LC, 2)...)
	b = append(b, padField(g.OPT, 32)...)
	b = append(b, padField(g.OET, 32)...)
	b = append(b, padField(g.TPT, 32)...)
	b = append(b, padField(g.TET, 32)...)
	b = append(b, padField(g.TN, 32)...)
	b = append(b, padField(g.TCD, 32)...)
	b = append(b, padField(g.SLR, 16)...)
	b = append(b, padField(g.CD, 6)...)
	b = append(b, padField(g.RD, 6)...)
	b = append(b, fmt.Sprintf("%02d", g.RN)...)
	b = append(b, fmt.Sprintf("%05d", nBlocks)...)
	b = append(b, fmt.Sprintf("%05d", nSubs)...)
	b = append(b, "001"...)
	b = append(b, fmt.Sprintf("%02d", g.MNC)...)
	b = append(b, fmt.Sprintf("%02d", g.MNR)...)
	b = append(b, '1')
	b = append(b, fmt.Sprintf("%02d%02d%02d%02d", g.TCP.H, g.TCP.M, g.TCP.S, g.TCP.F)...)
	b = append(b, "00000000"...)
	b = append(b, '1', '1')
	b = append(b, padField(g.CO, 3)...)
	b = append(b, padField(g.PUB, 32)...)
	b = append(b, padField(g.EN, 32)...)
	b = append(b, padField(g.ECD, 32)...)
	for len(b) < 1024 {
		b = append(b, ' ')
	}
	return b
}

// renderSTLRow encodes the runs of one row. open: open-subtitling style codes
// (each code changes state); teletext: colour / double height codes and a box.
func renderSTLRow(runs []stlRun, teletext, spaceAround bool) ([]byte, bool) {
	var out []byte
	it, un, bx := false, false, false
	color, dh := -1, false
	started := false
	for i, r := range runs {
		if teletext && started && i > 0 && len(r.Text)%4 == 1 {
			// the box is closed after the previous run and opened again for this one (two boxed parts in one row)
			out = append(out, 0x0a, 0x0a, 0x0b, 0x0b)
		}
		if teletext {
			if r.Color != color && r.Color >= 0 {
				out = append(out, byte(r.Color))
				color = r.Color
			}
			if r.DoubleH != dh {
				if r.DoubleH {
					out = append(out, 0x0d)
				} else {
					out = append(out, 0x0c)
				}
				dh = r.DoubleH
			}
			if !started {
				if len(r.Text)%3 == 0 {
					// the style codes of the first run ahead of the start box (they hold from where they stand)
					if r.Italic != it {
						out = append(out, map[bool]byte{true: 0x80, false: 0x81}[r.Italic])
						it = r.Italic
					}
					if r.Underline != un {
						out = append(out, map[bool]byte{true: 0x82, false: 0x83}[r.Underline])
						un = r.Underline
					}
					if r.Box != bx {
						out = append(out, map[bool]byte{true: 0x84, false: 0x85}[r.Box])
						bx = r.Box
					}
				}
				out = append(out, 0x0b, 0x0b)
				started = true
			}
		}
		if r.Italic != it {
			out = append(out, map[bool]byte{true: 0x80, false: 0x81}[r.Italic])
			it = r.Italic
		}
		if r.Underline != un {
			out = append(out, map[bool]byte{true: 0x82, false: 0x83}[r.Underline])
			un = r.Underline
		}
		if r.Box != bx {
			out = append(out, map[bool]byte{true: 0x84, false: 0x85}[r.Box])
			bx = r.Box
		}
		if r.Recode && i > 0 {
			// one more code that changes nothing: runs are split at codes, not at changes
			switch len(r.Text) % 3 {
			case 0:
				out = append(out, map[bool]byte{true: 0x80, false: 0x81}[it])
			case 1:
				out = append(out, map[bool]byte{true: 0x82, false: 0x83}[un])
			default:
				out = append(out, map[bool]byte{true: 0x84, false: 0x85}[bx])
			}
		}
		if spaceAround && i > 0 {
			out = append(out, ' ')
		}
		enc, ok := encode6937(r.Text)
		if !ok {
			return nil, false
		}
		out = append(out, enc...)
		if spaceAround {
			out = append(out, ' ')
		}
	}
	if teletext && started {
		out = append(out, 0x0a, 0x0a)
	}
	return out, true
}

func renderSTL(d stlDoc) ([]byte, bool) {
	teletext := d.GSI.DSC != "0"
	nBlocks := d.TrailingUD
	for _, c := range d.Cues {
		nBlocks += 1 + c.UserDataBefore
	}
	out := renderGSI(d.GSI, nBlocks, len(d.Cues))
	if d.TCS0 {
		out[255] = '0'
	}
	ud := func() {
		blk := make([]byte, 128)
		blk[3] = 0xfe
		copy(blk[16:], "user data block, not a subtitle \x0b\x0bignored\x0a\x0a")
		out = append(out, blk...)
	}
	sn := 1
	for _, c := range d.Cues {
		for k := 0; k < c.UserDataBefore; k++ {
			ud()
		}
		blk := make([]byte, 16, 128)
		blk[0] = 0
		blk[1], blk[2] = byte(sn), byte(sn>>8)
		blk[3] = 0xff
		if c.EBN > 0 {
			blk[3] = byte(c.EBN - 1)
		} else {
			sn++
		}
		blk[4] = byte(c.CS)
		blk[5], blk[6], blk[7], blk[8] = byte(c.In.H), byte(c.In.M), byte(c.In.S), byte(c.In.F)
		blk[9], blk[10], blk[11], blk[12] = byte(c.Out.H), byte(c.Out.M), byte(c.Out.S), byte(c.Out.F)
		blk[13] = byte(c.VP)
		blk[14] = byte(c.JC)
		blk[15] = 0
		if c.Comment {
			blk[15] = 1
		}
		var tf []byte
		if c.ExtraBreak == 1 {
			tf = append(tf, 0x8a)
		}
		for j, row := range c.Rows {
			if j > 0 {
				tf = append(tf, 0x8a)
			}
			if j == 1 && c.ExtraBreak == 2 {
				tf = append(tf, 0x8a)
			}
			enc, ok := renderSTLRow(row, teletext, d.SpaceAround)
			if !ok {
				return nil, false
			}
			tf = append(tf, enc...)
		}
		if c.ExtraBreak == 3 || c.ExtraBreak == 2 && len(c.Rows) == 1 {
			tf = append(tf, 0x8a)
		}
		if len(tf) > 112 {
			return nil, false
		}
		blk = append(blk, tf...)
		for len(blk) < 128 {
			blk = append(blk, 0x8f)
		}
		out = append(out, blk...)
	}
	for k := 0; k < d.TrailingUD; k++ {
		ud()
	}
	return out, true
}

// ---------------------------------------------------------------------------
// Observation

type stlObsCue struct {
	In, Out int64 // ns
	VP, JC  int   // JC -1 when unknown
	Rows    [][]stlRun
	NRows   int // STLPosition.Rows, -1 when absent
}

type stlObs struct {
	GSI  stlGSI
	TCP  int64
	Cues []stlObsCue
}

func bval(p *bool) bool { return p != nil && *p }

var teletextColors = []*astisub.Color{astisub.ColorBlack, astisub.ColorRed, astisub.ColorGreen, astisub.ColorYellow, astisub.ColorBlue, astisub.ColorMagenta, astisub.ColorCyan, astisub.ColorWhite}

func colorIndex(c *astisub.Color) int {
	if c == nil {
		return -1
	}
	for i, k := range teletextColors {
		if *k == *c {
			return i
		}
	}
	return -2
}

func projSTL(s *astisub.Subtitles) (stlObs, string) {
	o := stlObs{}
	if m := s.Metadata; m != nil {
		o.GSI = stlGSI{Rate: m.Framerate, DSC: m.STLDisplayStandardCode, OPT: m.Title, OET: m.STLOriginalEpisodeTitle, TPT: m.STLTranslatedProgramTitle, TET: m.STLTranslatedEpisodeTitle,
			TN: m.STLTranslatorName, TCD: m.STLTranslatorContactDetails, SLR: m.STLSubtitleListReferenceCode, RN: m.STLRevisionNumber, CO: m.STLCountryOfOrigin, PUB: m.STLPublisher,
			EN: m.STLEditorName, ECD: m.STLEditorContactDetails}
		if m.STLCreationDate != nil && !m.STLCreationDate.IsZero() {
			o.GSI.CD = m.STLCreationDate.Format("060102")
		}
		if m.STLRevisionDate != nil && !m.STLRevisionDate.IsZero() {
			o.GSI.RD = m.STLRevisionDate.Format("060102")
		}
		if m.STLMaximumNumberOfDisplayableCharactersInAnyTextRow != nil {
			o.GSI.MNC = *m.STLMaximumNumberOfDisplayableCharactersInAnyTextRow
		}
		if m.STLMaximumNumberOfDisplayableRows != nil {
			o.GSI.MNR = *m.STLMaximumNumberOfDisplayableRows
		}
		o.GSI.LC = m.Language // mapped name, compared through stlLangs
		o.TCP = int64(m.STLTimecodeStartOfProgramme)
	}
	for _, it := range s.Items {
		c := stlObsCue{In: int64(it.StartAt), Out: int64(it.EndAt), JC: -1, VP: -1, NRows: -1}
		if sa := it.InlineStyle; sa != nil {
			if sa.STLJustification != nil {
				switch *sa.STLJustification {
				case astisub.JustificationUnchanged:
					c.JC = 0
				case astisub.JustificationLeft:
					c.JC = 1
				case astisub.JustificationCentered:
					c.JC = 2
				case astisub.JustificationRight:
					c.JC = 3
				}
			}
			if sa.STLPosition != nil {
				c.VP = sa.STLPosition.VerticalPosition
				c.NRows = sa.STLPosition.Rows
			}
		}
		for _, l := range it.Lines {
			var runs []stlRun
			for _, li := range l.Items {
				r := stlRun{Text: li.Text, Color: -1}
				if sa := li.InlineStyle; sa != nil {
					r.Italic, r.Underline, r.Box = bval(sa.STLItalics), bval(sa.STLUnderline), bval(sa.STLBoxing)
					r.Color = colorIndex(sa.TeletextColor)
					r.DoubleH = bval(sa.TeletextDoubleHeight)
				}
				runs = append(runs, r)
			}
			c.Rows = append(c.Rows, runs)
		}
		o.Cues = append(o.Cues, c)
	}
	return o, ""
}

var stlLangs = map[string]string{"75": "chinese", "09": "english", "0F": "french", "69": "japanese", "1E": "norwegian"}

func normSTLRows(rows [][]stlRun, teletext bool) [][]stlRun {
	var out [][]stlRun
	for _, row := range rows {
		var nr []stlRun
		for _, r := range row {
			r.Text = strings.TrimSpace(r.Text)
			if r.Text == "" {
				continue
			}
			if !teletext {
				r.Color, r.DoubleH = -1, false
			}
			if n := len(nr); n > 0 && !r.Recode {
				p := nr[n-1]
				if p.Italic == r.Italic && p.Underline == r.Underline && p.Box == r.Box && p.Color == r.Color && p.DoubleH == r.DoubleH {
					nr[n-1].Text = p.Text + " " + r.Text
					continue
				}
			}
			nr = append(nr, r)
		}
		if len(nr) > 0 {
			out = append(out, nr)
		}
	}
	return out
}

func rowsText(rows [][]stlRun) string {
	var ls []string
	for _, r := range rows {
		var ts []string
		for _, x := range r {
			ts = append(ts, x.Text)
		}
		ls = append(ls, strings.Join(ts, " "))
	}
	return strings.Join(ls, "|")
}

// diffSTLCues compares cues; inter-run blanks are not part of the denotation
// (runs are compared with white space removed).
func diffSTLRows(want, got [][]stlRun, teletext bool) string {
	for _, row := range want {
		for k, r := range row {
			if r.Recode && k > 0 {
				// the document splits a row with a code that changes no attribute: the split itself is observable
				got = append([][]stlRun(nil), got...)
				for i := range got {
					got[i] = append([]stlRun(nil), got[i]...)
					for j := range got[i] {
						got[i][j].Recode = j > 0 && strings.TrimSpace(got[i][j].Text) != ""
					}
				}
				goto norm
			}
		}
	}
norm:
	w, g := normSTLRows(want, teletext), normSTLRows(got, teletext)
	if len(w) != len(g) {
		return fmt.Sprintf("%d rows %+v, expected %d rows %+v", len(g), g, len(w), w)
	}
	for i := range w {
		if len(w[i]) != len(g[i]) {
			return fmt.Sprintf("row %d: runs %+v, expected %+v", i, g[i], w[i])
		}
		for k := range w[i] {
			a, b := w[i][k], g[i][k]
			// canonical equivalence: the Latin table has one OHM/OMEGA, composed letters are NFC
			if norm.NFC.String(stripSpaces(a.Text)) != norm.NFC.String(stripSpaces(b.Text)) || a.Italic != b.Italic || a.Underline != b.Underline || a.Box != b.Box || a.Color != b.Color || a.DoubleH != b.DoubleH {
				return fmt.Sprintf("row %d run %d: %+v, expected %+v", i, k, b, a)
			}
		}
	}
	return ""
}

func stripSpaces(s string) string {
	return strings.Join(strings.Fields(s), "")
}

func nearRat(got int64, want *big.Rat) bool {
	d := new(big.Rat).Sub(new(big.Rat).SetInt64(got), want)
	return d.Abs(d).Cmp(new(big.Rat).SetInt64(1)) < 0
}

// ---------------------------------------------------------------------------
// Independent decoder of STL bytes (GSI/TTI parser + ISO 6937 decoder above)

func atoiField(b []byte) int {
	n := 0
	for _, c := range b {
		if c >= '0' && c <= '9' {
			n = n*10 + int(c-'0')
		}
	}
	return n
}

type stlRaw struct {
	GSI   stlGSI
	Cues  []stlObsCue
	TCs   [][8]byte // raw TCI+TCO bytes per cue
	NUser int
}

func decodeSTLIndep(b []byte) (stlRaw, error) {
	var o stlRaw
	if len(b) < 1024 || (len(b)-1024)%128 != 0 {
		return o, fmt.Errorf("size %d is not 1024 + 128*n", len(b))
	}
	g := b[:1024]
	trim := func(x []byte) string { return strings.TrimSpace(string(x)) }
	switch string(g[3:11]) {
	case "STL25.01":
		o.GSI.Rate = 25
	case "STL30.01":
		o.GSI.Rate = 30
	default:
		return o, fmt.Errorf("disk format code %q", g[3:11])
	}
	if string(g[12:14]) != "00" {
		return o, fmt.Errorf("character code table %q is not the Latin table", g[12:14])
	}
	o.GSI.DSC = trim(g[11:12])
	o.GSI.LC, o.GSI.OPT, o.GSI.OET, o.GSI.TPT, o.GSI.TET = trim(g[14:16]), trim(g[16:48]), trim(g[48:80]), trim(g[80:112]), trim(g[112:144])
	o.GSI.TN, o.GSI.TCD, o.GSI.SLR, o.GSI.CD, o.GSI.RD = trim(g[144:176]), trim(g[176:208]), trim(g[208:224]), trim(g[224:230]), trim(g[230:236])
	o.GSI.RN, o.GSI.MNC, o.GSI.MNR = atoiField(g[236:238]), atoiField(g[251:253]), atoiField(g[253:255])
	o.GSI.TCP = stlTC{atoiField(g[256:258]), atoiField(g[258:260]), atoiField(g[260:262]), atoiField(g[262:264])}
	o.GSI.CO, o.GSI.PUB, o.GSI.EN, o.GSI.ECD = trim(g[274:277]), trim(g[277:309]), trim(g[309:341]), trim(g[341:373])
	if atoiField(g[238:243]) != (len(b)-1024)/128 {
		return o, fmt.Errorf("TNB says %d blocks, file has %d", atoiField(g[238:243]), (len(b)-1024)/128)
	}
	teletext := o.GSI.DSC != "0"
	for off := 1024; off < len(b); off += 128 {
		t := b[off : off+128]
		if t[3] == 0xfe {
			o.NUser++
			continue
		}
		rate := o.GSI.Rate
		if int(t[8]) >= rate || int(t[12]) >= rate || t[6] > 59 || t[7] > 59 || t[10] > 59 || t[11] > 59 {
			return o, fmt.Errorf("TTI block %d: timecode field out of range: %v %v", (off-1024)/128, t[5:9], t[9:13])
		}
		in := stlTC{int(t[5]), int(t[6]), int(t[7]), int(t[8])}
		out := stlTC{int(t[9]), int(t[10]), int(t[11]), int(t[12])}
		c := stlObsCue{In: ratFloorNs(in.exactNs(rate)), Out: ratFloorNs(out.exactNs(rate)), VP: int(t[13]), JC: int(t[14])}
		var tc [8]byte
		copy(tc[:], t[5:13])
		o.TCs = append(o.TCs, tc)
		tf := t[16:]
		for _, row := range splitBytes(tf, 0x8a) {
			var runs []stlRun
			st := stlRun{Color: -1}
			var txt []byte
			boxed := !teletext
			flush := func() {
				if s := strings.TrimSpace(decode6937(txt)); s != "" {
					r := st
					r.Text = s
					runs = append(runs, r)
				}
				txt = nil
			}
			for _, v := range row {
				switch {
				case v == 0x8f:
				case v >= 0x80 && v <= 0x85:
					flush()
					switch v {
					case 0x80:
						st.Italic = true
					case 0x81:
						st.Italic = false
					case 0x82:
						st.Underline = true
					case 0x83:
						st.Underline = false
					case 0x84:
						st.Box = true
					case 0x85:
						st.Box = false
					}
				case teletext && v <= 0x07:
					flush()
					st.Color = int(v)
				case teletext && v == 0x0b:
					boxed = true
				case teletext && v == 0x0a:
					flush()
					boxed = false
				case teletext && v == 0x0d:
					flush()
					st.DoubleH = true
				case teletext && v == 0x0c:
					flush()
					st.DoubleH = false
				case v < 0x20:
				default:
					if boxed {
						txt = append(txt, v)
					}
				}
			}
			flush()
			if len(runs) > 0 {
				c.Rows = append(c.Rows, runs)
			}
		}
		o.Cues = append(o.Cues, c)
	}
	return o, nil
}

func splitBytes(b []byte, sep byte) [][]byte {
	var out [][]byte
	start := 0
	for i, c := range b {
		if c == sep {
			out = append(out, b[start:i])
			start = i + 1
		}
	}
	return append(out, b[start:])
}

// ---------------------------------------------------------------------------
// Generators

var stlLatinAtoms = []string{"a", "Hello", "world", "Zürich", "café", "naïve", "Ærø", "ßtraße", "£5", "¿Qué?", "½", "©", "™", "♪", "ł", "Ŋ", "ĳ", "œuvre", "x²", "«q»", "‘q’", "“q”", "→", "1,5°", "a&b", "<i>", "[x]", "{y}", "~", "`", "\\", "|", "^", "_", "@", "#", "%", "+", "=", "*", "\u03a9", "\u00a4", "$", "\u00a0", "\u00ad", "\u2126"}

func genSTLText(t *rapid.T, avoidKnown bool) string {
	n := rapid.IntRange(1, 3).Draw(t, "atoms")
	var parts []string
	for i := 0; i < n; i++ {
		var a string
		switch rapid.IntRange(0, 5).Draw(t, "ak") {
		case 0:
			// diacritic x letter pair
			marks := []rune{0x0300, 0x0301, 0x0302, 0x0303, 0x0304, 0x0306, 0x0307, 0x0308, 0x030a, 0x0327, 0x030b, 0x0328, 0x030c}
			letters := "abcdefghijklmnopqrstuvwxyzABCDEFGHIJKLMNOPQRSTUVWXYZ"
			l := rune(letters[rapid.IntRange(0, len(letters)-1).Draw(t, "letter")])
			m := rapid.SampledFrom(marks).Draw(t, "mark")
			a = norm.NFC.String(string([]rune{l, m}))
		case 1:
			// any single-byte graphic character
			var keys []int
			for b := range iso6937 {
				keys = append(keys, int(b))
			}
			sortInts(keys)
			a = string(iso6937[byte(rapid.SampledFrom(keys).Draw(t, "code"))])
		default:
			a = rapid.SampledFrom(stlLatinAtoms).Draw(t, "atom")
		}
		if avoidKnown {
			a = strings.ReplaceAll(a, "$", "S")
		}
		parts = append(parts, a)
	}
	s := strings.TrimSpace(strings.Join(parts, rapid.SampledFrom([]string{" ", ""}).Draw(t, "join")))
	s = strings.Trim(s, " \u00a0")
	if strings.TrimSpace(s) == "" {
		s = "x"
	}
	return s
}

func sortInts(a []int) {
	for i := 1; i < len(a); i++ {
		for j := i; j > 0 && a[j-1] > a[j]; j-- {
			a[j-1], a[j] = a[j], a[j-1]
		}
	}
}

func genSTLTC(t *rapid.T, rate int, label string) stlTC {
	if rapid.IntRange(0, 3).Draw(t, label+"k") == 0 {
		pool := []stlTC{{0, 0, 0, 0}, {0, 0, 0, 1}, {0, 0, 59, rate - 1}, {0, 59, 59, rate - 1}, {9, 59, 59, rate - 1}, {10, 0, 0, 0}, {23, 59, 59, rate - 1}, {1, 0, 0, 1}, {0, 0, 1, 2}}
		return rapid.SampledFrom(pool).Draw(t, label)
	}
	return stlTC{H: rapid.IntRange(0, 23).Draw(t, label+"h"), M: rapid.IntRange(0, 59).Draw(t, label+"m"), S: rapid.IntRange(0, 59).Draw(t, label+"s"), F: rapid.IntRange(0, rate-1).Draw(t, label+"f")}
}

func genSTLGSI(t *rapid.T) stlGSI {
	ascii := func(label string, max int) string {
		opts := []string{"", "Title", "A programme: part 2", "x", "1234567890123456789012345678901234567890"}
		s := rapid.SampledFrom(opts).Draw(t, label)
		if len(s) > max {
			s = s[:max]
		}
		return strings.TrimSpace(s)
	}
	g := stlGSI{
		Rate: rapid.SampledFrom([]int{25, 30}).Draw(t, "rate"),
		DSC:  rapid.SampledFrom([]string{"0", "0", "1", "2"}).Draw(t, "dsc"),
		LC:   rapid.SampledFrom([]string{"09", "0F", "75", "69", "1E", "08", "0A", "7F"}).Draw(t, "lc"),
		OPT:  ascii("opt", 32), OET: ascii("oet", 32), TPT: ascii("tpt", 32), TET: ascii("tet", 32), TN: ascii("tn", 32), TCD: ascii("tcd", 32), SLR: ascii("slr", 16),
		CD: rapid.SampledFrom([]string{"170702", "991231", "000101", "240229", "690101"}).Draw(t, "cd"),
		RD: rapid.SampledFrom([]string{"170702", "991231", "000101", "240229", "681231"}).Draw(t, "rd"),
		RN: rapid.IntRange(0, 99).Draw(t, "rn"), MNC: rapid.SampledFrom([]int{40, 38, 99, 1}).Draw(t, "mnc"), MNR: rapid.SampledFrom([]int{23, 11, 99, 2}).Draw(t, "mnr"),
		CO: rapid.SampledFrom([]string{"FRA", "GBR", "USA", ""}).Draw(t, "co"), PUB: ascii("pub", 32), EN: ascii("en", 32), ECD: ascii("ecd", 32),
	}
	if rapid.Bool().Draw(t, "hastcp") {
		g.TCP = rapid.SampledFrom([]stlTC{{0, 0, 0, 1}, {1, 0, 0, 0}, {10, 0, 0, 0}, {0, 59, 59, 24}, {9, 59, 30, 12}}).Draw(t, "tcp")
	}
	return g
}

func genSTLDoc(t *rapid.T, avoidKnown bool) stlDoc {
	d := stlDoc{GSI: genSTLGSI(t), SpaceAround: rapid.Bool().Draw(t, "spacearound"), TrailingUD: rapid.SampledFrom([]int{0, 0, 1}).Draw(t, "trailingud")}
	teletext := d.GSI.DSC != "0"
	n := rapid.IntRange(0, 6).Draw(t, "cues")
	base := d.GSI.TCP.frames(d.GSI.Rate)
	for i := 0; i < n; i++ {
		vpMin := 1
		if !teletext {
			vpMin = 0 // open subtitling: rows are counted from 0
		}
		c := stlCue{VP: rapid.IntRange(vpMin, 23).Draw(t, "vp"), JC: rapid.IntRange(0, 3).Draw(t, "jc"), UserDataBefore: rapid.SampledFrom([]int{0, 0, 0, 1, 2}).Draw(t, "ud")}
		// timecodes at or after the programme start (times relative to it are non-negative)
		in := base + genSTLTC(t, d.GSI.Rate, "in").frames(d.GSI.Rate)
		out := base + genSTLTC(t, d.GSI.Rate, "out").frames(d.GSI.Rate)
		limit := int64(24*3600) * int64(d.GSI.Rate)
		c.In, c.Out = tcFromFrames(in%limit, d.GSI.Rate), tcFromFrames(out%limit, d.GSI.Rate)
		if c.In.frames(d.GSI.Rate) < base {
			c.In = d.GSI.TCP
		}
		if c.Out.frames(d.GSI.Rate) < base {
			c.Out = d.GSI.TCP
		}
		if !avoidKnown && base > 0 && rapid.IntRange(0, 5).Draw(t, "beforestart") == 0 {
			// a block timed ahead of the programme start (a slate, a countdown): its times relative to the start are negative
			c.In = tcFromFrames(rapid.Int64Range(0, base).Draw(t, "earlyin"), d.GSI.Rate)
			if rapid.Bool().Draw(t, "earlyout") {
				c.Out = tcFromFrames(rapid.Int64Range(0, base).Draw(t, "earlyoutv"), d.GSI.Rate)
			}
		}
		nr := rapid.IntRange(1, 3).Draw(t, "rows")
		budget := 100
		// 1 cue in 6: a single open-subtitling row that fills the 112-byte text field to the last byte (or one short)
		if !teletext && rapid.IntRange(0, 5).Draw(t, "full") == 0 {
			n := rapid.SampledFrom([]int{112, 112, 111, 110}).Draw(t, "fulllen")
			txt := strings.Repeat("ab", n/2)[:n-1] + "Z"
			c.Rows = [][]stlRun{{{Text: txt, Color: -1}}}
			d.Cues = append(d.Cues, c)
			d.SpaceAround = false
			continue
		}
		for j := 0; j < nr; j++ {
			nruns := rapid.IntRange(1, 3).Draw(t, "runs")
			var runs []stlRun
			for k := 0; k < nruns; k++ {
				r := stlRun{Text: genSTLText(t, avoidKnown), Color: -1}
				m := rapid.IntRange(0, 15).Draw(t, "style")
				if m < 8 {
					r.Italic, r.Underline, r.Box = m&1 > 0, m&2 > 0, m&4 > 0
				}
				if teletext {
					// italic / underline / boxing codes are honoured under the teletext display standards too
					if rapid.Bool().Draw(t, "plainstyle") {
						r.Italic, r.Underline, r.Box = false, false, false
					}
					if rapid.Bool().Draw(t, "hascolor") {
						r.Color = rapid.IntRange(0, 7).Draw(t, "color")
					} else if len(runs) > 0 {
						r.Color = runs[len(runs)-1].Color
					}
					if len(runs) == 0 {
						r.DoubleH = rapid.Bool().Draw(t, "dh")
					} else {
						r.DoubleH = runs[0].DoubleH
					}
				}
				enc, ok := encode6937(r.Text)
				if !ok || len(enc)+8 > budget {
					continue
				}
				budget -= len(enc) + 8
				runs = append(runs, r)
			}
			if len(runs) == 0 {
				runs = []stlRun{{Text: "x", Color: -1}}
				budget -= 9
			}
			c.Rows = append(c.Rows, runs)
		}
		d.Cues = append(d.Cues, c)
	}
	return d
}

// addBlankRowsAndComments gives some cues an empty row (one more line-break code) or the comment flag (read direction only).
func addBlankRowsAndComments(t *rapid.T, d *stlDoc) {
	d.TCS0 = rapid.IntRange(0, 3).Draw(t, "tcs0") == 0
	for ci := range d.Cues {
		c := &d.Cues[ci]
		if len(c.Rows) == 1 && len(c.Rows[0]) == 1 && len(c.Rows[0][0].Text) >= 100 {
			continue // the text field is full
		}
		if rapid.IntRange(0, 3).Draw(t, "extrabreak") == 0 {
			c.ExtraBreak = rapid.IntRange(1, 3).Draw(t, "extrabreakat")
		}
		c.Comment = rapid.IntRange(0, 5).Draw(t, "commentflag") == 0
		if rapid.IntRange(0, 3).Draw(t, "cumulative") == 0 {
			// cumulative sets: first, intermediate(s), last in a row, or any status on its own
			c.CS = []int{1, 2, 2, 3}[ci%4]
			if rapid.IntRange(0, 3).Draw(t, "cslone") == 0 {
				c.CS = rapid.IntRange(1, 3).Draw(t, "cs")
			}
		}
		if rapid.IntRange(0, 5).Draw(t, "extblock") == 0 {
			c.EBN = rapid.SampledFrom([]int{1, 2, 0x80, 0xf0}).Draw(t, "ebn")
		}
	}
}

// addRecodes marks some non-first runs of open-subtitling rows as introduced by a redundant style code (read direction only).
func addRecodes(t *rapid.T, d *stlDoc) {
	if d.GSI.DSC != "0" {
		return
	}
	for ci := range d.Cues {
		for ri := range d.Cues[ci].Rows {
			for k := range d.Cues[ci].Rows[ri] {
				if k > 0 && rapid.IntRange(0, 3).Draw(t, "recode") == 0 {
					d.Cues[ci].Rows[ri][k].Recode = true
				}
			}
		}
	}
}

// toSubtitlesSTL builds a cue list for the write direction. meta: "stl" (STL metadata present), "nil", "inherited" (metadata of another format).
func toSubtitlesSTL(d stlDoc, meta string) *astisub.Subtitles {
	s := astisub.NewSubtitles()
	rate := d.GSI.Rate
	switch meta {
	case "stl":
		g := d.GSI
		cd, _ := time.Parse("060102", g.CD)
		rd, _ := time.Parse("060102", g.RD)
		if g.RN%3 == 1 {
			// the same calendar days given as instants of other time zones, close to midnight
			cd = time.Date(cd.Year(), cd.Month(), cd.Day(), 0, 30, 0, 0, time.FixedZone("east", 2*3600))
			rd = time.Date(rd.Year(), rd.Month(), rd.Day(), 23, 40, 0, 0, time.FixedZone("west", -5*3600))
		}
		mnc, mnr := g.MNC, g.MNR
		s.Metadata = &astisub.Metadata{Framerate: rate, STLDisplayStandardCode: g.DSC, Title: g.OPT, STLOriginalEpisodeTitle: g.OET, STLTranslatedProgramTitle: g.TPT, STLTranslatedEpisodeTitle: g.TET,
			STLTranslatorName: g.TN, STLTranslatorContactDetails: g.TCD, STLSubtitleListReferenceCode: g.SLR, STLCreationDate: &cd, STLRevisionDate: &rd, STLRevisionNumber: g.RN,
			STLMaximumNumberOfDisplayableCharactersInAnyTextRow: &mnc, STLMaximumNumberOfDisplayableRows: &mnr, STLCountryOfOrigin: g.CO, STLPublisher: g.PUB, STLEditorName: g.EN,
			STLEditorContactDetails: g.ECD, Language: stlLangs[g.LC], STLTimecodeStartOfProgramme: time.Duration(ratCeilNs(g.TCP.exactNs(rate)))}
	case "inherited":
		// (a frame rate the format has no code for, as a TTML document may declare: the file is a 25 fps file)
		s.Metadata = &astisub.Metadata{Title: d.GSI.OPT, TTMLCopyright: "c", SSAScriptType: "v4.00", Language: stlLangs[d.GSI.LC], Framerate: []int{0, 24, 50, 60}[len(d.Cues)%4]}
	}
	tcp := int64(0)
	if meta == "stl" {
		tcp = ratCeilNs(d.GSI.TCP.exactNs(rate))
	}
	for _, c := range d.Cues {
		// instants relative to the programme start, rounded up to the nanosecond so that they lie inside their frame
		in := ratCeilNs(c.In.exactNs(rate)) - tcp
		out := ratCeilNs(c.Out.exactNs(rate)) - tcp
		j := []astisub.Justification{astisub.JustificationUnchanged, astisub.JustificationLeft, astisub.JustificationCentered, astisub.JustificationRight}[c.JC]
		it := &astisub.Item{StartAt: time.Duration(in), EndAt: time.Duration(out), InlineStyle: &astisub.StyleAttributes{STLJustification: &j, STLPosition: &astisub.STLPosition{VerticalPosition: c.VP, MaxRows: d.GSI.MNR, Rows: len(c.Rows)}}}
		if c.JC == 1 && c.VP%3 == 0 {
			// a position without a justification (a partly styled cue): left-justified text is what such a cue gets, at its own row
			it.InlineStyle.STLJustification = nil
		}
		for _, row := range c.Rows {
			ln := astisub.Line{}
			for _, r := range row {
				li := astisub.LineItem{Text: r.Text}
				if r.Italic || r.Underline || r.Box {
					sa := &astisub.StyleAttributes{}
					if r.Italic {
						b := true
						sa.STLItalics = &b
					}
					if r.Underline {
						b := true
						sa.STLUnderline = &b
					}
					if r.Box {
						b := true
						sa.STLBoxing = &b
					}
					li.InlineStyle = sa
				}
				ln.Items = append(ln.Items, li)
			}
			it.Lines = append(it.Lines, ln)
		}
		s.Items = append(s.Items, it)
	}
	return s
}

func ratCeilNs(r *big.Rat) int64 {
	f := ratFloorNs(r)
	if new(big.Rat).SetInt64(f).Cmp(r) < 0 {
		return f + 1
	}
	return f
}

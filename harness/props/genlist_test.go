package props

import (
	"fmt"
	"strconv"
	"time"

	astisub "github.com/asticode/go-astisub"
	"pgregory.net/rapid"
)

// Generic heterogeneous cue lists over the public types (used by C07, C08, C19, C20):
// a JSON-able specification drawn by rapid and a deterministic builder.

type glStyle struct {
	ID        string            `json:"id"`
	Parent    string            `json:"parent,omitempty"`
	NilInline bool              `json:"nil_inline,omitempty"`
	Detached  bool              `json:"detached,omitempty"` // referenced by cues but absent from the map
	SSA       *ssaStyleM        `json:"ssa,omitempty"`
	TTML      map[string]string `json:"ttml,omitempty"`
	VTTStyles []string          `json:"vtt_styles,omitempty"`
	VTTAlign  string            `json:"vtt_align,omitempty"`
}

type glRegion struct {
	ID        string            `json:"id"`
	Style     string            `json:"style,omitempty"`
	NilInline bool              `json:"nil_inline,omitempty"`
	Detached  bool              `json:"detached,omitempty"`
	TTML      map[string]string `json:"ttml,omitempty"`
	VTT       vttRegion         `json:"vtt"`
}

type glRun struct {
	Text      string            `json:"text"`
	Style     string            `json:"style,omitempty"`
	NilInline bool              `json:"nil_inline,omitempty"`
	B         bool              `json:"b,omitempty"`
	I         bool              `json:"i,omitempty"`
	U         bool              `json:"u,omitempty"`
	Color     string            `json:"color,omitempty"`
	Tags      []vttTag          `json:"tags,omitempty"`
	TTML      map[string]string `json:"ttml,omitempty"`
	StlI      bool              `json:"stl_i,omitempty"`
	StlU      bool              `json:"stl_u,omitempty"`
	StlB      bool              `json:"stl_b,omitempty"`
	SSAEffect string            `json:"ssa_effect,omitempty"`
	StartAt   int64             `json:"start_at_ms,omitempty"`
	Pos       int               `json:"srt_pos,omitempty"`
}

type glLine struct {
	Voice string  `json:"voice,omitempty"`
	Runs  []glRun `json:"runs"`
}

type glCue struct {
	Start     int64             `json:"start_ns"`
	End       int64             `json:"end_ns"`
	Index     int               `json:"index,omitempty"`
	Comments  []string          `json:"comments,omitempty"`
	Style     string            `json:"style,omitempty"`
	Region    string            `json:"region,omitempty"`
	NilInline bool              `json:"nil_inline,omitempty"`
	Align     string            `json:"align,omitempty"`
	Line      string            `json:"line,omitempty"`
	Position  string            `json:"position,omitempty"`
	Size      string            `json:"size,omitempty"`
	Vertical  string            `json:"vertical,omitempty"`
	TTML      map[string]string `json:"ttml,omitempty"`
	SSAEffect string            `json:"ssa_effect,omitempty"`
	Layer     *int              `json:"layer,omitempty"`
	Marked    *bool             `json:"marked,omitempty"`
	MarginL   *int              `json:"margin_l,omitempty"`
	JC        int               `json:"jc"` // -1 none
	VP        int               `json:"vp"` // -1 none
	Lines     []glLine          `json:"lines"`
}

type glMeta struct {
	Nil       bool              `json:"nil,omitempty"`
	Title     string            `json:"title,omitempty"`
	Lang      string            `json:"lang,omitempty"`
	Copyright string            `json:"copyright,omitempty"`
	Framerate int               `json:"framerate,omitempty"`
	SSA       map[string]string `json:"ssa,omitempty"`
	Comments  []string          `json:"comments,omitempty"`
	STL       *stlGSI           `json:"stl,omitempty"`
	STLDates  bool              `json:"stl_dates,omitempty"`
	TSMap     *vttTSMap         `json:"tsmap,omitempty"`
}

type glSpec struct {
	Meta       glMeta     `json:"meta"`
	Styles     []glStyle  `json:"styles,omitempty"`
	Regions    []glRegion `json:"regions,omitempty"`
	Cues       []glCue    `json:"cues"`
	NilStyles  bool       `json:"nil_styles_map,omitempty"`
	NilRegions bool       `json:"nil_regions_map,omitempty"`
}

// hasParentCycle reports whether some style inherits, directly or not, from itself.
func (g glSpec) hasParentCycle() bool {
	parent := map[string]string{}
	for _, st := range g.Styles {
		parent[st.ID] = st.Parent
	}
	for id := range parent {
		cur := id
		for n := 0; cur != "" && n <= len(parent); n++ {
			cur = parent[cur]
			if cur == id {
				return true
			}
		}
	}
	return false
}

func (g glSpec) build() *astisub.Subtitles {
	s := &astisub.Subtitles{}
	if !g.NilStyles {
		s.Styles = map[string]*astisub.Style{}
	}
	if !g.NilRegions {
		s.Regions = map[string]*astisub.Region{}
	}
	if !g.Meta.Nil {
		m := &astisub.Metadata{Title: g.Meta.Title, Language: g.Meta.Lang, TTMLCopyright: g.Meta.Copyright, Framerate: g.Meta.Framerate, Comments: append([]string(nil), g.Meta.Comments...)}
		if len(g.Meta.SSA) > 0 {
			tmp := toSubtitlesSSA(ssaDoc{Info: g.Meta.SSA}).Metadata
			tmp.Title, tmp.Comments = m.Title, m.Comments
			tmp.Language, tmp.TTMLCopyright, tmp.Framerate = m.Language, m.TTMLCopyright, m.Framerate
			if g.Meta.SSA["Title"] != "" {
				tmp.Title = g.Meta.SSA["Title"]
			}
			m = tmp
		}
		if st := g.Meta.STL; st != nil {
			m.STLDisplayStandardCode, m.STLOriginalEpisodeTitle, m.STLTranslatedProgramTitle, m.STLTranslatedEpisodeTitle = st.DSC, st.OET, st.TPT, st.TET
			m.STLTranslatorName, m.STLTranslatorContactDetails, m.STLSubtitleListReferenceCode, m.STLRevisionNumber = st.TN, st.TCD, st.SLR, st.RN
			m.STLCountryOfOrigin, m.STLPublisher, m.STLEditorName, m.STLEditorContactDetails = st.CO, st.PUB, st.EN, st.ECD
			mnc, mnr := st.MNC, st.MNR
			m.STLMaximumNumberOfDisplayableCharactersInAnyTextRow, m.STLMaximumNumberOfDisplayableRows = &mnc, &mnr
			m.Framerate = st.Rate
			if g.Meta.STLDates {
				cd, _ := time.Parse("060102", st.CD)
				rd, _ := time.Parse("060102", st.RD)
				m.STLCreationDate, m.STLRevisionDate = &cd, &rd
			}
		}
		if g.Meta.TSMap != nil {
			m.WebVTTTimestampMap = &astisub.WebVTTTimestampMap{Local: time.Duration(g.Meta.TSMap.LocalMs) * time.Millisecond, MpegTS: g.Meta.TSMap.MpegTS}
		}
		s.Metadata = m
	}
	styles := map[string]*astisub.Style{}
	for _, st := range g.Styles {
		d := &astisub.Style{ID: st.ID}
		if !st.NilInline {
			sa := &astisub.StyleAttributes{}
			if st.SSA != nil {
				tmp := toSubtitlesSSA(ssaDoc{Styles: []ssaStyleM{*st.SSA}})
				for _, v := range tmp.Styles {
					*sa = *v.InlineStyle
				}
			}
			setAttrs(sa, st.TTML)
			sa.WebVTTStyles = append([]string(nil), st.VTTStyles...)
			sa.WebVTTAlign = st.VTTAlign
			d.InlineStyle = sa
		}
		styles[st.ID] = d
		if !st.Detached && s.Styles != nil {
			s.Styles[st.ID] = d
		}
	}
	for _, st := range g.Styles {
		if st.Parent != "" {
			styles[st.ID].Style = styles[st.Parent]
		}
	}
	regions := map[string]*astisub.Region{}
	for _, rg := range g.Regions {
		d := &astisub.Region{ID: rg.ID}
		if !rg.NilInline {
			sa := &astisub.StyleAttributes{WebVTTLines: rg.VTT.Lines, WebVTTRegionAnchor: rg.VTT.RegionAnchor, WebVTTScroll: rg.VTT.Scroll, WebVTTViewportAnchor: rg.VTT.ViewportAnchor, WebVTTWidth: rg.VTT.Width}
			setAttrs(sa, rg.TTML)
			d.InlineStyle = sa
		}
		if rg.Style != "" {
			d.Style = styles[rg.Style]
		}
		regions[rg.ID] = d
		if !rg.Detached && s.Regions != nil {
			s.Regions[rg.ID] = d
		}
	}
	for _, c := range g.Cues {
		it := &astisub.Item{StartAt: time.Duration(c.Start), EndAt: time.Duration(c.End), Index: c.Index, Comments: append([]string(nil), c.Comments...)}
		if !c.NilInline {
			sa := &astisub.StyleAttributes{WebVTTAlign: c.Align, WebVTTLine: c.Line, WebVTTPosition: c.Position, WebVTTSize: c.Size, WebVTTVertical: c.Vertical,
				SSAEffect: c.SSAEffect, SSALayer: c.Layer, SSAMarked: c.Marked, SSAMarginLeft: c.MarginL}
			setAttrs(sa, c.TTML)
			if c.JC >= 0 {
				j := []astisub.Justification{astisub.JustificationUnchanged, astisub.JustificationLeft, astisub.JustificationCentered, astisub.JustificationRight}[c.JC%4]
				sa.STLJustification = &j
			}
			if c.VP >= 0 {
				sa.STLPosition = &astisub.STLPosition{VerticalPosition: c.VP, MaxRows: 23, Rows: len(c.Lines)}
			}
			it.InlineStyle = sa
		}
		if c.Style != "" {
			it.Style = styles[c.Style]
		}
		if c.Region != "" {
			it.Region = regions[c.Region]
		}
		for _, l := range c.Lines {
			ln := astisub.Line{VoiceName: l.Voice}
			for _, r := range l.Runs {
				li := astisub.LineItem{Text: r.Text, StartAt: time.Duration(r.StartAt) * time.Millisecond}
				if !r.NilInline {
					sa := &astisub.StyleAttributes{SRTBold: r.B, SRTItalics: r.I, SRTUnderline: r.U, SSAEffect: r.SSAEffect, SRTPosition: byte(r.Pos)}
					if r.Color != "" {
						col := r.Color
						sa.SRTColor = &col
					}
					for _, tg := range r.Tags {
						sa.WebVTTTags = append(sa.WebVTTTags, astisub.WebVTTTag{Name: tg.Name, Classes: append([]string(nil), tg.Classes...), Annotation: tg.Annotation})
					}
					setAttrs(sa, r.TTML)
					if r.StlI {
						b := true
						sa.STLItalics = &b
					}
					if r.StlU {
						b := true
						sa.STLUnderline = &b
					}
					if r.StlB {
						b := true
						sa.STLBoxing = &b
					}
					li.InlineStyle = sa
				}
				if r.Style != "" {
					li.Style = styles[r.Style]
				}
				ln.Items = append(ln.Items, li)
			}
			it.Lines = append(it.Lines, ln)
		}
		s.Items = append(s.Items, it)
	}
	return s
}

// genGLRaw draws a list every writer accepts whose texts may hold raw line breaks (C19, C20: purity and
// determinism do not depend on the text being representable).
func genGLRaw(t *rapid.T) glSpec {
	g := genGL(t, false)
	// definitions that cues refer to without their being in the maps (e.g. after a caller removed them)
	if len(g.Styles) > 1 && rapid.IntRange(0, 5).Draw(t, "alldetached") == 0 {
		// every style the cues use is missing from the map (items brought over from another list)
		for i := range g.Styles {
			g.Styles[i].Detached = true
		}
	}
	if len(g.Styles) > 0 && rapid.IntRange(0, 5).Draw(t, "detachedstyle") == 0 {
		g.Styles[rapid.IntRange(0, len(g.Styles)-1).Draw(t, "detachedstyleid")].Detached = true
	}
	if len(g.Regions) > 0 && rapid.IntRange(0, 5).Draw(t, "detachedregion") == 0 {
		g.Regions[rapid.IntRange(0, len(g.Regions)-1).Draw(t, "detachedregionid")].Detached = true
	}
	for ci := range g.Cues {
		// an empty line inside a cue (no run, or one run without text)
		if n := len(g.Cues[ci].Lines); n >= 1 && rapid.IntRange(0, 5).Draw(t, "emptyline") == 0 {
			at := rapid.IntRange(0, n).Draw(t, "emptylineat")
			empty := glLine{}
			if rapid.Bool().Draw(t, "emptyrun") {
				empty.Runs = []glRun{{Text: ""}}
			}
			ls := append([]glLine(nil), g.Cues[ci].Lines[:at]...)
			ls = append(ls, empty)
			g.Cues[ci].Lines = append(ls, g.Cues[ci].Lines[at:]...)
		}
		for li := range g.Cues[ci].Lines {
			for ri := range g.Cues[ci].Lines[li].Runs {
				if rapid.IntRange(0, 9).Draw(t, "rawbreak") == 0 {
					r := &g.Cues[ci].Lines[li].Runs[ri]
					r.Text = r.Text + rapid.SampledFrom([]string{"\n", "\r", "\r\n", "\nx", "\u2028"}).Draw(t, "break") + "y"
				}
			}
		}
	}
	return g
}

// genGL draws a list. hostile: every optional part may be absent, references may dangle,
// text may hold controls, leading combining marks, non-BMP runes (C08); otherwise a list
// every writer is expected to accept (C19, C20).
func genGL(t *rapid.T, hostile bool) glSpec {
	g := glSpec{}
	p := func(label string, oneIn int) bool { return hostile && rapid.IntRange(0, oneIn-1).Draw(t, label) == 0 }
	g.Meta.Nil = p("nilmeta", 4)
	g.NilStyles = p("nilstyles", 6)
	g.NilRegions = p("nilregions", 6)
	g.Meta.Title = rapid.SampledFrom([]string{"", "Title", "A & B", "標題"}).Draw(t, "title")
	g.Meta.Lang = rapid.SampledFrom([]string{"", "english", "french", "klingon", "de", "English", " french "}).Draw(t, "lang")
	g.Meta.Copyright = rapid.SampledFrom([]string{"", "(c)"}).Draw(t, "copyright")
	g.Meta.Framerate = rapid.SampledFrom([]int{0, 25, 30, 24}).Draw(t, "framerate")
	if rapid.Bool().Draw(t, "hasssa") {
		g.Meta.SSA = map[string]string{}
		for _, k := range []string{"Collisions", "PlayResX", "ScriptType", "Timer", "Title", "WrapStyle"} {
			if rapid.Bool().Draw(t, "ssa"+k) {
				g.Meta.SSA[k] = map[string][]string{"Collisions": {"Normal"}, "PlayResX": {"384"}, "ScriptType": {"v4.00", "v4.00+"}, "Timer": {"100", "99.5"}, "Title": {"T"}, "WrapStyle": {"0"}}[k][0]
				if k == "ScriptType" && rapid.Bool().Draw(t, "v4plus") {
					g.Meta.SSA[k] = "v4.00+"
				}
			}
		}
		g.Meta.Comments = rapid.SampledFrom([][]string{nil, {"c1"}, {"c1", "c2"}, {"line one\nline two", "c\r\nd\re"}}).Draw(t, "comments")
	}
	if rapid.Bool().Draw(t, "hasstl") {
		st := genSTLGSI(t)
		if !hostile {
			st.DSC = rapid.SampledFrom([]string{"0", "1"}).Draw(t, "dsc")
		}
		g.Meta.STLDates = rapid.Bool().Draw(t, "stldates")
		if g.Meta.STLDates && rapid.IntRange(0, 3).Draw(t, "zerodates") == 0 {
			// dates supplied as the zero time (what the STL reader makes of blank date fields): supplied all the same
			st.CD, st.RD = "", ""
		}
		g.Meta.STL = &st
	}
	if rapid.IntRange(0, 3).Draw(t, "tsmap") == 0 {
		g.Meta.TSMap = &vttTSMap{LocalMs: genMs(t, "local"), MpegTS: rapid.Int64Range(0, 1<<33).Draw(t, "mpegts")}
	}
	ids := []string{"s1", "s01", "a", "B", "s10", "s010"} // s1/s01 and s10/s010 tie under a "natural" ordering
	if rapid.IntRange(0, 3).Draw(t, "idpool") == 0 {
		// the identifier the WebVTT reader gives to the style holding a file's STYLE blocks, among identifiers sorting
		// on either side of it (a list read from a .vtt file to which the caller added styles)
		ids = []string{"a", "astisub-webvtt-default-style-id", "B", "s1", "0", "astisub"}
	} else if rapid.IntRange(0, 4).Draw(t, "blankids") == 0 {
		// names as SSA scripts have them: blanks inside, a tab, a leading digit
		ids = []string{"Main Style", "*Main Style", "a\tb", "1 st", "Default", "*Default"}
	}
	ns := rapid.IntRange(0, 6).Draw(t, "nstyles")
	css := []string{"::cue { color: red }", "::cue(b) { }", "/* x */ ::cue(.loud) { font-size: 2em }"}
	for i := 0; i < ns; i++ {
		st := glStyle{ID: ids[i], NilInline: p("stylenil", 5), Detached: p("styledetached", 8)}
		if i > 0 && rapid.IntRange(0, 2).Draw(t, "hasparent") == 0 {
			st.Parent = ids[rapid.IntRange(0, i-1).Draw(t, "parent")]
		}
		if rapid.Bool().Draw(t, "hasssastyle") {
			cols := map[string]bool{}
			for _, c := range ssaStyleCols {
				if rapid.IntRange(0, 2).Draw(t, "h"+c) == 0 {
					cols[c] = true
				}
			}
			sm := genSSAStyle(t, st.ID, cols)
			st.SSA = &sm
		}
		st.TTML = genAttrs(t, "sttml", 4)
		if rapid.IntRange(0, 2).Draw(t, "hascss") == 0 {
			st.VTTStyles = []string{fmt.Sprintf("/* %d */ %s", i, rapid.SampledFrom(css).Draw(t, "css"))}
		}
		if rapid.IntRange(0, 3).Draw(t, "stalign") == 0 {
			st.VTTAlign = "center"
		}
		g.Styles = append(g.Styles, st)
	}
	if ns > 0 && p("parentcycle", 25) {
		// nothing in the public types keeps a style from inheriting from itself or from one of its heirs
		i := rapid.IntRange(0, ns-1).Draw(t, "cyclicstyle")
		g.Styles[i].Parent = ids[rapid.IntRange(i, ns-1).Draw(t, "cyclicparent")]
	}
	nr := rapid.IntRange(0, 3).Draw(t, "nregions")
	for i := 0; i < nr; i++ {
		rg := glRegion{ID: []string{"r", "r0", "top"}[i], NilInline: p("regionnil", 5), Detached: p("regiondetached", 8), TTML: genAttrs(t, "rttml", 3)}
		rg.VTT = vttRegion{Lines: rapid.IntRange(0, 4).Draw(t, "rlines"), Width: rapid.SampledFrom([]string{"", "40%"}).Draw(t, "rwidth"), Scroll: rapid.SampledFrom([]string{"", "up"}).Draw(t, "rscroll")}
		if ns > 0 && rapid.Bool().Draw(t, "rstyle") {
			rg.Style = ids[rapid.IntRange(0, ns-1).Draw(t, "rstyleid")]
		}
		g.Regions = append(g.Regions, rg)
	}
	to := textOpts{extra: []string{"&", "<", ">", "a,b", "{x}", "\\N", "-->", "$", "Ω"}, nbsp: true}
	if hostile {
		to.controls, to.leadComb, to.raw = true, true, true
		to.extra = append(to.extra, "\u0301a", "\u0308", "\x00", "\U0001F600", "\u0085", "\r", "line\nbreak", " ", "\ufffd")
	}
	nc := rapid.IntRange(1, 5).Draw(t, "ncues")
	if hostile && rapid.IntRange(0, 9).Draw(t, "nocues") == 0 {
		nc = 0
	}
	for i := 0; i < nc; i++ {
		c := glCue{JC: -1, VP: -1, NilInline: p("cuenil", 3)}
		c.Start, c.End = genInstant(t, 99*nsHour, "start"), genInstant(t, 99*nsHour, "end")
		if g.Meta.STL != nil || !hostile {
			// 24 h is the STL limit
			c.Start, c.End = c.Start%(24*nsHour), c.End%(24*nsHour)
		}
		if hostile && rapid.IntRange(0, 7).Draw(t, "oddtimes") == 0 {
			// nothing in the public types keeps a boundary from being negative or enormous
			odd := []int64{-1, -nsMs, -999 * nsMs, -nsHour, -100 * nsHour, 1<<63 - 1, -1 << 63, 1000 * nsHour, 1 << 62}
			c.Start = rapid.SampledFrom(odd).Draw(t, "oddstart")
			if rapid.Bool().Draw(t, "oddboth") {
				c.End = rapid.SampledFrom(odd).Draw(t, "oddend")
			}
		}
		c.Index = rapid.IntRange(0, 3).Draw(t, "index")
		if rapid.IntRange(0, 3).Draw(t, "hascomments") == 0 {
			c.Comments = []string{"a comment"}
		}
		if ns > 0 && rapid.Bool().Draw(t, "cstyle") {
			c.Style = ids[rapid.IntRange(0, ns-1).Draw(t, "cstyleid")]
		}
		if nr > 0 && rapid.Bool().Draw(t, "cregion") {
			c.Region = g.Regions[rapid.IntRange(0, nr-1).Draw(t, "cregionid")].ID
		}
		if rapid.Bool().Draw(t, "settings") {
			c.Align, c.Line, c.Position = "left", "10%", "50%"
		}
		c.TTML = genAttrs(t, "cttml", 2)
		c.SSAEffect = rapid.SampledFrom([]string{"", "Karaoke"}).Draw(t, "ceffect")
		if rapid.Bool().Draw(t, "layer") {
			v := rapid.IntRange(0, 2).Draw(t, "layerv")
			c.Layer = &v
		}
		if rapid.Bool().Draw(t, "marked") {
			v := rapid.Bool().Draw(t, "markedv")
			c.Marked = &v
		}
		if rapid.Bool().Draw(t, "jc") {
			c.JC = rapid.IntRange(0, 3).Draw(t, "jcv")
			c.VP = rapid.IntRange(0, 30).Draw(t, "vpv")
		}
		nl := rapid.IntRange(1, 3).Draw(t, "nlines")
		if hostile && rapid.IntRange(0, 7).Draw(t, "nolines") == 0 {
			nl = 0
		}
		for j := 0; j < nl; j++ {
			ln := glLine{Voice: rapid.SampledFrom([]string{"", "", "Bob"}).Draw(t, "voice")}
			nrun := rapid.IntRange(1, 3).Draw(t, "nruns")
			if hostile && rapid.IntRange(0, 7).Draw(t, "noruns") == 0 {
				nrun = 0
			}
			for k := 0; k < nrun; k++ {
				r := glRun{Text: genText(t, to), NilInline: p("runnil", 3)}
				if hostile && rapid.IntRange(0, 9).Draw(t, "hugetext") == 0 {
					r.Text = fmt.Sprintf("%0*d", rapid.SampledFrom([]int{200, 5000, 100000, 111, 112, 113, 110}).Draw(t, "hugelen"), 7)
				}
				if hostile && rapid.IntRange(0, 9).Draw(t, "emptytext") == 0 {
					r.Text = ""
				}
				m := rapid.IntRange(0, 31).Draw(t, "runstyle")
				r.B, r.I, r.U = m&1 > 0, m&2 > 0, m&4 > 0
				if m&8 > 0 {
					r.Color = rapid.SampledFrom([]string{"#ff0000", "#00ffff", "red"}).Draw(t, "color")
					if hostile && rapid.IntRange(0, 2).Draw(t, "oddcolor") == 0 {
						r.Color = rapid.SampledFrom([]string{"#", "#f", "#f00", "#12345", "#ffffffffff", "rgb(", "rgba(1,2", " ", "&", "#FF00AB", "\x00"}).Draw(t, "oddcolorv")
					}
				}
				if m&16 > 0 {
					// like real cue text: keep a prefix of the previous run's tag stack, then open new tags
					if k > 0 && len(ln.Runs[k-1].Tags) > 0 && rapid.Bool().Draw(t, "keeptags") {
						prev := ln.Runs[k-1].Tags
						r.Tags = append([]vttTag(nil), prev[:rapid.IntRange(1, len(prev)).Draw(t, "keepn")]...)
					}
					if len(r.Tags) == 0 || rapid.Bool().Draw(t, "tag2") {
						tg := genVTTTag(t)
						if rapid.Bool().Draw(t, "unsortedclasses") {
							tg.Classes = []string{"yellow", "bg_blue", "big"}[:rapid.IntRange(2, 3).Draw(t, "nclasses")]
						}
						r.Tags = append(r.Tags, tg)
					}
				}
				if ns > 0 && rapid.IntRange(0, 3).Draw(t, "runstyleref") == 0 {
					r.Style = ids[rapid.IntRange(0, ns-1).Draw(t, "runstyleid")]
				}
				r.TTML = genAttrs(t, "rttml2", 2)
				if hostile && rapid.IntRange(0, 3).Draw(t, "oddttmlcolor") == 0 {
					// colour values no format defines (cut short, one digit too many, empty)
					if r.TTML == nil {
						r.TTML = map[string]string{}
					}
					r.TTML["color"] = rapid.SampledFrom([]string{"#", "#f", "#f00", "#12345", "#ffffffffff", "rgb(", "rgba(1,2", " ", "", "&"}).Draw(t, "oddttmlcolorv")
				}
				if rapid.IntRange(0, 2).Draw(t, "stlflags") == 0 {
					f := rapid.IntRange(0, 7).Draw(t, "stlf")
					r.StlI, r.StlU, r.StlB = f&1 > 0, f&2 > 0, f&4 > 0
				}
				if rapid.IntRange(0, 3).Draw(t, "ssaeffect") == 0 {
					r.SSAEffect = rapid.SampledFrom(ssaOverrides).Draw(t, "override")
				}
				if rapid.IntRange(0, 4).Draw(t, "ts") == 0 {
					r.StartAt = 1 + genMs(t, "tsval")
				}
				if rapid.IntRange(0, 5).Draw(t, "pos") == 0 {
					r.Pos = rapid.IntRange(1, 9).Draw(t, "posv")
				}
				ln.Runs = append(ln.Runs, r)
			}
			c.Lines = append(c.Lines, ln)
		}
		g.Cues = append(g.Cues, c)
	}
	return g
}

func itoa(i int) string { return strconv.Itoa(i) }

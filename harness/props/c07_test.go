package props

import (
	"bytes"
	"errors"
	"fmt"
	"math/big"
	"os"
	"os/exec"
	"path/filepath"
	"sort"
	"strings"
	"testing"
	"time"

	astisub "github.com/asticode/go-astisub"
	"golang.org/x/text/unicode/norm"
	"pgregory.net/rapid"
)

// C07 - any-to-any conversion through the file API and the CLI preserves cues.

var (
	c07Sources = []string{"srt", "ssa", "ass", "stl", "ttml", "vtt", "ts"}
	c07Dests   = []string{"srt", "ssa", "ass", "stl", "ttml", "vtt"}
)

type c07Op struct {
	Name string `json:"name"` // sync fragment unfragment merge optimize linear order
	D    int64  `json:"d,omitempty"`
	A1   int64  `json:"a1,omitempty"`
	D1   int64  `json:"d1,omitempty"`
	A2   int64  `json:"a2,omitempty"`
	D2   int64  `json:"d2,omitempty"`
}

type c07Case struct {
	Src      string  `json:"src"`
	SrcExt   string  `json:"src_ext"`
	Doc      []byte  `json:"doc"`
	Page     int     `json:"page,omitempty"`
	Other    string  `json:"other,omitempty"` // format of the document merged in
	OtherDoc []byte  `json:"other_doc,omitempty"`
	Ops      []c07Op `json:"ops"`
	Dst      string  `json:"dst"`
	DstExt   string  `json:"dst_ext"`
	CLI      bool    `json:"cli"` // run the same steps through the built CLI and compare the files byte for byte
	Chain    bool    `json:"chain"`
	BadExt   string  `json:"bad_ext,omitempty"` // error case: unsupported extension
	// PreExisting: the destination file already exists and holds (longer) unrelated content
	PreExisting bool `json:"pre_existing,omitempty"`
	// Stem: an infix of every file name used, e.g. ".en" or ".Final.v2" (the codec goes by what follows the last dot)
	Stem string `json:"stem,omitempty"`
}

func init() { register("c07", checkC07) }

type simpleCue struct {
	S, E int64
	Text string // Item.String()
}

func simpleCues(s *astisub.Subtitles) []simpleCue {
	var out []simpleCue
	for _, it := range s.Items {
		out = append(out, simpleCue{int64(it.StartAt), int64(it.EndAt), it.String()})
	}
	return out
}

// applySpec composes the executable specifications of the operations (C09-C15) on plain cues.
// exact: false once a linear correction was applied (boundaries then carry a float tolerance).
func applySpec(cs []simpleCue, op c07Op, other []simpleCue) (out []simpleCue, exact bool, ok bool) {
	exact, ok = true, true
	switch op.Name {
	case "sync":
		for _, c := range cs {
			if c.E+op.D > 0 {
				s := c.S + op.D
				if s < 0 {
					s = 0
				}
				out = append(out, simpleCue{s, c.E + op.D, c.Text})
			}
		}
	case "fragment":
		for _, c := range cs {
			s := c.S
			if c.E > c.S {
				for m := (c.S/op.D + 1) * op.D; m < c.E; m += op.D {
					out = append(out, simpleCue{s, m, c.Text})
					s = m
				}
			}
			out = append(out, simpleCue{s, c.E, c.Text})
		}
		sort.SliceStable(out, func(i, j int) bool { return out[i].S < out[j].S })
	case "unfragment":
		if len(cs) <= 1 {
			return cs, true, true
		}
		sorted := append([]simpleCue(nil), cs...)
		sort.SliceStable(sorted, func(i, j int) bool { return sorted[i].S < sorted[j].S })
		open := map[string]int{}
		for _, c := range sorted {
			if k, okk := open[c.Text]; okk && c.S <= out[k].E {
				if c.E > out[k].E {
					out[k].E = c.E
				}
				continue
			}
			out = append(out, c)
			open[c.Text] = len(out) - 1
		}
	case "order":
		out = append([]simpleCue(nil), cs...)
		sort.SliceStable(out, func(i, j int) bool { return out[i].S < out[j].S })
	case "merge":
		out = append(append([]simpleCue(nil), cs...), other...)
		sort.SliceStable(out, func(i, j int) bool { return out[i].S < out[j].S })
	case "optimize":
		out = cs
	case "linear":
		exact = false
		for _, c := range cs {
			m := func(t int64) int64 {
				num := new(big.Int).Mul(big.NewInt(t-op.A1), big.NewInt(op.D2-op.D1))
				r := new(big.Rat).SetFrac(num, big.NewInt(op.A2-op.A1))
				r.Add(r, new(big.Rat).SetInt64(op.D1))
				return ratFloorNs(r)
			}
			s, e := m(c.S), m(c.E)
			if s < 0 || e < 0 {
				ok = false
			}
			out = append(out, simpleCue{s, e, c.Text})
		}
	}
	return
}

func applyLib(s *astisub.Subtitles, op c07Op, other *astisub.Subtitles) {
	switch op.Name {
	case "sync":
		s.Add(time.Duration(op.D))
	case "fragment":
		s.Fragment(time.Duration(op.D))
	case "unfragment":
		s.Unfragment()
	case "order":
		s.Order()
	case "merge":
		s.Merge(other)
	case "optimize":
		s.Optimize()
	case "linear":
		s.ApplyLinearCorrection(time.Duration(op.A1), time.Duration(op.D1), time.Duration(op.A2), time.Duration(op.D2))
	}
}

func (op c07Op) cliArgs() (cmd string, args []string, ok bool) {
	dur := func(ns int64) string { return time.Duration(ns).String() }
	switch op.Name {
	case "sync":
		return "sync", []string{"-s=" + dur(op.D)}, op.D != 0
	case "fragment":
		return "fragment", []string{"-f=" + dur(op.D)}, op.D > 0
	case "unfragment":
		return "unfragment", nil, true
	case "merge":
		return "merge", nil, true
	case "optimize":
		return "optimize", nil, true
	case "linear":
		return "apply-linear-correction", []string{"-a1=" + dur(op.A1), "-d1=" + dur(op.D1), "-a2=" + dur(op.A2), "-d2=" + dur(op.D2)}, op.A1 > 0 && op.D1 > 0 && op.A2 > 0 && op.D2 > 0
	}
	return "", nil, false // "order" has no sub-command
}

// representable tells whether a cue text survives the destination format unchanged (white space aside).
func representable(dst string, text string) bool {
	if strings.ContainsAny(text, "\r\n\u0085\u2028\u2029") {
		return false
	}
	for _, r := range text {
		if r < 0x20 && r != '\t' || r == 0x7f || (r >= 0x80 && r <= 0x9f) || r == 0xfffd || r == 0xfeff {
			return false
		}
	}
	switch dst {
	case "srt":
		return !strings.Contains(text, "-->")
	case "vtt":
		if strings.Contains(text, "-->") {
			return false
		}
		for _, l := range strings.Split(text, " - ") {
			t := strings.TrimSpace(l)
			for _, k := range []string{"NOTE ", "STYLE", "Region: ", "X-TIMESTAMP-MAP"} {
				if strings.HasPrefix(t, k) {
					return false
				}
			}
		}
		return true
	case "ssa", "ass":
		return !strings.ContainsAny(text, "{}") && !strings.Contains(text, "\\N") && !strings.Contains(text, "\\n")
	case "stl":
		if strings.Contains(text, "$") {
			return false
		}
		enc, ok := encode6937(norm.NFC.String(text))
		return ok && len(enc)+24 <= 112
	}
	return true
}

func unitsPerSecond(dst string, rate int) int64 {
	switch dst {
	case "ssa", "ass":
		return 100
	case "stl":
		return int64(rate)
	}
	return 1000
}

func canonFormat(ext string) string {
	e := strings.ToLower(ext)
	if e == "ass" {
		return "ssa"
	}
	return e
}

func maskSTLDates(ext string, b []byte) []byte {
	if canonFormat(ext) == "stl" && len(b) >= 1024 {
		b = append([]byte(nil), b...)
		copy(b[224:236], "------------")
	}
	return b
}

func checkC07(c c07Case) string {
	if len(c.Doc)%3 == 0 && c.Dst != "" {
		// an earlier write of another list to the same format, to a destination that broke half way: nothing of it may
		// show in this conversion
		f := canonFormat(c.Dst)
		if f == "ass" {
			f = "ssa"
		}
		priorFailedWrite(f, 40+len(c.Doc)%200, len(c.Doc)%4)
	}
	dir, err := os.MkdirTemp("", "c07")
	if err != nil {
		return ""
	}
	defer os.RemoveAll(dir)
	if c.BadExt != "" {
		p := filepath.Join(dir, "in."+c.BadExt)
		_ = os.WriteFile(p, c.Doc, 0o644)
		readable := strings.EqualFold(c.BadExt, "ts") // a source format only: there is no teletext writer
		if _, err := astisub.OpenFile(p); !readable && !errors.Is(err, astisub.ErrInvalidExtension) {
			return fmt.Sprintf("Open of a .%s file returned %v, expected ErrInvalidExtension", c.BadExt, err)
		}
		s := astisub.NewSubtitles()
		s.Items = []*astisub.Item{{StartAt: time.Second, EndAt: 2 * time.Second, Lines: []astisub.Line{{Items: []astisub.LineItem{{Text: "x"}}}}}}
		if err := s.Write(filepath.Join(dir, "out."+c.BadExt)); !errors.Is(err, astisub.ErrInvalidExtension) {
			return fmt.Sprintf("Write to a .%s file returned %v, expected ErrInvalidExtension", c.BadExt, err)
		}
		if cli := os.Getenv("VERIF_CLI"); cli != "" {
			good := filepath.Join(dir, "good.srt")
			_ = os.WriteFile(good, []byte("1\n00:00:01,000 --> 00:00:02,000\nx\n"), 0o644)
			if err := exec.Command(cli, "convert", "-i", good, "-o", filepath.Join(dir, "cli."+c.BadExt)).Run(); err == nil {
				return fmt.Sprintf("CLI convert to a .%s file exited with status 0", c.BadExt)
			}
			if err := exec.Command(cli, "convert", "-i", p, "-o", filepath.Join(dir, "cli.srt")).Run(); err == nil {
				return fmt.Sprintf("CLI convert from a .%s file exited with status 0", c.BadExt)
			}
		}
		return ""
	}
	srcPath := filepath.Join(dir, "src"+c.Stem+"."+c.SrcExt)
	if err := os.WriteFile(srcPath, c.Doc, 0o644); err != nil {
		return ""
	}
	otherPath := ""
	if c.Other != "" {
		otherPath = filepath.Join(dir, "other"+c.Stem+"."+c.Other)
		_ = os.WriteFile(otherPath, c.OtherDoc, 0o644)
	}
	opts := astisub.Options{Filename: srcPath, Teletext: astisub.TeletextOptions{Page: c.Page}}
	src, err := astisub.Open(opts)
	if err != nil {
		return fmt.Sprintf("Open(%s) failed on a readable %s document: %v", filepath.Base(srcPath), c.Src, err)
	}
	var other *astisub.Subtitles
	if otherPath != "" {
		if other, err = astisub.Open(astisub.Options{Filename: otherPath, Teletext: astisub.TeletextOptions{Page: c.Page}}); err != nil {
			return fmt.Sprintf("Open(%s) failed on a readable document: %v", filepath.Base(otherPath), err)
		}
	}
	// expectation: source as read, specifications composed
	exp := simpleCues(src)
	var otherCues []simpleCue
	if other != nil {
		otherCues = simpleCues(other)
	}
	exact := true
	for _, op := range c.Ops {
		var ex, ok bool
		exp, ex, ok = applySpec(exp, op, otherCues)
		exact = exact && ex
		if !ok {
			ev.Excluded("negative-time-after-linear-correction")
			return ""
		}
	}
	dstFmt := canonFormat(c.Dst)
	// destination metadata decides the STL frame rate and programme start
	rate, tcp := 25, int64(0)
	dscTeletext := true
	if src.Metadata != nil {
		if src.Metadata.Framerate == 25 || src.Metadata.Framerate == 30 {
			rate = src.Metadata.Framerate
		}
		tcp = int64(src.Metadata.STLTimecodeStartOfProgramme)
		dscTeletext = src.Metadata.STLDisplayStandardCode != "0"
	}
	dstPath := filepath.Join(dir, "dst"+c.Stem+"."+c.DstExt)
	stale := bytes.Repeat([]byte("9\n99:59:59,000 --> 99:59:59,999\nstale content of an older file\n\n"), 400)
	if c.PreExisting {
		_ = os.WriteFile(dstPath, stale, 0o644)
	}

	if c.Chain {
		// every step goes through a file of the destination format, by the library and by the CLI: same bytes
		return c07Chain(c, dir, srcPath, otherPath)
	}

	// library entry point: Open -> ops in memory -> Write
	for _, op := range c.Ops {
		if op.Name == "merge" {
			// every merge reads its second input afresh, as the CLI does (merging one list object twice would alias its cues)
			if other, err = astisub.Open(astisub.Options{Filename: otherPath, Teletext: astisub.TeletextOptions{Page: c.Page}}); err != nil {
				return fmt.Sprintf("Open(%s) failed on a readable document: %v", filepath.Base(otherPath), err)
			}
		}
		applyLib(src, op, other)
	}
	err = src.Write(dstPath)
	if len(exp) == 0 {
		if !errors.Is(err, astisub.ErrNoSubtitlesToWrite) {
			return fmt.Sprintf("writing an empty cue list to .%s returned %v, expected ErrNoSubtitlesToWrite", c.DstExt, err)
		}
		return ""
	}
	if err != nil {
		return fmt.Sprintf("Write(%s) failed: %v", filepath.Base(dstPath), err)
	}
	// precondition: the text must be representable in the destination
	for _, e := range exp {
		if !representable(dstFmt, e.Text) {
			ev.Excluded("text-not-representable-in-" + dstFmt)
			return ""
		}
		// and so must the times: an EBU STL timecode keeps its hours in one byte
		if dstFmt == "stl" && (e.S >= 256*nsHour || e.E >= 256*nsHour) {
			ev.Excluded("time-beyond-the-stl-timecode-field")
			return ""
		}
	}
	back, err := astisub.OpenFile(dstPath)
	if err != nil {
		return fmt.Sprintf("the %s file written from a %s source cannot be read back: %v", c.DstExt, c.Src, err)
	}
	got := simpleCues(back)
	ctx := func() string {
		return fmt.Sprintf("%s -> %s, ops %+v", c.Src, c.Dst, c.Ops)
	}
	if len(got) != len(exp) {
		return fmt.Sprintf("%s: destination holds %d cues, expected %d", ctx(), len(got), len(exp))
	}
	ups := unitsPerSecond(dstFmt, rate)
	for i, e := range exp {
		g := got[i]
		for k, pair := range [][2]int64{{g.S, e.S}, {g.E, e.E}} {
			off := int64(0)
			if dstFmt == "stl" {
				off = tcp
			}
			wantU := floorUnits(pair[1]+off, ups)
			// the re-read boundary, back in units (rounding to the nearest unit absorbs the ns-level frame arithmetic)
			gotU := floorUnits(pair[0]+off+1, ups)
			if dstFmt == "stl" && src.Metadata != nil && src.Metadata.Framerate != 25 && src.Metadata.Framerate != 30 {
				// defaults apply
			}
			d := gotU - wantU
			if d < 0 {
				d = -d
			}
			tol := int64(0)
			if !exact {
				tol = 1
			}
			if d > tol {
				return fmt.Sprintf("%s: cue %d boundary %d is %d ns (%d units of 1/%d s), expected %d ns truncated = %d units", ctx(), i, k, pair[0], gotU, ups, pair[1], wantU)
			}
		}
		if dstFmt == "stl" && dscTeletext && knownActive(kfSTLTeletextTextLoss) {
			ev.Excluded(kfSTLTeletextTextLoss)
			continue
		}
		if stripSpaces(norm.NFC.String(strings.ReplaceAll(g.Text, " - ", ""))) != stripSpaces(norm.NFC.String(strings.ReplaceAll(e.Text, " - ", ""))) {
			return fmt.Sprintf("%s: cue %d text %q, expected %q", ctx(), i, g.Text, e.Text)
		}
	}
	// CLI entry point: the same single step, byte for byte
	if cli := os.Getenv("VERIF_CLI"); c.CLI && cli != "" && len(c.Ops) <= 1 {
		cmd, args := "convert", []string(nil)
		if len(c.Ops) == 1 {
			var ok bool
			if cmd, args, ok = c.Ops[0].cliArgs(); !ok {
				return ""
			}
		}
		cliOut := filepath.Join(dir, "cli"+c.Stem+"."+c.DstExt)
		if c.PreExisting {
			_ = os.WriteFile(cliOut, stale, 0o644)
		}
		full := append([]string{cmd, "-i", srcPath}, args...)
		if cmd == "merge" {
			full = append(full, "-i", otherPath)
		}
		if c.Page != 0 {
			full = append(full, fmt.Sprintf("-p=%d", c.Page))
		}
		full = append(full, "-o", cliOut)
		ev.Label("cli-run")
		out, err := exec.Command(cli, full...).CombinedOutput()
		if err != nil {
			return fmt.Sprintf("%s: CLI %v failed: %v\n%s", ctx(), full, err, clip(string(out), 500))
		}
		a, _ := os.ReadFile(cliOut)
		b, _ := os.ReadFile(dstPath)
		if !bytes.Equal(maskSTLDates(c.DstExt, a), maskSTLDates(c.DstExt, b)) {
			return fmt.Sprintf("%s: the file produced by the CLI (%d bytes) differs from the one produced through the library (%d bytes)", ctx(), len(a), len(b))
		}
	}
	return ""
}

// c07Chain runs the operations one per step through intermediate files, by the library and by the CLI.
func c07Chain(c c07Case, dir, srcPath, otherPath string) string {
	cli := os.Getenv("VERIF_CLI")
	if cli == "" {
		return ""
	}
	libIn, cliIn := srcPath, srcPath
	steps := append([]c07Op{{Name: "convert"}}, c.Ops...)
	for i, op := range steps {
		libOut := filepath.Join(dir, fmt.Sprintf("lib%d%s.%s", i, c.Stem, c.DstExt))
		cliOut := filepath.Join(dir, fmt.Sprintf("cli%d%s.%s", i, c.Stem, c.DstExt))
		cmd, args, ok := "convert", []string(nil), true
		if op.Name != "convert" {
			cmd, args, ok = op.cliArgs()
		}
		if !ok {
			continue
		}
		s, err := astisub.Open(astisub.Options{Filename: libIn, Teletext: astisub.TeletextOptions{Page: c.Page}})
		var libErr error
		if err != nil {
			libErr = err
		} else {
			var other *astisub.Subtitles
			if op.Name == "merge" {
				if other, err = astisub.Open(astisub.Options{Filename: otherPath, Teletext: astisub.TeletextOptions{Page: c.Page}}); err != nil {
					libErr = err
				}
			}
			if libErr == nil {
				applyLib(s, op, other)
				libErr = s.Write(libOut)
			}
		}
		full := append([]string{cmd, "-i", cliIn}, args...)
		if cmd == "merge" {
			full = append(full, "-i", otherPath)
		}
		if c.Page != 0 {
			full = append(full, fmt.Sprintf("-p=%d", c.Page))
		}
		full = append(full, "-o", cliOut)
		ev.Label("cli-run")
		out, cliErr := exec.Command(cli, full...).CombinedOutput()
		if (libErr == nil) != (cliErr == nil) {
			return fmt.Sprintf("step %d (%s): library error %v, CLI error %v\n%s", i, cmd, libErr, cliErr, clip(string(out), 400))
		}
		if libErr != nil {
			return "" // both refuse (e.g. nothing left to write): consistent
		}
		a, _ := os.ReadFile(cliOut)
		b, _ := os.ReadFile(libOut)
		if !bytes.Equal(maskSTLDates(c.DstExt, a), maskSTLDates(c.DstExt, b)) {
			return fmt.Sprintf("step %d (%s %v) of %s -> %s: the CLI's file (%d bytes) differs from the library's (%d bytes)", i, cmd, args, c.Src, c.Dst, len(a), len(b))
		}
		libIn, cliIn = libOut, cliOut
	}
	return ""
}

// ---------------------------------------------------------------------------
// Generators

var c07Text = textOpts{
	extra:   []string{"&", "<", ">", "a,b", "it's", "½", "café", "Zürich", "¿Qué?", "x²", "«q»", "100%", "A-B", "(ok)", "[x]", "@home", "#1", "1/2", "no;yes", "a:b", "=", "+", "*", "!", "?", "&lt;", "&amp;", "&nbsp;", "&gt;b", "&#65;"},
	nbsp:    false,
	noPunct: []string{"{", "}", "\\", "$", "`", "~", "^", "_", "|"},
}

// portableAtoms restricts generated text to what every destination format can represent.
func withPortableText(f func()) {
	saveSRT, saveVTT, saveTTML, saveSSA := srtTextOpts, vttTextOpts, ttmlTextOpts, ssaTextOpts
	saveA, saveL, saveC, saveR, saveM, saveN, saveP := atomsASCII, atomsLatin, atomsCJK, atomsRTL, atomsComb, atomsNonBMP, atomsPunct
	defer func() {
		srtTextOpts, vttTextOpts, ttmlTextOpts, ssaTextOpts = saveSRT, saveVTT, saveTTML, saveSSA
		atomsASCII, atomsLatin, atomsCJK, atomsRTL, atomsComb, atomsNonBMP, atomsPunct = saveA, saveL, saveC, saveR, saveM, saveN, saveP
	}()
	latin := []string{"é", "à", "ü", "ß", "Ø", "ñ", "ç", "Ž", "ő", "Æ", "œ", "Å", "café", "naïve", "¿", "¡", "£", "§", "°", "½"}
	atomsLatin, atomsCJK, atomsRTL, atomsComb, atomsNonBMP = latin, latin, latin, latin, latin
	atomsPunct = []string{"&", "<", ">", "\"", "'", ",", ":", ";", ".", "!", "?", "-", "=", "%", "#", "@", "/", "(", ")", "[", "]", "*", "+"}
	o := c07Text
	o.forbid = []string{"-->", "NOTE", "STYLE", "Region:", "X-TIMESTAMP", "\\N", "\\n", "{", "}", "--"}
	o.onlyASCII = false
	srtTextOpts, vttTextOpts, ttmlTextOpts, ssaTextOpts = o, o, o, o
	f()
}

func orderTimes(a, b *int64) {
	if *b < *a {
		*a, *b = *b, *a
	}
}

// genC07Doc renders a source document of the given format with start <= end and portable text.
func genC07Doc(t *rapid.T, format string) (doc []byte, page int) {
	withPortableText(func() {
		switch format {
		case "srt":
			d := genSRTDoc(t, srtTextOpts)
			if len(d.Cues) > 8 {
				d.Cues = d.Cues[:8]
			}
			for i := range d.Cues {
				d.Cues[i].Start, d.Cues[i].End = d.Cues[i].Start%86000000, d.Cues[i].End%86000000
				orderTimes(&d.Cues[i].Start, &d.Cues[i].End)
			}
			doc = renderSRT(d, genSRTRendering(t))
		case "vtt":
			d := genVTTDoc(t, false)
			if len(d.Cues) > 8 {
				d.Cues = d.Cues[:8]
			}
			for i := range d.Cues {
				d.Cues[i].Start, d.Cues[i].End = d.Cues[i].Start%86000000, d.Cues[i].End%86000000
				orderTimes(&d.Cues[i].Start, &d.Cues[i].End)
				d.Cues[i].Comments = nil
			}
			doc = renderVTT(d, genVTTRendering(t))
		case "ssa", "ass":
			d, cols := genSSADoc(t, false)
			for i := range d.Events {
				d.Events[i].Start, d.Events[i].End = d.Events[i].Start%8600000, d.Events[i].End%8600000
				orderTimes(&d.Events[i].Start, &d.Events[i].End)
			}
			doc = renderSSA(d, genSSARendering(t, cols))
		case "ttml":
			d := genTTMLDoc(t, true) // clock times on the ms grid
			// metadata other formats inherit: a frame rate STL cannot express must not leak into the destination
			d.FrameRate = rapid.SampledFrom([]int64{0, 0, 24, 25, 30, 50, 60}).Draw(t, "framerate")
			for i := range d.Cues {
				d.Cues[i].Begin.H, d.Cues[i].End.H = d.Cues[i].Begin.H%23, d.Cues[i].End.H%23
				b, e := ratFloorNs(d.Cues[i].Begin.exactNs(0, 0)), ratFloorNs(d.Cues[i].End.exactNs(0, 0))
				if e < b {
					d.Cues[i].Begin, d.Cues[i].End = d.Cues[i].End, d.Cues[i].Begin
				}
			}
			doc = renderTTML(d, genTTMLRendering(t))
		case "stl":
			d := genSTLDoc(t, true)
			for i := range d.Cues {
				in, out := d.Cues[i].In.frames(d.GSI.Rate), d.Cues[i].Out.frames(d.GSI.Rate)
				if out < in {
					d.Cues[i].In, d.Cues[i].Out = d.Cues[i].Out, d.Cues[i].In
				}
			}
			doc, _ = renderSTL(d)
		default:
			s := genTTXStream(t)
			doc, _ = s.render()
			if s.OptPage {
				page = s.pageOption()
			}
		}
	})
	return
}

func randomCase(t *rapid.T, ext string) string {
	b := []byte(ext)
	for i := range b {
		if rapid.Bool().Draw(t, "upper") {
			b[i] = byte(strings.ToUpper(string(b[i]))[0])
		}
	}
	return string(b)
}

func genC07Ops(t *rapid.T, maxEnd int64, withMerge bool) []c07Op {
	n := rapid.SampledFrom([]int{0, 0, 1, 1, 2, 3, 4}).Draw(t, "nops")
	var ops []c07Op
	for i := 0; i < n; i++ {
		names := []string{"sync", "fragment", "unfragment", "optimize", "order"}
		if withMerge {
			names = append(names, "merge")
		}
		if i == n-1 {
			names = append(names, "linear") // float arithmetic: kept last so that later cuts do not depend on it
		}
		op := c07Op{Name: rapid.SampledFrom(names).Draw(t, "op")}
		switch op.Name {
		case "sync":
			op.D = rapid.Int64Range(-maxEnd/nsMs-1, 3600000).Draw(t, "d") * nsMs
			if op.D == 0 {
				op.D = nsMs
			}
			if rapid.IntRange(0, 7).Draw(t, "farshift") == 0 {
				// past the hundredth hour: three-digit hours are legal in every text format
				op.D = (100*3600000 + rapid.Int64Range(0, 5*3600000).Draw(t, "far")) * nsMs
			}
		case "fragment":
			op.D = rapid.Int64Range(300000, maxEnd/nsMs+2).Draw(t, "f") * nsMs
		case "linear":
			op.A1 = rapid.Int64Range(1, 3600000).Draw(t, "a1") * nsMs
			op.A2 = op.A1 + rapid.Int64Range(1, 7200000).Draw(t, "da")*nsMs
			op.D1 = rapid.Int64Range(1, 3600000).Draw(t, "d1") * nsMs
			k := rapid.Int64Range(500, 2000).Draw(t, "slope")
			op.D2 = op.D1 + (op.A2-op.A1)*k/1000
		}
		ops = append(ops, op)
	}
	return ops
}

func TestC07(t *testing.T) {
	runWitnesses(t, "C07")
	pairs := 0
	seenPairs := map[string]bool{}
	rapidCheck(t, "C07/convert", tier(1200, 600000), func(rt *rapid.T) {
		c := c07Case{Src: rapid.SampledFrom(c07Sources).Draw(rt, "src"), Dst: rapid.SampledFrom(c07Dests).Draw(rt, "dst")}
		c.SrcExt, c.DstExt = randomCase(rt, c.Src), randomCase(rt, c.Dst)
		c.Doc, c.Page = genC07Doc(rt, c.Src)
		var maxEnd int64 = int64(time.Hour)
		withMerge := rapid.IntRange(0, 2).Draw(rt, "hasother") == 0
		if withMerge {
			c.Other = rapid.SampledFrom([]string{"srt", "vtt", "ttml", "ssa", "stl"}).Draw(rt, "other")
			c.OtherDoc, _ = genC07Doc(rt, c.Other)
		}
		c.Ops = genC07Ops(rt, maxEnd, withMerge)
		c.CLI = rapid.IntRange(0, 4).Draw(rt, "cli") == 0
		c.PreExisting = rapid.IntRange(0, 3).Draw(rt, "preexisting") == 0
		c.Stem = rapid.SampledFrom([]string{"", "", ".en", ".Final.v2", ".srt", ".tar"}).Draw(rt, "stem")
		c.Chain = c.CLI && len(c.Ops) >= 2 && rapid.Bool().Draw(rt, "chain")
		if !seenPairs[c.Src+">"+c.Dst] {
			seenPairs[c.Src+">"+c.Dst] = true
			pairs++
		}
		nt := canonFormat(c.Src) != canonFormat(c.Dst) || len(c.Ops) > 0
		ls := []string{"pair-" + c.Src + "-" + c.Dst, fmt.Sprintf("ops-%d", len(c.Ops))}
		if c.CLI {
			ls = append(ls, "cli")
		}
		if c.Chain {
			ls = append(ls, "cli-chain")
		}
		if c.Stem != "" {
			ls = append(ls, "file-name-with-several-dots")
		}
		ev.Case(nt, fmt.Sprintf("%v", c), ls...)
		if nt && len(c.Doc) < 500 && c.Src != "stl" && c.Src != "ts" {
			ev.Sample("convert", map[string]any{"src": c.SrcExt, "dst": c.DstExt, "ops": c.Ops, "document": string(c.Doc), "cli": c.CLI, "chain": c.Chain})
		}
		verdict(rt, "C07", "c07", c, checkC07)
	})
	ev.Note("pairs", fmt.Sprintf("%d of the 42 (source, destination) pairs drawn in this shard", pairs))
	// all 42 pairs, deterministically, plus the error cases
	sub(t, "matrix", func(t *testing.T) {
		if cfgShard != 0 {
			return
		}
		for _, src := range c07Sources {
			gen := rapid.Custom(func(rt *rapid.T) c07Case {
				doc, page := genC07Doc(rt, src)
				return c07Case{Doc: doc, Page: page}
			})
			for _, dst := range c07Dests {
				for k := 0; k < tier(2, 12); k++ {
					c := gen.Example(k + 1)
					c.Src, c.SrcExt, c.Dst, c.DstExt, c.CLI = src, src, dst, strings.ToUpper(dst), k == 0
					ev.CaseH(canonFormat(src) != canonFormat(dst), mix(strHash(src+dst), uint64(k)), "matrix", "pair-"+src+"-"+dst)
					verdict(t, "C07", "c07", c, checkC07)
				}
			}
		}
		// text lines that begin like a block keyword of some dialect without being one in the library's: text all the same
		lookalike := "1\n00:00:01,000 --> 00:00:02,000\nREGIONAL NEWS\nat ten\n\n2\n00:00:03,000 --> 00:00:04,500\nREGIONS OF FRANCE\nREGION\nlast line\n\n" +
			"3\n00:00:05,000 --> 00:00:06,000\nNOTES on a page\nNOTEBOOK\n\n4\n00:00:07,000 --> 00:00:08,000\nRegional\nregion: x\nStyles\n\n5\n00:00:09,000 --> 00:00:10,000\nplain\n"
		lookalikeVTT := "WEBVTT\n\n" + strings.ReplaceAll(lookalike, ",", ".")
		for _, dst := range c07Dests {
			for k, src := range []string{"srt", "vtt"} {
				doc := []byte(lookalike)
				if src == "vtt" {
					doc = []byte(lookalikeVTT)
				}
				ev.CaseH(true, mix(strHash("lookalike"+src+dst), uint64(k)), "matrix", "text-lines-that-begin-like-a-block-keyword")
				verdict(t, "C07", "c07", c07Case{Src: src, SrcExt: src, Doc: doc, Dst: dst, DstExt: dst, CLI: dst == "vtt"}, checkC07)
			}
		}
		// definitions that only inheritance reaches, through every operation that may drop definitions, to every destination
		deep := ttmlDoc{
			Styles: []ttmlDef{{ID: "a", Ref: "b", Attrs: map[string]string{"color": "white"}}, {ID: "b", Ref: "c", Attrs: map[string]string{"fontSize": "10px"}},
				{ID: "c", Ref: "d", Attrs: map[string]string{"fontFamily": "Arial"}}, {ID: "d", Attrs: map[string]string{"textAlign": "center"}},
				{ID: "e", Ref: "f", Attrs: map[string]string{"color": "red"}}, {ID: "f", Ref: "d", Attrs: map[string]string{"extent": "80% 10%"}}, {ID: "unused", Ref: "a", Attrs: map[string]string{"color": "blue"}}},
			Regions: []ttmlDef{{ID: "r", Ref: "e", Attrs: map[string]string{"origin": "10% 80%"}}, {ID: "idle", Ref: "unused", Attrs: map[string]string{"origin": "10% 10%"}}},
			Cues: []ttmlCue{{Begin: msClock(1000), End: msClock(2500), Style: "a", Lines: [][]ttmlRun{{{Text: "first"}}}},
				{Begin: msClock(3000), End: msClock(4500), Region: "r", Lines: [][]ttmlRun{{{Text: "second", Span: true, Style: "e"}}}}},
		}
		deepDoc := renderTTML(deep, ttmlRendering{StylePfx: "tts", XMLID: true, EOL: "\n"})
		for _, dst := range c07Dests {
			for k, ops := range [][]c07Op{{{Name: "optimize"}}, {{Name: "optimize"}, {Name: "optimize"}}, {{Name: "sync", D: 1000 * nsMs}, {Name: "optimize"}, {Name: "order"}}} {
				ev.CaseH(true, mix(strHash("deep"+dst), uint64(k)), "matrix", "inheritance-chain-of-depth-4-then-optimize")
				verdict(t, "C07", "c07", c07Case{Src: "ttml", SrcExt: "ttml", Doc: deepDoc, Ops: ops, Dst: dst, DstExt: dst, CLI: true, Chain: k > 0}, checkC07)
			}
		}
		// a first input whose list has no definition maps at all (what the teletext reader returns) merged with a document
		// that brings styles and regions its cues use: the destination must still be readable
		tsGen := rapid.Custom(func(rt *rapid.T) c07Case {
			doc, page := genC07Doc(rt, "ts")
			return c07Case{Doc: doc, Page: page}
		})
		for k := 0; k < 3; k++ {
			tc := tsGen.Example(40 + k)
			for _, dst := range []string{"ttml", "vtt", "ssa"} {
				ev.CaseH(true, mix(strHash("tsmerge"+dst), uint64(k)), "matrix", "teletext-source-merged-with-a-styled-document")
				verdict(t, "C07", "c07", c07Case{Src: "ts", SrcExt: "ts", Doc: tc.Doc, Page: tc.Page, Other: "ttml", OtherDoc: deepDoc, Ops: []c07Op{{Name: "merge"}}, Dst: dst, DstExt: dst, CLI: k == 0}, checkC07)
			}
		}
		for _, bad := range []string{"txt", "sub", "SRTX", "x", "ttm", "vt", "ts", "TS", "m2ts", "srt.bak", "stlx"} {
			ev.CaseH(true, strHash("bad"+bad), "invalid-extension")
			verdict(t, "C07", "c07", c07Case{BadExt: bad, Doc: []byte("1\n00:00:01,000 --> 00:00:02,000\nx\n")}, checkC07)
		}
		ev.Note("exhaustive-matrix", "all 42 (source, destination) pairs on generated documents, through the file API and (first document of each pair) the CLI; invalid extensions through Open, Write and the CLI")
	})
}

package props

import (
	"fmt"
	"strings"
	"time"

	astisub "github.com/asticode/go-astisub"
	"pgregory.net/rapid"
)

// Ground-truth model of a SubRip document (C01) and its renderings.

type srtRun struct {
	Text  string `json:"text"`
	B     bool   `json:"b,omitempty"`
	I     bool   `json:"i,omitempty"`
	U     bool   `json:"u,omitempty"`
	Color string `json:"color,omitempty"`
}

func (r srtRun) sameStyle(o srtRun) bool {
	return r.B == o.B && r.I == o.I && r.U == o.U && r.Color == o.Color
}

type srtCue struct {
	Start int64      `json:"start_ms"`
	End   int64      `json:"end_ms"`
	Lines [][]srtRun `json:"lines"`
}

type srtDoc struct {
	Cues []srtCue `json:"cues"`
}

// srtRendering holds every syntactic choice the format tolerates.
type srtRendering struct {
	EOL        string `json:"eol"` // "\n", "\r\n", "\r"
	BOM        bool   `json:"bom"`
	Index      int    `json:"index"`       // 0 present (1..n), 1 absent, 2 garbage non-numeric, 3 numeric but wrong
	BlankLines []int  `json:"blank_lines"` // per cue gap, 1..3 (cycled)
	EOFBlank   int    `json:"eof_blank"`   // 0..3 blank lines after the last cue
	FinalEOL   bool   `json:"final_eol"`   // last line terminated
	Sep        string `json:"sep"`         // "," or "."
	FracDigits int    `json:"frac_digits"` // 3, or fewer when the value allows (2: drop trailing zero, 1: drop two)
	PadL       string `json:"pad_l"`       // blanks before -->
	PadR       string `json:"pad_r"`       // blanks after -->
	Coords     bool   `json:"coords"`      // trailing X1:.. Y2:..
	UpperTags  bool   `json:"upper_tags"`
	ColorQuote int    `json:"color_quote"` // 0 double, 1 single, 2 none (when the value allows)
	Carry      bool   `json:"carry"`       // keep emphasis open across runs and lines instead of closing after each run
	Unterm     bool   `json:"unterminated"`
	NBSPEntity bool   `json:"nbsp_entity"`          // write U+00A0 as &nbsp;
	CoordSep   string `json:"coord_sep,omitempty"`  // white space between the end time and the coordinates
	TagLines   bool   `json:"tag_lines,omitempty"`  // tags ahead of a line's first run are written on a line of their own
	AmpLiteral bool   `json:"amp_literal"`          // leave '&' unescaped where that is unambiguous
	LongHours  bool   `json:"long_hours"`           // unused marker (hours >= 100 come from the model)
	EndSep     string `json:"end_sep,omitempty"`    // millisecond separator of the end time when it differs from the start's
	CoordForm  int    `json:"coord_form,omitempty"` // 1: coordinates with a decimal point, 2: with a decimal comma
	FontExtra  int    `json:"font_extra,omitempty"` // font tags carry other attributes: 1 after the colour, 2 before it, 3 two after it
}

func fmtSRTTime(ms int64, sep string, digits int) string {
	h := ms / 3600000
	m := ms / 60000 % 60
	s := ms / 1000 % 60
	f := ms % 1000
	frac := fmt.Sprintf("%03d", f)
	if digits == 2 && f%10 == 0 {
		frac = frac[:2]
	} else if digits == 1 && f%100 == 0 {
		frac = frac[:1]
	}
	return fmt.Sprintf("%02d:%02d:%02d%s%s", h, m, s, sep, frac)
}

func escapeSRT(s string, r srtRendering) string {
	var sb strings.Builder
	for i, c := range s {
		switch c {
		case '&':
			rest := s[i+1:]
			if r.AmpLiteral && rest != "" && !strings.HasPrefix(rest, "amp;") && !strings.HasPrefix(rest, "lt;") && !strings.HasPrefix(rest, "nbsp;") {
				sb.WriteByte('&')
			} else {
				sb.WriteString("&amp;")
			}
		case '<':
			sb.WriteString("&lt;")
		case '\u00a0':
			if r.NBSPEntity {
				sb.WriteString("&nbsp;")
			} else {
				sb.WriteRune(c)
			}
		default:
			sb.WriteRune(c)
		}
	}
	return sb.String()
}

func renderSRT(d srtDoc, r srtRendering) []byte {
	var sb strings.Builder
	if r.BOM {
		sb.WriteString("\xef\xbb\xbf")
	}
	tag := func(s string) string {
		if r.UpperTags {
			// upper-case the element name only
			return strings.ToUpper(s)
		}
		return s
	}
	fontOpen := func(c string) string {
		name := "font"
		attr := "color"
		if r.UpperTags {
			name, attr = "FONT", "COLOR"
		}
		q := `"`
		switch r.ColorQuote {
		case 1:
			q = "'"
		case 2:
			if !strings.ContainsAny(c, " \t>\"'=`<") {
				q = ""
			}
		}
		switch r.FontExtra {
		case 1:
			return "<" + name + " " + attr + "=" + q + c + q + ` face="Arial">`
		case 2:
			return "<" + name + ` face="Arial" ` + attr + "=" + q + c + q + ">"
		case 3:
			return "<" + name + " " + attr + "=" + q + c + q + ` face="Arial" size="12">`
		}
		return "<" + name + " " + attr + "=" + q + c + q + ">"
	}
	lines := []string{}
	emit := func(l string) { lines = append(lines, l) }
	for ci, cue := range d.Cues {
		switch r.Index {
		case 0:
			emit(fmt.Sprint(ci + 1))
		case 2:
			emit(fmt.Sprintf("cue-%c", 'a'+ci%26))
		case 3:
			emit(fmt.Sprint(1000 - ci*7))
		}
		endSep := r.Sep
		if r.EndSep != "" {
			endSep = r.EndSep
		}
		tl := fmtSRTTime(cue.Start, r.Sep, r.FracDigits) + r.PadL + "-->" + r.PadR + fmtSRTTime(cue.End, endSep, r.FracDigits)
		if r.Coords {
			sep := r.CoordSep
			if sep == "" {
				sep = " "
			}
			tl += sep + []string{"X1:100 X2:600 Y1:050 Y2:100", "X1:100.5 X2:600.25 Y1:050 Y2:100.0", "X1:100,5 X2:600 Y1:050,75 Y2:100"}[r.CoordForm%3]
		}
		emit(tl)
		cur := srtRun{} // style currently open
		for li, ln := range cue.Lines {
			var lb strings.Builder
			for ri, run := range ln {
				// transition cur -> run style
				if cur.Color != "" && cur.Color != run.Color {
					lb.WriteString(tag("</font>"))
					cur.Color = ""
				}
				if cur.U && !run.U {
					lb.WriteString(tag("</u>"))
					cur.U = false
				}
				if cur.I && !run.I {
					lb.WriteString(tag("</i>"))
					cur.I = false
				}
				if cur.B && !run.B {
					lb.WriteString(tag("</b>"))
					cur.B = false
				}
				if run.Color != "" && cur.Color != run.Color {
					lb.WriteString(fontOpen(run.Color))
					cur.Color = run.Color
				}
				if run.B && !cur.B {
					lb.WriteString(tag("<b>"))
					cur.B = true
				}
				if run.I && !cur.I {
					lb.WriteString(tag("<i>"))
					cur.I = true
				}
				if run.U && !cur.U {
					lb.WriteString(tag("<u>"))
					cur.U = true
				}
				if r.TagLines && ri == 0 && lb.Len() > 0 {
					// the tags that open (or close) emphasis ahead of this line sit on a line of their own
					emit(lb.String())
					lb.Reset()
				}
				lb.WriteString(escapeSRT(run.Text, r))
				lastOfCue := li == len(cue.Lines)-1 && ri == len(ln)-1
				if !r.Carry || (lastOfCue && !r.Unterm) {
					if cur.U {
						lb.WriteString(tag("</u>"))
					}
					if cur.I {
						lb.WriteString(tag("</i>"))
					}
					if cur.B {
						lb.WriteString(tag("</b>"))
					}
					if cur.Color != "" {
						lb.WriteString(tag("</font>"))
					}
					cur = srtRun{}
				}
			}
			emit(lb.String())
		}
		if ci < len(d.Cues)-1 {
			n := 1
			if len(r.BlankLines) > 0 {
				n = r.BlankLines[ci%len(r.BlankLines)]
			}
			for k := 0; k < n; k++ {
				emit("")
			}
		} else {
			for k := 0; k < r.EOFBlank; k++ {
				emit("")
			}
		}
	}
	for i, l := range lines {
		sb.WriteString(l)
		if i < len(lines)-1 || r.FinalEOL {
			sb.WriteString(r.EOL)
		}
	}
	return []byte(sb.String())
}

// normSRT applies N1 (merge adjacent runs of identical style, drop empty runs).
func normSRT(d srtDoc) srtDoc {
	out := srtDoc{}
	for _, c := range d.Cues {
		nc := srtCue{Start: c.Start, End: c.End}
		for _, l := range c.Lines {
			var nl []srtRun
			for _, r := range l {
				if r.Text == "" {
					continue
				}
				if n := len(nl); n > 0 && nl[n-1].sameStyle(r) {
					nl[n-1].Text += r.Text
				} else {
					nl = append(nl, r)
				}
			}
			nc.Lines = append(nc.Lines, nl)
		}
		out.Cues = append(out.Cues, nc)
	}
	return out
}

func diffSRT(want, got srtDoc) string {
	want, got = normSRT(want), normSRT(got)
	if len(want.Cues) != len(got.Cues) {
		return fmt.Sprintf("%d cues, expected %d", len(got.Cues), len(want.Cues))
	}
	for i := range want.Cues {
		w, g := want.Cues[i], got.Cues[i]
		if w.Start != g.Start || w.End != g.End {
			return fmt.Sprintf("cue %d: times %d-->%d ms, expected %d-->%d ms", i, g.Start, g.End, w.Start, w.End)
		}
		if len(w.Lines) != len(g.Lines) {
			return fmt.Sprintf("cue %d: %d lines %+v, expected %d lines %+v", i, len(g.Lines), g.Lines, len(w.Lines), w.Lines)
		}
		for j := range w.Lines {
			if len(w.Lines[j]) != len(g.Lines[j]) {
				return fmt.Sprintf("cue %d line %d: runs %+v, expected %+v", i, j, g.Lines[j], w.Lines[j])
			}
			for k := range w.Lines[j] {
				if w.Lines[j][k] != g.Lines[j][k] {
					return fmt.Sprintf("cue %d line %d run %d: %+v, expected %+v", i, j, k, g.Lines[j][k], w.Lines[j][k])
				}
			}
		}
	}
	return ""
}

// projSRT projects what the library returned onto the model (public fields only).
func projSRT(s *astisub.Subtitles) (srtDoc, string) {
	d := srtDoc{}
	for i, it := range s.Items {
		if it.StartAt%time.Millisecond != 0 || it.EndAt%time.Millisecond != 0 {
			return d, fmt.Sprintf("cue %d: boundary not on the millisecond grid: %v %v", i, it.StartAt, it.EndAt)
		}
		c := srtCue{Start: int64(it.StartAt / time.Millisecond), End: int64(it.EndAt / time.Millisecond)}
		for _, l := range it.Lines {
			var runs []srtRun
			for _, li := range l.Items {
				r := srtRun{Text: li.Text}
				if li.InlineStyle != nil {
					r.B, r.I, r.U = li.InlineStyle.SRTBold, li.InlineStyle.SRTItalics, li.InlineStyle.SRTUnderline
					if li.InlineStyle.SRTColor != nil {
						r.Color = *li.InlineStyle.SRTColor
					}
				}
				runs = append(runs, r)
			}
			c.Lines = append(c.Lines, runs)
		}
		d.Cues = append(d.Cues, c)
	}
	return d, ""
}

// toSubtitlesSRT converts the model to the public types (write direction).
func toSubtitlesSRT(d srtDoc) *astisub.Subtitles {
	s := astisub.NewSubtitles()
	for _, c := range d.Cues {
		it := &astisub.Item{StartAt: time.Duration(c.Start) * time.Millisecond, EndAt: time.Duration(c.End) * time.Millisecond}
		for _, l := range c.Lines {
			ln := astisub.Line{}
			for _, r := range l {
				li := astisub.LineItem{Text: r.Text}
				if r.B || r.I || r.U || r.Color != "" {
					sa := &astisub.StyleAttributes{SRTBold: r.B, SRTItalics: r.I, SRTUnderline: r.U}
					if r.Color != "" {
						col := r.Color
						sa.SRTColor = &col
					}
					li.InlineStyle = sa
				}
				ln.Items = append(ln.Items, li)
			}
			it.Lines = append(it.Lines, ln)
		}
		s.Items = append(s.Items, it)
	}
	return s
}

// ---------------------------------------------------------------------------
// Generators

var srtColors = []string{"#ff0000", "#00FF00", "red", "yellow", "#1a2b3c", "rgb(1,2,3)", "00ff00", "fff", "12345678", "#FFF", "Red"}

var srtTextOpts = textOpts{
	feff:     true,
	extra:    []string{"\ufeffa", "\ufeff", "&amp;", "&lt;", "&nbsp;", "&gt;", "<b>", "</i>", "<font color=\"red\">", "{\\an8}", "00:00:01,000", "->", "--", "1", "23", "NOTE", "WEBVTT", "&#65;", "&", "<", "a<b", "x>y", "<3", "\u2014>", "Paris \u2013> Rome", "=>", "\u2192"},
	forbid:   []string{"-->"},
	controls: true,
	nbsp:     true,
}

var boundaryMs = []int64{0, 1, 999, 1000, 59999, 60000, 3599999, 3600000, 35999999, 36000000, 86399999, 86400000, 359999999}

func genMs(t *rapid.T, label string) int64 {
	switch rapid.IntRange(0, 5).Draw(t, label+"k") {
	case 0:
		return rapid.SampledFrom(boundaryMs).Draw(t, label)
	case 1, 2:
		return rapid.Int64Range(0, 100000).Draw(t, label)
	default:
		return rapid.Int64Range(0, 359999999).Draw(t, label)
	}
}

func genSRTRun(t *rapid.T, o textOpts) srtRun {
	r := srtRun{Text: genText(t, o)}
	if rapid.IntRange(0, 2).Draw(t, "styled") > 0 {
		m := rapid.IntRange(0, 15).Draw(t, "style")
		r.B, r.I, r.U = m&1 > 0, m&2 > 0, m&4 > 0
		if m&8 > 0 {
			r.Color = rapid.SampledFrom(srtColors).Draw(t, "color")
		}
	}
	return r
}

func genSRTDoc(t *rapid.T, o textOpts) srtDoc {
	n := rapid.IntRange(0, 8).Draw(t, "cues")
	if rapid.IntRange(0, 24).Draw(t, "big") == 0 {
		n = rapid.IntRange(40, 120).Draw(t, "bigcues")
	}
	d := srtDoc{}
	for i := 0; i < n; i++ {
		c := srtCue{Start: genMs(t, "start"), End: genMs(t, "end")}
		var prev *srtRun
		nl := rapid.IntRange(1, 3).Draw(t, "lines")
		for j := 0; j < nl; j++ {
			nr := rapid.IntRange(1, 3).Draw(t, "runs")
			var runs []srtRun
			joined := ""
			for k := 0; k < nr; k++ {
				run := genSRTRun(t, o)
				// emphasis usually spans several runs and lines: half of the time the style of the previous run goes on
				if prev != nil && rapid.Bool().Draw(t, "samestyle") {
					run.B, run.I, run.U, run.Color = prev.B, prev.I, prev.U, prev.Color
				}
				pr := run
				prev = &pr
				// interior spaces between runs are part of the text: attach them to this run
				if k > 0 && rapid.Bool().Draw(t, "lead") {
					run.Text = " " + run.Text
				}
				run.Text = fixJoin(joined, run.Text, o.forbid)
				joined += run.Text
				runs = append(runs, run)
			}
			c.Lines = append(c.Lines, runs)
		}
		d.Cues = append(d.Cues, c)
	}
	return d
}

func genSRTRendering(t *rapid.T) srtRendering {
	pads := []string{"", " ", "  ", "\t", " \t"}
	r := srtRendering{
		EOL:        rapid.SampledFrom([]string{"\n", "\n", "\r\n", "\r\n", "\r"}).Draw(t, "eol"),
		BOM:        rapid.Bool().Draw(t, "bom"),
		Index:      rapid.SampledFrom([]int{0, 0, 0, 1, 2, 3}).Draw(t, "index"),
		EOFBlank:   rapid.IntRange(0, 3).Draw(t, "eofblank"),
		FinalEOL:   rapid.Bool().Draw(t, "finaleol"),
		Sep:        rapid.SampledFrom([]string{",", ",", "."}).Draw(t, "sep"),
		FracDigits: rapid.SampledFrom([]int{3, 3, 2, 1}).Draw(t, "frac"),
		PadL:       rapid.SampledFrom(pads).Draw(t, "padl"),
		PadR:       rapid.SampledFrom(pads).Draw(t, "padr"),
		Coords:     rapid.IntRange(0, 3).Draw(t, "coords") == 0,
		UpperTags:  rapid.IntRange(0, 3).Draw(t, "upper") == 0,
		ColorQuote: rapid.IntRange(0, 2).Draw(t, "quote"),
		Carry:      rapid.Bool().Draw(t, "carry"),
		Unterm:     rapid.Bool().Draw(t, "unterm"),
		NBSPEntity: rapid.Bool().Draw(t, "nbspent"),
		CoordSep:   rapid.SampledFrom([]string{" ", " ", "\t", "  ", " \t"}).Draw(t, "coordsep"),
		TagLines:   rapid.IntRange(0, 3).Draw(t, "taglines") == 0,
		AmpLiteral: rapid.Bool().Draw(t, "amplit"),
		CoordForm:  rapid.SampledFrom([]int{0, 0, 1, 2}).Draw(t, "coordform"),
		FontExtra:  rapid.SampledFrom([]int{0, 0, 0, 1, 2, 3}).Draw(t, "fontextra"),
	}
	if rapid.IntRange(0, 5).Draw(t, "mixsep") == 0 {
		r.EndSep = map[string]string{",": ".", ".": ","}[r.Sep]
	}
	nb := rapid.IntRange(1, 3).Draw(t, "nblank")
	for i := 0; i < nb; i++ {
		r.BlankLines = append(r.BlankLines, rapid.IntRange(1, 3).Draw(t, "blank"))
	}
	if r.EOFBlank > 0 {
		r.FinalEOL = true
	}
	return r
}

package props

import (
	"bytes"
	"encoding/json"
	"fmt"
	"io"
	"os"
	"os/exec"
	"path/filepath"
	"regexp"
	"runtime/debug"
	"strings"
	"testing"
	"time"

	astisub "github.com/asticode/go-astisub"
	"pgregory.net/rapid"
)

// C08 - totality: no reader or writer ever panics or hangs.

type c08Case struct {
	// reader case
	Format string   `json:"format,omitempty"` // srt vtt ssa ttml stl ts open
	Doc    []byte   `json:"doc,omitempty"`
	Opts   readOpts `json:"opts"`
	Ext    string   `json:"ext,omitempty"` // format "open": file extension used with the file API
	// writer case
	Writer string  `json:"writer,omitempty"`
	Spec   *glSpec `json:"spec,omitempty"`
	Indent *string `json:"indent,omitempty"`
}

func init() { register("c08", checkC08) }

// timeLimit: three orders of magnitude above what the readers need.
func timeLimit(n int) time.Duration {
	return 5*time.Second + time.Duration(n)*50*time.Microsecond
}

type callResult struct {
	panicMsg string
	astits   bool // the panic happened inside the third-party demultiplexer
}

// runGuarded runs f in its own goroutine with recover(); ok=false when it did not return within limit.
func runGuarded(f func(), limit time.Duration) (res callResult, ok bool) {
	done := make(chan callResult, 1)
	go func() {
		var r callResult
		defer func() {
			if rec := recover(); rec != nil {
				st := string(debug.Stack())
				r.panicMsg = hexRe.ReplaceAllString(fmt.Sprintf("PANIC: %v\n%s", rec, trimStack([]byte(st))), "")
				r.astits = firstLibraryFrame(st) == "astits"
			}
			done <- r
		}()
		f()
	}()
	select {
	case r := <-done:
		return r, true
	case <-time.After(limit):
		return callResult{}, false
	}
}

// firstLibraryFrame tells in which module the innermost non-runtime frame of a panic lies.
func firstLibraryFrame(stack string) string {
	lines := strings.Split(stack, "\n")
	seenPanic := false
	for _, l := range lines {
		if strings.HasPrefix(l, "panic(") {
			seenPanic = true
			continue
		}
		if !seenPanic || strings.HasPrefix(l, "\t") || strings.HasPrefix(l, "runtime.") || strings.HasPrefix(l, "runtime/") {
			continue
		}
		switch {
		case strings.Contains(l, "go-astits"):
			return "astits"
		case strings.Contains(l, "go-astisub"):
			return "astisub"
		case strings.Contains(l, "go-astikit"):
			// helper library: whoever called it is responsible
			continue
		default:
			return "other"
		}
	}
	return ""
}

// checkC08InChild runs the case in a process of its own: unbounded recursion (a cyclic style chain followed without a
// guard) ends in a fatal stack overflow that recover() cannot intercept.
func checkC08InChild(c c08Case) string {
	dir, err := os.MkdirTemp("", "c08child")
	if err != nil {
		return ""
	}
	defer os.RemoveAll(dir)
	b, _ := json.Marshal(c)
	p := filepath.Join(dir, "case.json")
	if err := os.WriteFile(p, b, 0o644); err != nil {
		return ""
	}
	cmd := exec.Command(os.Args[0], "-test.run", "^TestC08Child$", "-test.count", "1", "-test.v")
	cmd.Env = append(os.Environ(), "VERIF_C08_CASE="+p, "VERIF_FRAG=", "VERIF_REPLAY_OUT=")
	out, _ := cmd.CombinedOutput()
	if i := bytes.Index(out, []byte("C08CHILD-RESULT:")); i >= 0 {
		rest := out[i+len("C08CHILD-RESULT:"):]
		if j := bytes.IndexByte(rest, '\n'); j >= 0 {
			rest = rest[:j]
		}
		var msg string
		if json.Unmarshal(rest, &msg) == nil {
			return msg
		}
	}
	// no result line: the process died
	reason := "no output"
	for _, l := range strings.Split(string(out), "\n") {
		if strings.HasPrefix(l, "fatal error:") || strings.HasPrefix(l, "runtime: goroutine stack exceeds") {
			reason = l
			break
		}
	}
	return fmt.Sprintf("the %s writer brought the whole process down (not even a recoverable panic): %s", c.Writer, reason)
}

// TestC08Child is the body of that process.
func TestC08Child(t *testing.T) {
	p := os.Getenv("VERIF_C08_CASE")
	if p == "" {
		t.Skip("not a child")
	}
	b, err := os.ReadFile(p)
	if err != nil {
		t.Fatal(err)
	}
	var c c08Case
	if err := json.Unmarshal(b, &c); err != nil {
		t.Fatal(err)
	}
	debug.SetMaxStack(32 << 20) // fail fast
	msg, _ := json.Marshal(checkC08(c))
	fmt.Printf("\nC08CHILD-RESULT:%s\n", msg)
}

func checkC08(c c08Case) string {
	if c.Writer != "" && c.Spec != nil && c.Spec.hasParentCycle() && os.Getenv("VERIF_C08_CASE") == "" {
		return checkC08InChild(c)
	}
	var f func()
	size := len(c.Doc)
	switch {
	case c.Writer != "":
		s := c.Spec.build()
		f = func() {
			restore := astisub.Now
			astisub.Now = func() time.Time { return c19NowA }
			defer func() { astisub.Now = restore }()
			if c.Writer == "ttml" && c.Indent != nil {
				_ = s.WriteToTTML(io.Discard, astisub.WriteToTTMLWithIndentOption(*c.Indent))
				return
			}
			_ = writeFormat(c.Writer, s, io.Discard)
		}
		size = 200000
	case c.Format == "open":
		dir, err := os.MkdirTemp("", "c08")
		if err != nil {
			return ""
		}
		defer os.RemoveAll(dir)
		p := filepath.Join(dir, "in."+c.Ext)
		if err := os.WriteFile(p, c.Doc, 0o644); err != nil {
			return ""
		}
		f = func() {
			_, _ = astisub.Open(astisub.Options{Filename: p, Teletext: astisub.TeletextOptions{Page: c.Opts.Page, PID: c.Opts.PID}, STL: astisub.STLOptions{IgnoreTimecodeStartOfProgramme: c.Opts.IgnoreTCP}})
		}
	default:
		f = func() { _, _ = readFormat(c.Format, bytes.NewReader(c.Doc), c.Opts) }
	}
	limit := timeLimit(size)
	for attempt := 0; attempt < 3; attempt++ {
		res, ok := runGuarded(f, limit)
		if ok {
			if res.panicMsg != "" {
				if res.astits {
					// the demultiplexer's own crash: outside the property (counted)
					ev.Excluded("panic-inside-third-party-demultiplexer")
					return ""
				}
				return res.panicMsg
			}
			return ""
		}
	}
	return fmt.Sprintf("did not return within %v on a %d-byte input (three attempts): hang or super-linear time", limit, size)
}

// ---------------------------------------------------------------------------
// Structure-aware mutation of valid documents

var hostileLines = map[string][]string{
	"srt": {"00:00:01,000 -->", "--> 00:00:02,000", "-->", "00:00:01,000 --> x", "a --> b", "99999999999999999999:00:00,000 --> 00:00:01,000", "1:2 --> 3:4", ":: --> ::", "00:00:01,0000 --> 00:00:02,000",
		"-00:00:01,000 --> 00:00:02,000", "00:00:01,000 --> 00:00:02,000 --> 00:00:03,000", "<font color=>", "<b", "</", "&", "\xff\xfe", "<font color=\"", "1", "",
		// every inline token of the format cut short at each position
		"{\\an8", "{\\an", "{\\a", "{\\", "{", "x{\\an8", "{\\an8<i>}", "{\\an0}", "{\\an8}", "&amp", "&#", "&#x", "&#;", "&nbsp", "<font", "<font ", "<font color", "<font color=\"#ff", "<i", "</i", "<i>{\\an"},
	"vtt": {"00:00:01.000 -->", "--> 00:00:02.000", "-->", "00:00:01.000 --> x", "WEBVTT", "Region: id", "Region: =", "Region: id=a lines=x", "Region: ", "X-TIMESTAMP-MAP=", "X-TIMESTAMP-MAP", "X-TIMESTAMP-MAP=LOCAL:x,MPEGTS:y",
		"X-TIMESTAMP-MAP=LOCAL", "STYLE", "NOTE ", "NOTE", "00:00:01.000 --> 00:00:02.000 region:none", "00:00:01.000 --> 00:00:02.000 align", "00:00:01.000 --> 00:00:02.000 :", "<v>", "<v ", "</v></v></c>", "<c.>", "<.>", "< >", "<00:00:01.000>", "<99:99:99.999>x", "<>", "\xff",
		"REGION", "REGION\nid", "REGION\nid:fred\nwidth", "REGION\nid:fred width:40% lines", "REGION\n:", "REGION\nid:", "REGION\nscroll", "regionanchor:0%,100%", "viewportanchor:", "STYLE\n::cue {", "STYLE\n", "NOTE\n-->", "NOTE\nx\n00:00:01.000 --> 00:00:02.000",
		"<c.a", "<c.", "<v Bob", "<v", "<00:00:01", "<00:", "&amp", "&nb", "&#", "{\\an8", "</", "</c", "<ruby><rt", "x<", "x<v A>y</v", "<lang en"},
	"ssa": {"Format:", "Format: ", "Format: Text", "Dialogue:", "Dialogue: ", "Dialogue: ,,,,,,,,,", "Style:", "Style: a", "Style: a,b,c,d,e,f,g,h,i,j,k,l,m,n,o,p,q,r,s,t,u,v,w,x,y,z", "[Events]", "[V4 Styles]", "[V4+ Styles]", "[Script Info]", "[", "]", "[]",
		"PlayResX: x", "Timer: ,", ":", "::", "; ", "Dialogue: Marked=0,0:00:00.00,x,,,0,0,0,,t", "Dialogue: 0,9999999999999999999:00:00.00,0:00:01.00,,,0,0,0,,t", "Dialogue: 0,0:00:00.00,0:00:01.00,*,,0,0,0,,{", "Dialogue: 0,0:00:00.00,0:00:01.00,,,a,b,c,,t",
		"Dialogue: 0,0:00:00.00,0:00:01.00,,,0,0,0,,{\\", "Dialogue: 0,0:00:00.00,0:00:01.00,,,0,0,0,,{\\an8", "Dialogue: 0,0:00:00.00,0:00:01.00,,,0,0,0,,\\", "Dialogue: 0,0:00:00.00,0:00:01.00,,,0,0,0,,\\N", "Dialogue: 0,0:00:00.00,0:00:01.00,,,0,0,0,,}{", "Dialogue: 0,0:00:00.00,0:00:01.00,,,0,0,0,,{}",
		"Style: a,&H", "Style: a,&", "Style: a,-", "Style: a,0x", "Dialogue: 0,0:00:00", "Dialogue: 0,0:00:00.00,0:", "Dialogue: Marked=", "Dialogue: Marked"},
}

func mutateLines(t *rapid.T, format string, doc []byte, other []byte) []byte {
	eol := "\n"
	lines := splitLinesAny(doc)
	n := rapid.IntRange(1, 4).Draw(t, "nmut")
	for i := 0; i < n; i++ {
		if len(lines) == 0 {
			lines = []string{""}
		}
		k := rapid.IntRange(0, len(lines)-1).Draw(t, "line")
		switch rapid.IntRange(0, 11).Draw(t, "op") {
		case 11: // one cell of the line (between commas, blanks, colons) replaced by a degenerate value, the others kept
			seps := func(r rune) bool { return r == ',' || r == ' ' || r == ':' }
			toks := strings.FieldsFunc(lines[k], seps)
			if len(toks) > 0 {
				tok := toks[rapid.IntRange(0, len(toks)-1).Draw(t, "cell")]
				v := rapid.SampledFrom([]string{"&H", "&", "&H&", "&HFFFFFFFFFFFFFFFFFF", "H", "-", "--", "-0", "0x", "", "9999999999999999999", "1e9", "NaN", "%", "\u00a0", "{", "}", "<", "\\"}).Draw(t, "cellvalue")
				if at := strings.Index(lines[k], tok); at >= 0 {
					// the last occurrence as often as the first: trailing columns are where a short line still parses
					if rapid.Bool().Draw(t, "lastcell") {
						at = strings.LastIndex(lines[k], tok)
					}
					lines[k] = lines[k][:at] + v + lines[k][at+len(tok):]
				}
			}
		case 9: // cut the line at any byte, or drop its head
			if len(lines[k]) > 1 {
				cut := rapid.IntRange(1, len(lines[k])-1).Draw(t, "cutat")
				if rapid.IntRange(0, 3).Draw(t, "head") == 0 {
					lines[k] = lines[k][cut:]
				} else {
					lines[k] = lines[k][:cut]
				}
			}
		case 10: // glue a hostile constant to the end or the start of the line
			h := rapid.SampledFrom(hostileLines[format]).Draw(t, "hostile")
			if rapid.Bool().Draw(t, "atend") {
				lines[k] += h
			} else {
				lines[k] = h + lines[k]
			}
		case 0: // delete
			lines = append(lines[:k], lines[k+1:]...)
		case 1: // duplicate
			lines = append(lines[:k+1], lines[k:]...)
		case 2: // swap with the next
			if k+1 < len(lines) {
				lines[k], lines[k+1] = lines[k+1], lines[k]
			}
		case 3: // replace by a hostile constant
			lines[k] = rapid.SampledFrom(hostileLines[format]).Draw(t, "hostile")
		case 4: // insert a hostile constant
			h := rapid.SampledFrom(hostileLines[format]).Draw(t, "hostile")
			lines = append(lines[:k], append([]string{h}, lines[k:]...)...)
		case 5: // truncate the line at a token boundary
			toks := strings.FieldsFunc(lines[k], func(r rune) bool { return r == ' ' || r == ',' || r == ':' || r == '>' })
			if len(toks) > 1 {
				cut := strings.Index(lines[k], toks[rapid.IntRange(1, len(toks)-1).Draw(t, "tok")])
				if cut > 0 {
					lines[k] = lines[k][:cut]
				}
			}
		case 6: // truncate the document
			lines = lines[:k]
		case 7: // splice the other document
			ol := splitLinesAny(other)
			if len(ol) > 0 {
				j := rapid.IntRange(0, len(ol)-1).Draw(t, "spliceat")
				lines = append(lines[:k], ol[j:]...)
			}
		case 8: // change the end-of-line convention half way
			eol = rapid.SampledFrom([]string{"\r", "\r\n", "\n\r", "\x00"}).Draw(t, "eol")
		}
	}
	return []byte(strings.Join(lines, eol))
}

func mutateBytes(t *rapid.T, doc []byte) []byte {
	doc = append([]byte(nil), doc...)
	n := rapid.IntRange(1, 5).Draw(t, "nmut")
	for i := 0; i < n && len(doc) > 0; i++ {
		k := rapid.IntRange(0, len(doc)-1).Draw(t, "at")
		switch rapid.IntRange(0, 5).Draw(t, "bop") {
		case 0:
			doc[k] ^= byte(1 << rapid.IntRange(0, 7).Draw(t, "bit"))
		case 1:
			doc[k] = rapid.SampledFrom([]byte{0, 0xff, ' ', '\n', '\r', '<', '>', '&', ':', ',', '-', 0x80, 0x7f}).Draw(t, "byte")
		case 2:
			doc = doc[:k]
		case 3:
			doc = append(doc[:k], doc[k+rapid.IntRange(0, len(doc)-k-1).Draw(t, "del"):]...)
		case 4:
			ins := rapid.SliceOfN(rapid.Byte(), 1, 8).Draw(t, "ins")
			doc = append(doc[:k], append(ins, doc[k:]...)...)
		case 5:
			j := rapid.IntRange(0, len(doc)-1).Draw(t, "dupfrom")
			doc = append(doc, doc[j:]...)
		}
	}
	return doc
}

var hostileTTML = []string{
	`<tt><body><div><p>no times</p></div></body></tt>`,
	`<tt><body><div><p begin="00:00:01.000">no end</p></div></body></tt>`,
	`<tt><body><div><p end="00:00:01.000">no begin</p></div></body></tt>`,
	`<tt><body><div><p begin="" end="">x</p></div></body></tt>`,
	`<tt><body><div><p begin="1" end="2">x</p></div></body></tt>`,
	`<tt><body><div><p begin="99999999999999999999s" end="1t">x</p></div></body></tt>`,
	`<tt ttp:frameRate="x"><body><div><p begin="1s" end="2s">x</p></div></body></tt>`,
	`<tt frameRate="-1" tickRate="-5"><body><div><p begin="10f" end="20t">x</p></div></body></tt>`,
	`<tt><head><styling><style id="a" style="a"/></styling></head><body><div><p begin="1s" end="2s" style="a">x</p></div></body></tt>`,
	`<tt><head><styling><style id="a" style="b"/><style id="b" style="a"/></styling></head><body><div><p begin="1s" end="2s" style="a"><span style="b">x</span></p></div></body></tt>`,
	`<tt><head><styling><style id="a" style="b"/><style id="b" style="a"/></styling><layout><region id="r" style="a"/><region id="q" style="b" tts:origin="1% 2%"/></layout></head><body><div><p begin="1s" end="2s" region="r" style="b"><span region="q">x</span></p></div></body></tt>`,
	`<tt><head><styling><style id="a" style="a"/><style id="c" style="a" tts:extent="1% 2%"/></styling><layout><region id="r" style="a"/><region id="q" style="c"/></layout></head><body><div region="q"><p begin="1s" end="2s" region="r">x</p></div></body></tt>`,
	`<tt><head><styling><style id="a" style="b"/><style id="b" style="c"/><style id="c" style="b"/></styling><layout><region id="r" style="a"/></layout></head><body region="r"><div><p begin="1s" end="2s">x</p></div></body></tt>`,
	`<tt ttp:frameRate="30" ttp:frameRateMultiplier="1000"><body><div><p begin="00:00:01:15" end="00:00:02:10">x</p></div></body></tt>`,
	`<tt ttp:frameRate="30" ttp:frameRateMultiplier=" "><body><div><p begin="00:00:01:15" end="20f">x</p></div></body></tt>`,
	`<tt ttp:frameRate="25" ttp:frameRateMultiplier="0 0" ttp:subFrameRate="0" ttp:tickRate="0" ttp:timeBase="smpte" ttp:dropMode="dropNTSC"><body><div><p begin="00:00:01:15.5" end="10t">x</p></div></body></tt>`,
	`<tt ttp:frameRate="24" ttp:frameRateMultiplier="1000 1001 7" ttp:clockMode="utc" ttp:markerMode="discontinuous" ttp:pixelAspectRatio="1" ttp:cellResolution="0 0" xml:space="preserve"><body timeContainer="seq"><div><p begin="00:00:01:23" end="00:00:02:00" dur="x">x</p></div></body></tt>`,
	`<tt><head><layout><region id="r" style="nope"/></layout></head><body><div><p begin="1s" end="2s">x</p></div></body></tt>`,
	`<tt><body><div><p begin="1s" end="2s"><span><span>nested</span><br/></span><br/><br/></p></div></body></tt>`,
	`<tt><body><div><p begin="1s" end="2s"><p begin="1s">nested p</p></p></div></body></tt>`,
	`<tt><body><div><p begin="1s" end="2s">&lt;span&gt;<![CDATA[<br/>]]></p></div></body></tt>`,
	`<tt><body><div><p begin="1s" end="2s" zIndex="x">x</p></div></body></tt>`,
	`<tt><body><div><p begin="00:00:00:00:00" end="::">x</p></div></body></tt>`,
	`<tt><body><div><p begin="1.5.5s" end="-1s">x</p></div></body></tt>`,
	`<tt/>`, `<tt></tt>`, `<ttt/>`, ``, `<`, `<?xml version="1.0"?>`, `<tt><body><div><p begin="1s" end="2s">unterminated`,
}

// hostileSTL mutates GSI / TTI fields of a valid file.
func hostileSTL(t *rapid.T, doc []byte) []byte {
	doc = append([]byte(nil), doc...)
	if len(doc) < 1024 {
		return doc
	}
	set := func(off int, s string) { copy(doc[off:], s) }
	n := rapid.IntRange(1, 3).Draw(t, "nmut")
	for i := 0; i < n; i++ {
		switch rapid.IntRange(0, 12).Draw(t, "sop") {
		case 12:
			// one header byte of a TTI block (group, subtitle number, extension block number, cumulative status, vertical
			// position, justification, comment flag) set to every kind of value, first block included
			if len(doc) >= 1024+128 {
				k := 1024 + 128*rapid.SampledFrom([]int{0, 0, rapid.IntRange(0, (len(doc)-1024)/128-1).Draw(t, "hblk")}).Draw(t, "hblkpick")
				off := rapid.SampledFrom([]int{0, 1, 2, 3, 4, 4, 4, 13, 14, 15}).Draw(t, "hoff")
				doc[k+off] = rapid.SampledFrom([]byte{0, 1, 2, 3, 4, 0x7f, 0x80, 0xef, 0xf0, 0xfe, 0xff}).Draw(t, "hval")
			}
		case 0:
			set(3, rapid.SampledFrom([]string{"STL24.01", "        ", "STL25.02", "stl25.01", "STL00.01", "\x00\x00\x00\x00\x00\x00\x00\x00"}).Draw(t, "dfc"))
		case 1:
			set(12, rapid.SampledFrom([]string{"01", "02", "03", "04", "  ", "99", "\x00\x00"}).Draw(t, "cct"))
		case 2:
			set(256, rapid.SampledFrom([]string{"1       ", "12      ", "123     ", "1234567 ", "abcdefgh", "   1    ", "99999999", "0000000 ", "      00"}).Draw(t, "tcp"))
		case 3:
			set(264, rapid.SampledFrom([]string{"1       ", "1234    ", "xxxxxxxx", "       1"}).Draw(t, "tcf"))
		case 4:
			set(224, rapid.SampledFrom([]string{"999999", "ab    ", "1     ", "000000", "130231"}).Draw(t, "cd"))
		case 5:
			set(230, rapid.SampledFrom([]string{"999999", "ab    ", "1     "}).Draw(t, "rd"))
		case 6:
			set(236, rapid.SampledFrom([]string{"xx", " 1", "-1"}).Draw(t, "rn"))
		case 7:
			set(238, rapid.SampledFrom([]string{"xxxxx", "    1", "99999", "   -1", "-9999"}).Draw(t, "tnb"))
			set(243, rapid.SampledFrom([]string{"xxxxx", "    1", "99999", "   -1", "-9999", "     "}).Draw(t, "tns"))
			set(248, rapid.SampledFrom([]string{"xxx", " -1", "999", "   "}).Draw(t, "tng"))
		case 8:
			set(251, rapid.SampledFrom([]string{"xx", "-1", "  "}).Draw(t, "mnc"))
			set(253, rapid.SampledFrom([]string{"xx", "00", "  "}).Draw(t, "mnr"))
		case 9:
			set(11, rapid.SampledFrom([]string{" ", "3", "x", "\x00"}).Draw(t, "dsc"))
		case 10:
			set(272, rapid.SampledFrom([]string{"x ", " y", "zz"}).Draw(t, "tnd"))
		case 11:
			if len(doc) > 1024+128 {
				k := 1024 + 128*rapid.IntRange(0, (len(doc)-1024)/128-1).Draw(t, "blk")
				for j := 0; j < 6; j++ {
					doc[k+rapid.IntRange(0, 127).Draw(t, "off")] = rapid.Byte().Draw(t, "val")
				}
			}
		}
	}
	switch rapid.IntRange(0, 5).Draw(t, "size") {
	case 0:
		doc = doc[:rapid.IntRange(0, len(doc)).Draw(t, "trunc")]
	case 1:
		doc = append(doc, make([]byte, rapid.IntRange(1, 127).Draw(t, "extra"))...)
	}
	return doc
}

// hostileTS builds a stream whose packet / table layer is valid while PES payloads, data units and teletext packets are malformed.
func hostileTS(t *rapid.T) ([]byte, readOpts) {
	s := genTTXStream(t)
	s.SecondTTXPID, s.HexDistractor = false, false
	base, _ := s.render()
	m := newTSMux()
	noTables := rapid.IntRange(0, 5).Draw(t, "tables")
	switch noTables {
	case 0: // no PAT/PMT at all
	case 1: // PAT only
		m.packets(0, psiSection(0, 1, []byte{0, 1, 0xe0 | byte(pmtPID>>8), byte(pmtPID & 0xff)}))
	case 2: // PMT without any teletext stream
		m.packets(0, psiSection(0, 1, []byte{0, 1, 0xe0 | byte(pmtPID>>8), byte(pmtPID & 0xff)}))
		m.packets(pmtPID, psiSection(2, 1, pmtBody(videoPID, []esEntry{{0x02, videoPID, false, 0}})))
	default:
		m.packets(0, psiSection(0, 1, []byte{0, 1, 0xe0 | byte(pmtPID>>8), byte(pmtPID & 0xff)}))
		m.packets(pmtPID, psiSection(2, 1, pmtBody(ttxPID, []esEntry{{0x06, ttxPID, true, rapid.IntRange(0, 4).Draw(t, "desckind")}})))
	}
	sel := ttxHeader{Mag: s.Mag, Tens: s.Tens, Units: s.Units, Subtitle: true, Erase: true, Serial: s.Serial}
	n := rapid.IntRange(1, 6).Draw(t, "npes")
	pts := int64(90000)
	for i := 0; i < n; i++ {
		var payload []byte
		switch rapid.IntRange(0, 11).Draw(t, "kind") {
		case 0: // enhancement packets of the selected magazine right after its header
			payload = append([]byte{0x10}, headerUnit(sel, 0x03)...)
			payload = append(payload, enhancementUnit(s.Mag, uint8(rapid.SampledFrom([]int{26, 27, 28, 29, 30, 31}).Draw(t, "y")), uint8(rapid.IntRange(0, 15).Draw(t, "dc")))...)
			payload = append(payload, rowUnit(s.Mag, 20, []byte{0x0b, 0x0b, 'o', 'k', 0x0a, 0x0a}, nil, 0x03)...)
		case 1: // M/29 before any header
			payload = append([]byte{0x10}, enhancementUnit(s.Mag, 29, uint8(rapid.SampledFrom([]int{0, 4, 1}).Draw(t, "dc")))...)
		case 2: // PES payload holding only the data identifier and half a unit header
			payload = rapid.SampledFrom([][]byte{{0x10}, {0x10, 0x03}, {0x10, 0x03, 0x2c}, {}, {0x10, 0x03, 0x00}, {0x10, 0x03, 0x01, 0xe4}, {0x10, 0x03, 0x02, 0x00, 0xe4}, {0x10, 0x03, 0x03, 0x00, 0xe4, 0x00}}).Draw(t, "tiny")
		case 3: // data unit with a wrong length byte
			u := headerUnit(sel, 0x03)
			u[1] = byte(rapid.SampledFrom([]int{0, 1, 2, 3, 4, 5, 10, 43, 45, 255}).Draw(t, "len"))
			payload = append([]byte{0x10}, u...)
		case 4: // row before any header, rows 0..31
			payload = append([]byte{0x10}, rowUnit(s.Mag, uint8(rapid.IntRange(0, 31).Draw(t, "y")), []byte{0x0b, 0x0b, 'x'}, nil, 0x03)...)
		case 5: // unknown data identifier
			payload = append([]byte{byte(rapid.SampledFrom([]int{0x00, 0x0f, 0x20, 0xff}).Draw(t, "did"))}, headerUnit(sel, 0x03)...)
		case 6: // random bytes after a valid header
			payload = append([]byte{0x10}, headerUnit(sel, 0x03)...)
			payload = append(payload, rapid.SliceOfN(rapid.Byte(), 0, 100).Draw(t, "junk")...)
		case 7: // bit flips inside valid units
			payload = append([]byte{0x10}, headerUnit(sel, 0x03)...)
			payload = append(payload, rowUnit(s.Mag, 10, []byte{0x0b, 0x0b, 'a', 'b', 0x0a, 0x0a}, nil, 0x03)...)
			for j := 0; j < 4; j++ {
				payload[rapid.IntRange(1, len(payload)-1).Draw(t, "flipat")] ^= byte(1 << rapid.IntRange(0, 7).Draw(t, "flipbit"))
			}
		case 8: // header only, all national option codes incl. the reserved one
			h := sel
			h.C12, h.C13, h.C14 = 1, 1, 1
			payload = append([]byte{0x10}, headerUnit(h, 0x03)...)
			payload = append(payload, rowUnit(s.Mag, 5, []byte{0x0b, 0x0b, '#', '$', '@', '[', 0x7f, 0x0a}, nil, 0x03)...)
		case 9: // the same row twice and rows in descending order
			payload = append([]byte{0x10}, headerUnit(sel, 0x03)...)
			for _, y := range []uint8{9, 9, 3, 25, 1} {
				payload = append(payload, rowUnit(s.Mag, y, []byte{0x0b, 'r', 0x0a}, nil, 0x03)...)
			}
		case 10: // a piece of a valid stream's PES
			if len(base) > 188*3 {
				off := 188 * rapid.IntRange(2, len(base)/188-1).Draw(t, "pkt")
				m.out.Write(base[off : off+188])
			}
			continue
		case 11: // non-PES payload on the teletext PID
			m.packets(ttxPID, rapid.SliceOfN(rapid.Byte(), 1, 300).Draw(t, "nonpes"))
			continue
		}
		streamID := byte(0xbd)
		if rapid.IntRange(0, 9).Draw(t, "sid") == 0 {
			streamID = 0xe0
		}
		pes := pesPacket(streamID, pts, payload)
		if rapid.IntRange(0, 9).Draw(t, "nopts") == 0 {
			// PES without PTS: header data length 0, flags 0
			pes = append([]byte{0, 0, 1, streamID, 0, 0, 0x80, 0x00, 0x00}, payload...)
			l := len(pes) - 6
			pes[4], pes[5] = byte(l>>8), byte(l)
		}
		m.packets(ttxPID, pes)
		pts += 9000
	}
	o := readOpts{}
	if rapid.Bool().Draw(t, "optpage") {
		o.Page = s.pageOption()
	}
	if rapid.IntRange(0, 5).Draw(t, "weirdopts") == 0 {
		o.Page = rapid.SampledFrom([]int{-1, -888, 1, 99, 900, 999999, 1 << 40}).Draw(t, "weirdpage")
		o.PID = rapid.SampledFrom([]int{0, -5, 8191, 65536 + ttxPID, 1 << 40}).Draw(t, "weirdpid")
		return m.out.Bytes(), o
	}
	if rapid.Bool().Draw(t, "optpid") || noTables < 3 && rapid.Bool().Draw(t, "forcepid") {
		o.PID = ttxPID
	}
	return m.out.Bytes(), o
}

var ttmlAttrValueRe = regexp.MustCompile(`="[^"]*"`)

func genHostileDoc(t *rapid.T, format string) ([]byte, readOpts) {
	o := readOpts{}
	switch format {
	case "srt", "vtt", "ssa":
		if format == "ssa" && rapid.IntRange(0, 11).Draw(t, "degeneratecell") == 0 {
			// a complete little script whose style line has every column the Format line names, one of them degenerate
			cell := rapid.SampledFrom([]string{"&H", "&", "&H&", "&h", "H", "-", "", "&HGG", "&H-1", "0x"}).Draw(t, "cell")
			col := rapid.SampledFrom([]string{"PrimaryColour", "SecondaryColour", "OutlineColour", "BackColour", "TertiaryColour", "Bold", "Fontsize", "Alignment", "Angle"}).Draw(t, "cellcol")
			return []byte("[Script Info]\nTitle: t\n\n[V4 Styles]\nFormat: Name, " + col + "\nStyle: a," + cell + "\n\n[Events]\nFormat: Start, End, Style, Text\nDialogue: 0:00:01.00,0:00:02.00,a,x\n"), o
		}
		doc := docGen(format).Draw(t, "doc")
		if rapid.IntRange(0, 3).Draw(t, "bytes") == 0 {
			return mutateBytes(t, doc), o
		}
		return mutateLines(t, format, doc, docGen(format).Draw(t, "other")), o
	case "ttml":
		switch rapid.IntRange(0, 4).Draw(t, "kind") {
		case 0:
			return []byte(rapid.SampledFrom(hostileTTML).Draw(t, "hostile")), o
		case 4:
			// any attribute of a valid document gets a degenerate value (empty, blank, one token too few or too many, junk)
			doc := docGen(format).Draw(t, "doc")
			locs := ttmlAttrValueRe.FindAllIndex(doc, -1)
			if len(locs) == 0 {
				return doc, o
			}
			var out []byte
			last := 0
			for _, l := range locs {
				if rapid.IntRange(0, 3).Draw(t, "degenerate") != 0 {
					continue
				}
				v := rapid.SampledFrom([]string{"", " ", "  ", "x", "1", "1 2 3", "-1", "%", "px", "1px", "auto", "#", "#12", "rgba(", "00:00", ":", "1.5.5s", "99999999999999999999s", "1f", "1t", "&amp;", "\u00a0"}).Draw(t, "value")
				out = append(out, doc[last:l[0]+2]...)
				out = append(out, v...)
				last = l[1] - 1
			}
			out = append(out, doc[last:]...)
			return out, o
		case 1:
			// drop or corrupt an attribute of a valid document
			doc := string(docGen(format).Draw(t, "doc"))
			for _, a := range []string{` begin="`, ` end="`, ` style="`, ` region="`, `xml:id="`, ` id="`} {
				if rapid.IntRange(0, 3).Draw(t, "drop"+a) == 0 {
					// renamed to an attribute the reader ignores, to one TTML defines but the reader does not know yet, emptied, broken
					doc = strings.Replace(doc, a, rapid.SampledFrom([]string{` x="`, ` dur="`, ` timeContainer="`, ` ttm:role="`, a + `"`, a + `&`, ` `}).Draw(t, "repl"+a), rapid.IntRange(1, 2).Draw(t, "cnt"+a))
				}
			}
			if rapid.IntRange(0, 3).Draw(t, "adddur") == 0 {
				doc = strings.Replace(doc, `<p `, rapid.SampledFrom([]string{`<p dur="2s" `, `<p dur="" `, `<p dur="x" `, `<p timeContainer="seq" `}).Draw(t, "durattr"), 1)
			}
			return []byte(doc), o
		default:
			return mutateBytes(t, docGen(format).Draw(t, "doc")), o
		}
	case "stl":
		o.IgnoreTCP = rapid.Bool().Draw(t, "ignoretcp")
		doc := docGen(format).Draw(t, "doc")
		if rapid.IntRange(0, 3).Draw(t, "bytes") == 0 {
			return mutateBytes(t, doc), o
		}
		return hostileSTL(t, doc), o
	default:
		if rapid.IntRange(0, 3).Draw(t, "bytes") == 0 {
			b, _ := genTTXStream(t).render()
			// keep the first two packets (tables) intact
			if len(b) > 376 {
				return append(append([]byte(nil), b[:376]...), mutateBytes(t, b[376:])...), o
			}
			return b, o
		}
		return hostileTS(t)
	}
}

func TestC08(t *testing.T) {
	runWitnesses(t, "C08")
	for _, format := range allFormats {
		format := format
		rapidCheck(t, "C08/read-"+format, tier(2500, 250000), func(rt *rapid.T) {
			doc, o := genHostileDoc(rt, format)
			if format == "ssa" {
				o.SSAEntry = rapid.SampledFrom([]int{0, 1, 1, 2}).Draw(rt, "ssaentry")
			}
			c := c08Case{Format: format, Doc: doc, Opts: o}
			if rapid.IntRange(0, 9).Draw(rt, "viaopen") == 0 {
				c.Format, c.Ext = "open", rapid.SampledFrom([]string{format, strings.ToUpper(format)}).Draw(rt, "ext")
				if format == "ssa" && rapid.Bool().Draw(rt, "ass") {
					c.Ext = "ass"
				}
			}
			ev.Case(len(doc) > 0, string(doc)+c.Format, "read", "format-"+format)
			if len(doc) < 300 {
				ev.Sample("read-"+format, map[string]any{"format": c.Format, "document": string(doc), "opts": o})
			}
			verdict(rt, "C08", "c08", c, checkC08)
		})
	}
	rapidCheck(t, "C08/open-other-extension", tier(1500, 100000), func(rt *rapid.T) {
		// the opener given a name whose extension tells nothing, whatever the file holds: a valid document of any format,
		// its first bytes only, a mutated one
		format := rapid.SampledFrom(allFormats).Draw(rt, "format")
		doc, o := genHostileDoc(rt, format)
		switch rapid.IntRange(0, 3).Draw(rt, "content") {
		case 0:
			doc = docGen(format).Draw(rt, "valid")
		case 1:
			doc = docGen(format).Draw(rt, "valid")
			doc = doc[:rapid.IntRange(0, min(len(doc), 24)).Draw(rt, "keep")]
		case 2:
			doc = doc[:rapid.IntRange(0, min(len(doc), 1100)).Draw(rt, "keep")]
		}
		c := c08Case{Format: "open", Doc: doc, Opts: o, Ext: rapid.SampledFrom([]string{"txt", "sub", "xml", "", "json", "srt.bak", "vtt~", "stl2", "t s", "TXT"}).Draw(rt, "ext")}
		ev.Case(true, string(doc)+c.Ext, "open", "extension-of-no-format")
		if len(doc) < 12 {
			ev.Label("file-shorter-than-12-bytes")
		}
		verdict(rt, "C08", "c08", c, checkC08)
	})
	rapidCheck(t, "C08/write", tier(6000, 600000), func(rt *rapid.T) {
		g := genGL(rt, true)
		c := c08Case{Writer: rapid.SampledFrom(writerFormats).Draw(rt, "writer"), Spec: &g}
		if c.Writer == "ttml" && rapid.Bool().Draw(rt, "hasindent") {
			ind := rapid.SampledFrom([]string{"", "\t", "  ", "x"}).Draw(rt, "indent")
			c.Indent = &ind
		}
		if g.hasParentCycle() {
			ev.Label("cyclic-style-inheritance")
		}
		nilParts := g.Meta.Nil || g.NilStyles || g.NilRegions
		for _, st := range g.Styles {
			nilParts = nilParts || st.NilInline || st.Detached
		}
		for _, rg := range g.Regions {
			nilParts = nilParts || rg.NilInline || rg.Detached
		}
		for _, cu := range g.Cues {
			nilParts = nilParts || cu.NilInline
		}
		ev.Case(nilParts, fmt.Sprintf("%v%v", c.Writer, g), "write", "writer-"+c.Writer)
		if nilParts && len(g.Cues) <= 1 {
			ev.Sample("write-"+c.Writer, c)
		}
		verdict(rt, "C08", "c08", c, checkC08)
	})
}

// Native fuzz targets (thorough tier: driven by verifctl with a wall-clock bound).
func fuzzReader(f *testing.F, format string) {
	for _, g := range goldenDocs(format) {
		if len(g) < 20000 {
			f.Add(g)
		}
	}
	gen := docGen(format)
	for i := 0; i < 12; i++ {
		f.Add(gen.Example(i + 1))
	}
	for _, h := range hostileLines[format] {
		f.Add([]byte(h))
	}
	if format == "ttml" {
		for _, h := range hostileTTML {
			f.Add([]byte(h))
		}
	}
	f.Fuzz(func(t *testing.T, doc []byte) {
		c := c08Case{Format: format, Doc: doc}
		if msg := checkC08(c); msg != "" {
			writeReplay("C08", "c08", c, msg)
			t.Fatalf("C08 violated: %s", msg)
		}
	})
}

func FuzzSRT(f *testing.F)  { fuzzReader(f, "srt") }
func FuzzVTT(f *testing.F)  { fuzzReader(f, "vtt") }
func FuzzSSA(f *testing.F)  { fuzzReader(f, "ssa") }
func FuzzTTML(f *testing.F) { fuzzReader(f, "ttml") }
func FuzzSTL(f *testing.F)  { fuzzReader(f, "stl") }
func FuzzTS(f *testing.F)   { fuzzReader(f, "ts") }

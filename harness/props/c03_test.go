package props

import (
	"bytes"
	"fmt"
	"testing"

	astisub "github.com/asticode/go-astisub"
	"pgregory.net/rapid"
)

// C03 - TTML codec fidelity.

type c03ReadCase struct {
	Doc  ttmlDoc       `json:"doc"`
	Rend ttmlRendering `json:"rendering"`
}

type c03WriteCase struct {
	// Foreign: the list carries metadata of other formats; the file-level helper is exercised as well
	Foreign bool    `json:"foreign,omitempty"`
	Doc     ttmlDoc `json:"doc"`
	Indent  string  `json:"indent"` // "default" = no option given
}

var ttmlForeignIDs = map[string]string{"s0": "1", "s1": "2nd", "a": "-a", "B": ".B", "_x": "3_x", "s10": "10", "r0": "0", "bottom": "-bottom", "top": ".top"}

func renameTTMLIDs(d *ttmlDoc) {
	ren := func(p *string) {
		if n, ok := ttmlForeignIDs[*p]; ok {
			*p = n
		}
	}
	for i := range d.Styles {
		ren(&d.Styles[i].ID)
		ren(&d.Styles[i].Ref)
	}
	for i := range d.Regions {
		ren(&d.Regions[i].ID)
		ren(&d.Regions[i].Ref)
	}
	for i := range d.Cues {
		ren(&d.Cues[i].Region)
		ren(&d.Cues[i].Style)
		for j := range d.Cues[i].Lines {
			for k := range d.Cues[i].Lines[j] {
				ren(&d.Cues[i].Lines[j][k].Style)
			}
		}
	}
}

func init() {
	register("c03read", checkC03Read)
	register("c03write", checkC03Write)
}

func checkC03Read(c c03ReadCase) string {
	b := renderTTML(c.Doc, c.Rend)
	s, err := astisub.ReadFromTTML(deliver(b))
	if err != nil {
		return fmt.Sprintf("reader rejected a well-formed document: %v\n--- document ---\n%s", err, clip(string(b), 1200))
	}
	got, msg := projTTML(s)
	if msg != "" {
		return msg
	}
	if got.FrameRate != c.Doc.FrameRate {
		return fmt.Sprintf("frame rate %d, expected %d", got.FrameRate, c.Doc.FrameRate)
	}
	if m := diffTTML(c.Doc, got, "reader"); m != "" {
		return fmt.Sprintf("%s\n--- document (%d bytes) ---\n%s", m, len(b), clip(string(b), 1200))
	}
	return rereadStable("ttml", b, readOpts{}, s)
}

func checkC03Write(c c03WriteCase) string {
	s := toSubtitlesTTML(c.Doc)
	if c.Foreign {
		addForeignMetadata("ttml", s)
		addForeignAttributes("ttml", s)
		priorFailedWrite("ttml", 5+len(s.Items)*37, len(s.Items)%3)
	}
	var buf bytes.Buffer
	var err error
	if c.Indent == "default" {
		err = s.WriteToTTML(&buf)
	} else {
		err = s.WriteToTTML(&buf, astisub.WriteToTTMLWithIndentOption(c.Indent))
	}
	if len(c.Doc.Cues) == 0 {
		if err != astisub.ErrNoSubtitlesToWrite {
			return fmt.Sprintf("writing an empty list returned %v, expected ErrNoSubtitlesToWrite", err)
		}
		return ""
	}
	if err != nil {
		return fmt.Sprintf("writer failed: %v", err)
	}
	out := buf.Bytes()
	// the writer maps only the five languages; anything else is not written
	want := c.Doc
	if len(want.Lang) >= 2 && ttmlLangs[want.Lang[:2]] == "" {
		want.Lang = ""
	}
	s2, err := astisub.ReadFromTTML(bytes.NewReader(out))
	if err != nil {
		return fmt.Sprintf("library reader rejects the writer's output: %v\n--- output ---\n%s", err, clip(string(out), 1200))
	}
	got, msg := projTTML(s2)
	if msg != "" {
		return msg
	}
	if m := diffTTML(want, got, "re-read by the library"); m != "" {
		return fmt.Sprintf("%s\n--- output ---\n%s", m, clip(string(out), 1200))
	}
	ind, err := decodeTTMLIndep(out)
	if err != nil {
		return fmt.Sprintf("independent decoder rejects the writer's output: %v\n--- output ---\n%s", err, clip(string(out), 1200))
	}
	if m := diffTTML(want, ind, "independent decoder"); m != "" {
		return fmt.Sprintf("%s\n--- output ---\n%s", m, clip(string(out), 1200))
	}
	if c.Foreign {
		if m := fileWriteAgrees("ttml", s); m != "" {
			return m
		}
	}
	return ""
}

func c03Labels(d ttmlDoc, r *ttmlRendering) (bool, []string) {
	var ls []string
	add := func(c bool, l string) {
		if c {
			ls = append(ls, l)
		}
	}
	forms := map[string]bool{}
	var region, inline, multiline, contSpan, anon, emptyLine bool
	for _, c := range d.Cues {
		for _, tt := range []ttmlTime{c.Begin, c.End} {
			f := tt.Form
			if f == "offset" {
				f += "-" + tt.Metric
				if tt.Dec != "" {
					f += "-frac"
				}
			}
			forms[f] = true
		}
		region = region || c.Region != ""
		inline = inline || len(c.Attrs) > 0
		multiline = multiline || len(c.Lines) > 1
		for j, l := range c.Lines {
			for _, run := range l {
				inline = inline || len(run.Attrs) > 0
				anon = anon || !run.Span
			}
			emptyLine = emptyLine || len(l) == 0
			if j > 0 && len(l) > 0 && len(c.Lines[j-1]) > 0 && sameSpan(c.Lines[j-1][len(c.Lines[j-1])-1], l[0]) {
				contSpan = true
			}
		}
	}
	for f := range forms {
		if f != "clockfrac" {
			add(true, "time-"+f)
		}
	}
	parents := map[string]int{}
	for _, st := range d.Styles {
		if st.Ref != "" {
			parents[st.Ref]++
		}
	}
	shared := false
	for _, n := range parents {
		if n > 1 {
			shared = true
		}
	}
	add(shared, "shared-parent-style")
	add(len(parents) > 0, "style-inheritance")
	add(region, "region-ref")
	add(inline, "inline-attrs")
	add(multiline, "multi-line")
	add(anon, "anonymous-text")
	if r != nil {
		add(contSpan && r.BrInSpan, "br-inside-span")
		add(emptyLine, "empty-line")
		add(r.Indent != "", "indented")
		add(r.StylePfx != "tts", "prefix-variation")
		add(r.EOL == "\r\n" && r.Indent != "", "crlf")
	}
	return len(d.Cues) > 0 && len(ls) > 0, ls
}

func TestC03(t *testing.T) {
	runWitnesses(t, "C03")
	cliConvertCases(t, "C03", "ttml")
	// Write direction only: a carriage return inside a run's text, next to markup characters or not (an XML-legal
	// character like any other: written as a character reference, it comes back as it went; the generated models keep
	// line terminators out of texts because a *document* cannot say them, a list can).
	sub(t, "carriage-return-in-text", func(t *testing.T) {
		if cfgShard != 0 {
			return
		}
		for i, txt := range []string{"a<b\rc", "x & y\rz", "plain\rtext", "tail\r", "<&>\r<&>", "two\r\rreturns"} {
			d := ttmlDoc{Cues: []ttmlCue{{Begin: msClock(1000), End: msClock(2000), Lines: [][]ttmlRun{{{Text: txt, Span: true}}}},
				{Begin: msClock(3000), End: msClock(4000), Lines: [][]ttmlRun{{{Text: "before", Span: true}}, {{Text: txt, Span: true}, {Text: "after", Span: true}}}}}}
			for _, indent := range []string{"default", "", "\t"} {
				ev.CaseH(true, mix(strHash("cr"+indent), uint64(i)), "write", "carriage-return-inside-a-run")
				verdict(t, "C03", "c03write", c03WriteCase{Doc: d, Indent: indent}, checkC03Write)
			}
		}
	})
	// Exhaustive over the time-expression syntaxes: every frame number below the rate for 5 rates x an h:m:s pool,
	// every 1-3 digit fraction (1110 values) in clock time and in the h/m/s/ms offset forms.
	sub(t, "timeforms", func(t *testing.T) {
		if cfgShard != 0 {
			return
		}
		type hms struct{ h, m, s int64 }
		pool := []hms{{0, 0, 0}, {0, 0, 59}, {0, 59, 59}, {1, 0, 0}, {9, 59, 59}, {23, 59, 59}, {99, 59, 59}}
		var fracs []string
		for nd := 1; nd <= 3; nd++ {
			max := map[int]int{1: 10, 2: 100, 3: 1000}[nd]
			for v := 0; v < max; v++ {
				fracs = append(fracs, fmt.Sprintf("%0*d", nd, v))
			}
		}
		n := 0
		run := func(rate int64, exprs []ttmlTime) {
			for len(exprs) > 0 {
				k := 200
				if k > len(exprs) {
					k = len(exprs)
				}
				d := ttmlDoc{FrameRate: rate, TickRate: 90000}
				for _, e := range exprs[:k] {
					d.Cues = append(d.Cues, ttmlCue{Begin: e, End: ttmlTime{Form: "clock"}, Lines: [][]ttmlRun{{{Text: "x", Span: true}}}})
				}
				exprs = exprs[k:]
				c := c03ReadCase{Doc: d, Rend: ttmlRendering{StylePfx: "tts", EOL: "\n"}}
				n += k
				ev.CaseH(true, strHash(fmt.Sprint(rate, d.Cues[0].Begin, k)), "timeforms")
				verdict(t, "C03", "c03read", c, checkC03Read)
			}
		}
		for _, rate := range []int64{24, 25, 30, 50, 60} {
			var ex []ttmlTime
			for _, p := range pool {
				for f := int64(0); f < rate; f++ {
					ex = append(ex, ttmlTime{Form: "clockframes", H: p.h, M: p.m, S: p.s, Frames: f})
				}
			}
			for f := int64(0); f < 3*rate; f++ {
				ex = append(ex, ttmlTime{Form: "offset", Int: fmt.Sprint(f * 7), Metric: "f"})
			}
			run(rate, ex)
		}
		var ex []ttmlTime
		for _, fr := range fracs {
			ex = append(ex, ttmlTime{Form: "clockfrac", H: 1, M: 2, S: 3, Frac: fr})
			for _, metric := range []string{"h", "m", "s", "ms"} {
				ex = append(ex, ttmlTime{Form: "offset", Int: "7", Dec: fr, Metric: metric})
			}
		}
		// offsets with more than three fraction digits (the grammar sets no limit)
		for _, dec := range []string{"0001", "0004", "0005", "00049", "9999", "5000", "12345", "123456", "999999", "0000001", "1234567", "123456789", "000000001"} {
			for _, metric := range []string{"h", "m", "s", "ms"} {
				for _, in := range []string{"0", "1", "7", "59"} {
					ex = append(ex, ttmlTime{Form: "offset", Int: in, Dec: dec, Metric: metric})
				}
			}
		}
		for _, p := range pool {
			ex = append(ex, ttmlTime{Form: "clock", H: p.h, M: p.m, S: p.s})
		}
		run(0, ex)
		ev.Note("exhaustive-timeforms", fmt.Sprintf("%d time expressions: every frame number below the rate (24,25,30,50,60) x 7 h:m:s values, Nf offsets, every 1-3 digit fraction in clock time and in h/m/s/ms offsets, 13 fractions of 4-9 digits in h/m/s/ms offsets, clock times without fraction", n))
	})

	rapidCheck(t, "C03/read", tier(2500, 1500000), func(rt *rapid.T) {
		c := c03ReadCase{Doc: genTTMLDoc(rt, false), Rend: genTTMLRendering(rt)}
		addEmptyLines(rt, &c.Doc)
		b := renderTTML(c.Doc, c.Rend)
		nt, ls := c03Labels(c.Doc, &c.Rend)
		ev.Case(nt, string(b), append(ls, "read")...)
		if nt && len(c.Doc.Cues) <= 2 {
			ev.Sample("read", map[string]any{"document": string(b)})
		}
		verdict(rt, "C03", "c03read", c, checkC03Read)
	})
	rapidCheck(t, "C03/write", tier(1500, 900000), func(rt *rapid.T) {
		c := c03WriteCase{Doc: genTTMLDoc(rt, true), Indent: rapid.SampledFrom([]string{"default", "", "\t", "  "}).Draw(rt, "indentopt"), Foreign: rapid.IntRange(0, 2).Draw(rt, "foreign") == 0}
		addEmptyLines(rt, &c.Doc)
		nt, ls := c03Labels(c.Doc, nil)
		if rapid.IntRange(0, 3).Draw(rt, "foreignids") == 0 {
			// identifiers as other formats have them (a leading digit, '-' or '.'): not what xml:id should hold, yet
			// the list's own identifiers, and every reference has to keep naming its definition
			renameTTMLIDs(&c.Doc)
			ls = append(ls, "ids-not-ncnames")
		}
		ev.Case(nt, fmt.Sprintf("w%v", c), append(ls, "write")...)
		if nt && len(c.Doc.Cues) <= 2 {
			ev.Sample("write", c.Doc)
		}
		verdict(rt, "C03", "c03write", c, checkC03Write)
	})
}

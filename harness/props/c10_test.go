package props

import (
	"fmt"
	"sort"
	"strings"
	"testing"
	"time"

	astisub "github.com/asticode/go-astisub"
	"pgregory.net/rapid"
)

// C10 - Fragment: executable specification (per-cue cutting)
//
//   for each original cue [s,e): cut points = multiples m of f with s < m < e;
//   pieces [s,m1),[m1,m2),...,[mk,e), each with the original's content;
//   the result is ordered by start; a cue without an interior multiple is the
//   same *Item, untouched.

type c10Case struct {
	Cues []cueSpec `json:"cues"` // start-ordered
	F    int64     `json:"f"`
	Cap  int       `json:"cap"` // spare capacity of the Items slice (the implementation inserts in place)
	// Again: after the first call the list is shifted by ShiftD and fragmented a second time with the same period
	// (Fragment must be a function of the list it is given, whatever happened to the value before)
	Again  bool  `json:"again,omitempty"`
	ShiftD int64 `json:"shift_d,omitempty"`
}

func init() { register("c10", checkC10) }

type piece struct {
	s, e int64
	orig int
}

func specFragment(cues []cueSpec, f int64) []piece {
	var out []piece
	for i, c := range cues {
		s := c.S
		if c.E > c.S {
			m := (c.S/f + 1) * f
			for ; m < c.E; m += f {
				out = append(out, piece{s, m, i})
				s = m
			}
		}
		out = append(out, piece{s, c.E, i})
	}
	return out
}

func checkC10(c c10Case) string {
	if c.F <= 0 {
		return ""
	}
	b := buildList(c.Cues)
	grown := make([]*astisub.Item, len(b.sub.Items), len(b.sub.Items)+c.Cap)
	copy(grown, b.sub.Items)
	b.sub.Items = grown
	b.sub.Fragment(time.Duration(c.F))
	if m := b.metaDiff(); m != "" {
		return m
	}
	if sampledForInterference(c.Cues) {
		if m := interference(b.sub); m != "" {
			return m
		}
	}
	if c.Again {
		// second round on the same value: shift (positive: nothing is clamped or removed), then fragment again
		b.sub.Add(time.Duration(c.ShiftD))
		var shifted []cueSpec
		for _, it := range b.sub.Items {
			shifted = append(shifted, cueSpec{S: int64(it.StartAt), E: int64(it.EndAt), T: specText(it)})
		}
		b2 := &builtList{sub: b.sub, items: append([]*astisub.Item(nil), b.sub.Items...)}
		for _, it := range b2.items {
			b2.snaps = append(b2.snaps, snapItem(it))
		}
		b.sub.Fragment(time.Duration(c.F))
		c = c10Case{Cues: shifted, F: c.F, Cap: c.Cap}
		b = b2
	}
	got := b.sub.Items
	ctx := func() string {
		return fmt.Sprintf("in: %s f=%d cap+%d out: %s", fmtSpecs(c.Cues), c.F, c.Cap, fmtItems(got))
	}
	// ordered by start
	for i := 1; i < len(got); i++ {
		if got[i-1].StartAt > got[i].StartAt {
			return "result not ordered by start; " + ctx()
		}
	}
	// no cue strictly contains a multiple of f
	for _, it := range got {
		s, e := int64(it.StartAt), int64(it.EndAt)
		if e > s {
			if m := (s/c.F + 1) * c.F; m < e {
				return fmt.Sprintf("cue [%d,%d) strictly contains the multiple %d of f; %s", s, e, m, ctx())
			}
		}
	}
	// multiset equality with the specification, content of each piece = its original's
	want := specFragment(c.Cues, c.F)
	type key struct {
		s, e int64
		t    string
	}
	wantN := map[key]int{}
	for _, p := range want {
		wantN[key{p.s, p.e, c.Cues[p.orig].T}]++
	}
	gotN := map[key]int{}
	for _, it := range got {
		gotN[key{int64(it.StartAt), int64(it.EndAt), specText(it)}]++
	}
	if len(got) != len(want) {
		return fmt.Sprintf("%d cues after Fragment, specification says %d; %s", len(got), len(want), ctx())
	}
	for k, n := range wantN {
		if gotN[k] != n {
			return fmt.Sprintf("piece [%d,%d)%q: got %d, specification says %d; %s", k.s, k.e, k.t, gotN[k], n, ctx())
		}
	}
	// content (style, region, inline attributes, comments, index, lines) of every piece equals an original with the same text
	// that covers it; uncut cues keep identity.
	cutCount := map[int]int{}
	for _, p := range want {
		cutCount[p.orig]++
	}
	present := map[*astisub.Item]bool{}
	for _, it := range got {
		present[it] = true
	}
	for i, orig := range b.items {
		if cutCount[i] == 1 {
			if !present[orig] {
				return fmt.Sprintf("cue #%d has no interior multiple of f but its *Item is not in the result; %s", i, ctx())
			}
			if int64(orig.StartAt) != c.Cues[i].S || int64(orig.EndAt) != c.Cues[i].E {
				return fmt.Sprintf("cue #%d has no interior multiple of f but was changed to [%d,%d); %s", i, int64(orig.StartAt), int64(orig.EndAt), ctx())
			}
			if m := contentDiff(orig, b.snaps[i]); m != "" {
				return fmt.Sprintf("uncut cue #%d: %s", i, m)
			}
		}
	}
	for _, it := range got {
		ok := false
		sn := snapItem(it)
		txt := specText(it)
		for i, cu := range c.Cues {
			if cu.S <= int64(it.StartAt) && int64(it.EndAt) <= cu.E && cu.T == txt && snapDiff(sn, b.snaps[i]) == "" {
				ok = true
				break
			}
		}
		if !ok {
			return fmt.Sprintf("piece [%d,%d) does not carry the content (text/style/region/...) of any original covering it; %s", int64(it.StartAt), int64(it.EndAt), ctx())
		}
	}
	return ""
}

// specText is itemText in the notation of the cue specifications: "~" for a cue without any line (see textLines).
func specText(it *astisub.Item) string {
	if len(it.Lines) == 0 {
		return "~"
	}
	var ls []string
	for _, l := range it.Lines {
		if len(l.Items) == 0 {
			ls = append(ls, "^") // a line without any run
		} else {
			ls = append(ls, l.String())
		}
	}
	return strings.Join(ls, "|")
}

func itemText(it *astisub.Item) string {
	s := ""
	for i, l := range it.Lines {
		if i > 0 {
			s += "|"
		}
		s += l.String()
	}
	return s
}

func c10NonTrivial(c c10Case) (bool, []string) {
	cut := false
	for _, cu := range c.Cues {
		if cu.E > cu.S && (cu.S/c.F+1)*c.F < cu.E {
			cut = true
		}
	}
	overlap, lastNotLongest := false, false
	var maxEnd int64 = -1
	for i, cu := range c.Cues {
		if i > 0 && cu.S < maxEnd {
			overlap = true
		}
		if cu.E > maxEnd {
			maxEnd = cu.E
		}
	}
	if n := len(c.Cues); n > 0 && c.Cues[n-1].E < maxEnd {
		lastNotLongest = true
	}
	var ls []string
	if cut {
		ls = append(ls, "cut")
	}
	if overlap {
		ls = append(ls, "overlap")
	}
	if lastNotLongest {
		ls = append(ls, "last-listed-not-last-ending")
	}
	if c.Cap > 0 {
		ls = append(ls, "spare-capacity")
	}
	return cut && (overlap || lastNotLongest), ls
}

// enumOrdered enumerates every start-ordered list of exactly n cues over the
// alphabet (cues sorted by start; equal starts in any order).
func enumOrdered(alpha []cueSpec, n int, visit func([]cueSpec)) {
	cur := make([]cueSpec, 0, n)
	var rec func(from int)
	rec = func(from int) {
		if len(cur) == n {
			visit(cur)
			return
		}
		for i := from; i < len(alpha); i++ {
			cur = append(cur, alpha[i])
			// next may start from the first alphabet element whose start equals alpha[i].S
			k := i
			for k > 0 && alpha[k-1].S == alpha[i].S {
				k--
			}
			rec(k)
			cur = cur[:len(cur)-1]
		}
	}
	rec(0)
}

func gridAlphabet(max int64, texts []string, unit int64) []cueSpec {
	var a []cueSpec
	for s := int64(0); s <= max; s++ {
		for e := s; e <= max; e++ {
			for _, t := range texts {
				a = append(a, cueSpec{S: s * unit, E: e * unit, T: t})
			}
		}
	}
	sort.SliceStable(a, func(i, j int) bool { return a[i].S < a[j].S })
	return a
}

func TestC10(t *testing.T) {
	runWitnesses(t, "C10")
	cliCases(t, "C10", "fragment")

	// Cues that hold no multiple of a tiny period although they lie hours from the origin: nothing to cut, whatever
	// the ratio of the list's duration to the period
	sub(t, "far-instants", func(t *testing.T) {
		if cfgShard != 0 {
			return
		}
		for _, f := range []int64{1, 2, 7} {
			c := c10Case{F: f, Cues: []cueSpec{{S: 12 * nsHour, E: 12 * nsHour, T: "a"}, {S: 12*nsHour + 1, E: 12*nsHour + 1, T: "b"}, {S: 99 * nsHour, E: 99*nsHour + f, T: "c"}}}
			ev.CaseH(true, mix(strHash("farinstant"), uint64(f)), "tiny-period-far-from-the-origin")
			verdict(t, "C10", "c10", c, checkC10)
		}
	})

	// One cue spanning tens of thousands of periods next to a short one (a station logo on screen for hours, cut for
	// streaming segments): around every power of two up to 2^17 pieces.
	sub(t, "long-cue", func(t *testing.T) {
		if cfgShard != 0 {
			return
		}
		for _, n := range []int64{4095, 4096, 32767, 32768, 65535, 65536, 65537, 72000, 131072} {
			c := c10Case{F: nsMs, Cues: []cueSpec{{S: 0, E: n * nsMs, T: "a"}, {S: nsMs + nsMs/2, E: 3 * nsMs, T: "b"}}}
			sortCues(c.Cues)
			ev.CaseH(true, mix(strHash("longcue"), uint64(n)), "one-cue-cut-into-tens-of-thousands-of-pieces")
			verdict(t, "C10", "c10", c, checkC10)
		}
	})

	grid := func(name string, maxN int, max int64) {
		sub(t, name, func(t *testing.T) {
			alpha := gridAlphabet(max, []string{"a", "b"}, nsMs)
			idx := 0
			for n := 0; n <= maxN; n++ {
				enumOrdered(alpha, n, func(cs []cueSpec) {
					for f := int64(1); f <= 5; f++ {
						for cp := 0; cp <= 1; cp++ {
							if idx%cfgShards == cfgShard {
								c := c10Case{Cues: cs, F: f * nsMs, Cap: cp * 3}
								nt, ls := c10NonTrivial(c)
								var key uint64
								if nt {
									key = strHash(fmt.Sprintf("%v", c))
								}
								ev.CaseH(nt, key, ls...)
								if nt && idx%1000 == 0 {
									c2 := c
									c2.Cues = append([]cueSpec(nil), cs...)
									ev.Sample(name, c2)
								}
								if msg := guarded(func() string { return checkC10(c) }); msg != "" {
									c.Cues = append([]cueSpec(nil), cs...)
									verdict(t, "C10", "c10", c, checkC10)
								}
							}
							idx++
						}
					}
				})
			}
			ev.Note("exhaustive-"+name, fmt.Sprintf("all %d (start-ordered list of <=%d cues on the 0..%d ms grid with two texts, f in 1..5 ms, slice capacity = len and len+3), over all shards", idx, maxN, max))
		})
	}
	grid("grid3", 3, 9)
	if thorough() {
		grid("grid4", 4, 6)
	}

	rapidCheck(t, "C10/random", tier(6000, 500000), func(rt *rapid.T) {
		maxT := rapid.SampledFrom([]int64{40 * nsMs, 5000 * nsMs, 3600 * 1000 * nsMs}).Draw(rt, "range")
		cues := genCues(rt, 0, 10, maxT, opTextsWide)
		sort.SliceStable(cues, func(i, j int) bool { return cues[i].S < cues[j].S })
		var maxEnd int64 = 1
		for _, cu := range cues {
			if cu.E > maxEnd {
				maxEnd = cu.E
			}
		}
		// bound the total number of pieces (about 3000), also for lists of hundreds of cues
		var total int64
		for _, cu := range cues {
			total += cu.E - cu.S
		}
		minF := maxEnd/5000 + 1
		if m := total/3000 + 1; m > minF {
			minF = m
		}
		if minF > maxEnd {
			minF = maxEnd
		}
		var f int64
		if rapid.Bool().Draw(rt, "fms") {
			f = rapid.Int64Range(minF/nsMs+1, maxEnd/nsMs+2).Draw(rt, "f") * nsMs
		} else {
			f = rapid.Int64Range(minF, maxEnd+2).Draw(rt, "f")
		}
		c := c10Case{Cues: cues, F: f, Cap: rapid.IntRange(0, 4).Draw(rt, "cap")}
		if rapid.IntRange(0, 3).Draw(rt, "again") == 0 {
			c.Again = true
			c.ShiftD = rapid.Int64Range(1, f).Draw(rt, "shift")
		}
		nt, ls := c10NonTrivial(c)
		if c.Again {
			ls = append(ls, "second-call-on-the-same-value")
		}
		ev.Case(nt, fmt.Sprintf("%v", c), append(ls, "random")...)
		if nt {
			ev.Sample("random", c)
		}
		verdict(rt, "C10", "c10", c, checkC10)
	})
}

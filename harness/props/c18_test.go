package props

import (
	"bytes"
	"errors"
	"fmt"
	"io"
	"os"
	"os/exec"
	"path/filepath"
	"strings"
	"testing"
	"time"

	astisub "github.com/asticode/go-astisub"
	"pgregory.net/rapid"
)

// C18 - I/O faults are reported, never swallowed.

var errInjected = errors.New("injected I/O fault")

// faultReader delivers data[0:k) and then fails with a non-EOF error (also after a rewind).
type faultReader struct {
	data  []byte
	k     int
	pos   int
	chunk int // maximum bytes per Read (0 = as much as asked)
	// together: the bytes just before the fault are delivered together with the error
	together bool
	// err: the error the stream fails with (errInjected when nil)
	err error
}

func (r *faultReader) fault() error {
	if r.err != nil {
		return r.err
	}
	return errInjected
}

// faultErrors: what a failing stream may report. Anything but io.EOF is a fault, also the errors that the io package
// itself uses for other purposes.
var faultErrors = []error{errInjected, io.ErrUnexpectedEOF, io.ErrClosedPipe, io.ErrNoProgress, fmt.Errorf("read tcp 10.0.0.1:80: connection lost: %w", io.EOF)}

func (r *faultReader) Read(p []byte) (int, error) {
	if r.pos >= r.k {
		return 0, r.fault()
	}
	n := len(p)
	if r.chunk > 0 && n > r.chunk {
		n = r.chunk
	}
	if n > r.k-r.pos {
		n = r.k - r.pos
	}
	copy(p, r.data[r.pos:r.pos+n])
	r.pos += n
	if r.together && r.pos >= r.k && n > 0 {
		// the last bytes before the fault arrive together with the error (and the error is repeated afterwards)
		return n, r.fault()
	}
	return n, nil
}

type faultReadSeeker struct{ *faultReader }

func (r faultReadSeeker) Seek(off int64, whence int) (int64, error) {
	if whence != io.SeekStart {
		return 0, fmt.Errorf("unsupported whence")
	}
	r.pos = int(off)
	return off, nil
}

// faultWriter accepts bytes up to offset k; the Write call crossing k fails, reporting the partial count.
type faultWriter struct {
	k    int // -1: never fails
	mode int // 0: partial count and error; 1: the failing call reports the whole slice as taken, and the error; 2: nothing taken, and the error
	dead bool
	// mode 3: one Write call fails (the one that would cross k), every later one succeeds
	failedOnce bool
	buf        bytes.Buffer
}

func (w *faultWriter) Write(p []byte) (int, error) {
	// modes 4 and 5: modes 0 and 2 with io.ErrShortWrite as the error (what io.MultiWriter or a bufio.Writer report when
	// what lies below them takes fewer bytes than it is given: a bounded buffer, a full device)
	mode, fault := w.mode, errInjected
	if mode == 4 || mode == 5 {
		mode, fault = (mode-4)*2, io.ErrShortWrite
	}
	if w.dead {
		return 0, fault
	}
	if w.k >= 0 && w.buf.Len()+len(p) > w.k && mode == 3 && !w.failedOnce {
		// a transient fault: this call fails (nothing taken), the following ones succeed
		w.failedOnce = true
		return 0, fault
	}
	if mode == 3 && w.failedOnce {
		return w.buf.Write(p)
	}
	if w.k >= 0 && w.buf.Len()+len(p) > w.k && mode != 0 {
		w.dead = true
		if mode == 1 {
			w.buf.Write(p)
			return len(p), fault
		}
		return 0, fault
	}
	if w.k >= 0 && w.buf.Len()+len(p) > w.k {
		n := w.k - w.buf.Len()
		if n < 0 {
			n = 0
		}
		w.buf.Write(p[:n])
		return n, fault
	}
	return w.buf.Write(p)
}

type c18Case struct {
	Format  string   `json:"format"` // reader under test, or source format for a writer case
	Doc     []byte   `json:"doc"`
	FaultAt int      `json:"fault_at"`
	Chunk   int      `json:"chunk,omitempty"`
	Opts    readOpts `json:"opts"`
	// Writer != "": the document is read without fault, then written to this format with the destination failing at FaultAt
	Writer string `json:"writer,omitempty"`
	// LongLine: no fault; the document holds a line longer than 64 KiB and Cues cues
	LongLine bool `json:"long_line,omitempty"`
	// TextBytes (with LongLine): how many 'x' the texts of the cues hold when the document is read completely
	TextBytes int `json:"text_bytes,omitempty"`
	Cues      int `json:"cues,omitempty"`
	// Mode: how the fault shows. Writers: 0 short count + error, 1 full count + error, 2 zero count + error, 3 one failing
	// call only, 4 and 5: 0 and 2 with io.ErrShortWrite as the error.
	// Readers: 0 error on the call after the last good byte, 1 error together with the last good bytes.
	Mode int `json:"mode,omitempty"`
	// Indent (writer "ttml"): "" = no option; "none", "tab", "two" = WriteToTTMLWithIndentOption("", "\t", "  ")
	Indent string `json:"indent,omitempty"`
	// Err (read faults): index into faultErrors of the error the stream fails with
	Err int `json:"err,omitempty"`
}

// c18Write writes with the options of the case.
func c18Write(c c18Case, s *astisub.Subtitles, w io.Writer) error {
	if c.Writer == "ttml" && c.Indent != "" {
		return s.WriteToTTML(w, astisub.WriteToTTMLWithIndentOption(map[string]string{"none": "", "tab": "\t", "two": "  "}[c.Indent]))
	}
	return writeFormat(c.Writer, s, w)
}

func init() { register("c18", checkC18) }

// ttmlRootEnd returns the offset just after the root element's end tag.
func ttmlRootEnd(doc []byte) int {
	i := bytes.LastIndex(doc, []byte("</tt>"))
	if i < 0 {
		return len(doc)
	}
	return i + len("</tt>")
}

func writeFormat(format string, s *astisub.Subtitles, w io.Writer) error {
	switch format {
	case "srt":
		return s.WriteToSRT(w)
	case "vtt":
		return s.WriteToWebVTT(w)
	case "ssa":
		return s.WriteToSSA(w)
	case "ttml":
		return s.WriteToTTML(w)
	case "stl":
		return s.WriteToSTL(w)
	}
	return fmt.Errorf("unknown format %s", format)
}

var writerFormats = []string{"srt", "vtt", "ssa", "ttml", "stl"}

func withFixedClock(f func()) {
	restore := astisub.Now
	astisub.Now = func() time.Time { return time.Date(2021, 3, 4, 0, 0, 0, 0, time.UTC) }
	defer func() { astisub.Now = restore }()
	f()
}

func checkC18(c c18Case) string {
	if c.LongLine {
		s, err := readFormat(c.Format, bytes.NewReader(c.Doc), c.Opts)
		if err == nil && len(s.Items) != c.Cues {
			return fmt.Sprintf("%s document with a %d-byte line: no error, but only %d of %d cues returned (silent truncation)", c.Format, longestLine(c.Doc), len(s.Items), c.Cues)
		}
		if err == nil && c.TextBytes > 0 {
			got := 0
			for _, it := range s.Items {
				got += strings.Count(it.String(), "x")
			}
			if got < c.TextBytes {
				return fmt.Sprintf("%s document with a %d-byte line: no error, all %d cues, but their text holds %d of the %d characters of that line (silent truncation)", c.Format, longestLine(c.Doc), len(s.Items), got, c.TextBytes)
			}
		}
		return ""
	}
	if c.Writer != "" {
		s, err := readFormat(c.Format, bytes.NewReader(c.Doc), c.Opts)
		if err != nil || len(s.Items) == 0 {
			return "" // not a writable list
		}
		if s.Metadata == nil {
			s.Metadata = &astisub.Metadata{}
		}
		var msg string
		withFixedClock(func() {
			clean := &faultWriter{k: -1}
			if err := c18Write(c, s, clean); err != nil {
				msg = fmt.Sprintf("%s writer failed without any fault: %v", c.Writer, err)
				return
			}
			fw := &faultWriter{k: c.FaultAt, mode: c.Mode}
			err := c18Write(c, s, fw)
			if c.FaultAt >= clean.buf.Len() {
				// no fault reached: complete document must have been handed over and nil returned
				if err != nil || !bytes.Equal(fw.buf.Bytes(), clean.buf.Bytes()) {
					msg = fmt.Sprintf("%s writer without reachable fault: err=%v, %d bytes handed over, clean output has %d", c.Writer, err, fw.buf.Len(), clean.buf.Len())
				}
				return
			}
			if err == nil {
				msg = fmt.Sprintf("%s writer returned nil although the destination failed at byte %d of %d (fault mode %d, %d bytes were accepted)", c.Writer, c.FaultAt, clean.buf.Len(), c.Mode, fw.buf.Len())
			}
		})
		return msg
	}
	fr := &faultReader{data: c.Doc, k: c.FaultAt, chunk: c.Chunk, together: c.Mode == 1, err: faultErrors[c.Err%len(faultErrors)]}
	var r io.Reader = fr
	if c.Format == "ts" {
		r = faultReadSeeker{fr}
	}
	s, err := readFormat(c.Format, r, c.Opts)
	if err == nil {
		n := -1
		if s != nil {
			n = len(s.Items)
		}
		return fmt.Sprintf("%s reader returned nil error (%d cues) although the stream failed with a non-EOF error (%v) at byte %d of %d", c.Format, n, fr.fault(), c.FaultAt, len(c.Doc))
	}
	return ""
}

func longestLine(b []byte) int {
	max := 0
	for _, l := range bytes.FieldsFunc(b, func(r rune) bool { return r == '\n' || r == '\r' }) {
		if len(l) > max {
			max = len(l)
		}
	}
	return max
}

func faultLimit(format string, doc []byte) int {
	if format == "ttml" {
		return ttmlRootEnd(doc) - 1
	}
	return len(doc)
}

func TestC18(t *testing.T) {
	runWitnesses(t, "C18")

	// Exhaustive: every read-fault offset of representative documents.
	sub(t, "read-offsets", func(t *testing.T) {
		nDocs := tier(3, 25)
		job, total := 0, 0
		for _, format := range allFormats {
			var docs [][]byte
			for _, g := range goldenDocs(format) {
				if len(g) <= 8000 {
					docs = append(docs, g)
				}
			}
			if !thorough() && len(docs) > 2 {
				docs = docs[:2]
			}
			gen := docGen(format)
			base := len(docs)
			for i := 0; len(docs) < base+nDocs && i < 400; i++ {
				d := gen.Example(i + 1)
				if len(d) > 0 && len(d) <= 4096 {
					// only documents the reader accepts: the property is about faults, not about invalid input
					if _, err := readFormat(format, bytes.NewReader(d), readOpts{}); err == nil {
						docs = append(docs, d)
					}
				}
			}
			if format == "ts" {
				// a stream with private-data packets of another PID between the teletext packets
				for i := 1; i < 100; i++ {
					st := rapid.Custom(genTTXStream).Example(2000 + i)
					if len(st.Instances) >= 2 {
						st.PrivateData, st.SecondTTXPID, st.OtherPIDFirst = true, false, false
						if b, _ := st.render(); len(b) <= 6000 {
							docs = append(docs, b)
							break
						}
					}
				}
			}
			if format == "stl" {
				// the GSI block counts are informative: a file announcing fewer TTI blocks than it holds is still read to its end
				for _, doc := range append([][]byte(nil), docs...) {
					if len(doc) >= 1024+128*3 {
						v := append([]byte(nil), doc...)
						copy(v[238:243], "00001")
						copy(v[243:248], "00001")
						docs = append(docs, v)
						break
					}
				}
			}
			// lines that begin with a control character some systems give a meaning (end-of-file marker, end of
			// transmission, form feed, NUL): bytes of a line like any other, and what follows them is still read
			if ctl := map[string]string{
				"srt": "1\n00:00:01,000 --> 00:00:02,000\na\n\x1ab\n\n2\n00:00:03,000 --> 00:00:04,000\n\x04c\n\x0cd\n\n\x1a\n3\n00:00:05,000 --> 00:00:06,000\ne\n\x1a\n",
				"vtt": "WEBVTT\n\n00:00:01.000 --> 00:00:02.000\na\n\x1ab\n\n00:00:03.000 --> 00:00:04.000\n\x04c\n\x0cd\n\nNOTE x\n\x1a\n\n00:00:05.000 --> 00:00:06.000\ne\n\x1a\n",
				"ssa": "[Script Info]\nTitle: t\n\x1a\n\n[Events]\nFormat: Marked, Start, End, Style, Name, MarginL, MarginR, MarginV, Effect, Text\nDialogue: Marked=0,0:00:01.00,0:00:02.00,,,0,0,0,,a\n\x1a\nDialogue: Marked=0,0:00:03.00,0:00:04.00,,,0,0,0,,\x04c\n\x0cjunk\nDialogue: Marked=0,0:00:05.00,0:00:06.00,,,0,0,0,,e\n\x1a\n",
			}[format]; ctl != "" {
				docs = append(docs, []byte(ctl))
			}
			for _, doc := range docs {
				if _, err := readFormat(format, bytes.NewReader(doc), readOpts{}); err != nil {
					continue
				}
				if job%cfgShards == cfgShard {
					limit := faultLimit(format, doc)
					ev.Sample("read-"+format, map[string]any{"format": format, "document": clip(string(doc), 300), "bytes": len(doc), "fault_offsets": fmt.Sprintf("0..%d", limit)})
					for k := 0; k <= limit; k++ {
						for _, chunk := range []int{0, 1} {
							if chunk == 1 && k%5 != 0 {
								continue
							}
							c := c18Case{Format: format, Doc: doc, FaultAt: k, Chunk: chunk, Mode: k % 2, Err: (k / 2) % len(faultErrors)}
							// the reader options take turns along the offsets (each error value meets each of them)
							if format == "ts" && (k/10)%2 == 1 {
								c.Opts.PID = ttxPID
							}
							if format == "stl" && (k/10)%2 == 1 {
								c.Opts.IgnoreTCP = true
							}
							ev.CaseH(true, mix(strHash(string(doc)), uint64(k), uint64(chunk)), "read-fault", "format-"+format, fmt.Sprintf("read-fault-mode-%d", c.Mode))
							total++
							verdict(t, "C18", "c18", c, checkC18)
						}
					}
				}
				job++
			}
		}
		ev.Note("exhaustive-read-offsets", fmt.Sprintf("every fault offset 0..len (TTML: up to the end of the root element) of the documents of this shard: %d faulted reads", total))
	})

	// Exhaustive: every write-fault offset for cue lists obtained from representative documents.
	sub(t, "write-offsets", func(t *testing.T) {
		nDocs := tier(2, 12)
		job, total := 0, 0
		for _, src := range []string{"srt", "vtt", "ssa", "ttml", "stl"} {
			gen := docGen(src)
			var docs [][]byte
			if g := goldenDocs(src); len(g) > 0 && len(g[0]) < 6000 {
				docs = append(docs, g[0])
			}
			for i := 0; len(docs) < nDocs+1 && i < 400; i++ {
				d := gen.Example(i + 100)
				if s, err := readFormat(src, bytes.NewReader(d), readOpts{}); err == nil && len(s.Items) > 0 && len(d) < 3000 {
					docs = append(docs, d)
				}
			}
			for _, doc := range docs {
				for _, wf := range writerFormats {
					if job%cfgShards == cfgShard {
						s, err := readFormat(src, bytes.NewReader(doc), readOpts{})
						if err != nil || len(s.Items) == 0 {
							job++
							continue
						}
						if s.Metadata == nil {
							s.Metadata = &astisub.Metadata{}
						}
						var size int
						withFixedClock(func() {
							clean := &faultWriter{k: -1}
							if guarded(func() string {
								if err := writeFormat(wf, s, clean); err != nil {
									return err.Error()
								}
								return ""
							}) == "" {
								size = clean.buf.Len()
							}
						})
						ev.Sample("write-"+wf, map[string]any{"source_format": src, "source_document": clip(string(doc), 300), "writer": wf, "fault_offsets": fmt.Sprintf("0..%d", size)})
						for k := 0; k <= size; k++ {
							for mode := 0; mode < 6; mode++ {
								c := c18Case{Format: src, Doc: doc, Writer: wf, FaultAt: k, Mode: mode}
								if wf == "ttml" {
									// the offsets of the default rendering are swept under each per-call option in turn
									c.Indent = []string{"", "none", "tab", "two"}[(k+mode)%4]
								}
								ev.CaseH(k < size, mix(strHash(string(doc)), strHash(wf), uint64(k), uint64(mode)), "write-fault", "writer-"+wf, fmt.Sprintf("write-fault-mode-%d", mode))
								total++
								verdict(t, "C18", "c18", c, checkC18)
							}
						}
					}
					job++
				}
			}
		}
		ev.Note("exhaustive-write-offsets", fmt.Sprintf("every fault offset of the clean output (and one beyond) for the (cue list, writer) pairs of this shard: %d faulted writes", total))
	})

	// Lines of 2^16 .. 2^20 bytes.
	sub(t, "long-lines", func(t *testing.T) {
		if cfgShard != 0 {
			return
		}
		// (below what a line scanner buffers the line is simply read; above, the reader fails - or, where there is no
		// such limit, reads it: never a shorter text and no error)
		sizes := []int{4097, 8193, 1 << 14, 1<<15 + 1, 65000, 1 << 16, 1<<16 + 1, 70000, 1 << 17, 1 << 18}
		if thorough() {
			sizes = append(sizes, 1<<19, 1<<20)
		}
		for _, n := range sizes {
			long := strings.Repeat("x", n)
			docs := map[string]string{
				"srt":  "1\n00:00:01,000 --> 00:00:02,000\na\n\n2\n00:00:03,000 --> 00:00:04,000\n" + long + "\n\n3\n00:00:05,000 --> 00:00:06,000\nc\n",
				"vtt":  "WEBVTT\n\n00:00:01.000 --> 00:00:02.000\na\n\n00:00:03.000 --> 00:00:04.000\n" + long + "\n\n00:00:05.000 --> 00:00:06.000\nc\n",
				"ssa":  "[Script Info]\nTitle: t\n\n[Events]\nFormat: Marked, Start, End, Style, Name, MarginL, MarginR, MarginV, Effect, Text\nDialogue: Marked=0,0:00:01.00,0:00:02.00,,,0,0,0,,a\nDialogue: Marked=0,0:00:03.00,0:00:04.00,,,0,0,0,," + long + "\nDialogue: Marked=0,0:00:05.00,0:00:06.00,,,0,0,0,,c\n",
				"ttml": `<tt xmlns="http://www.w3.org/ns/ttml"><body><div><p begin="00:00:01.000" end="00:00:02.000">a</p><p begin="00:00:03.000" end="00:00:04.000">` + long + `</p><p begin="00:00:05.000" end="00:00:06.000">c</p></div></body></tt>`,
			}
			docs["ttml2"] = "<tt xmlns=\"http://www.w3.org/ns/ttml\">\n  <body>\n    <div>\n      <p begin=\"00:00:01.000\" end=\"00:00:02.000\">\n        <span>a</span>\n      </p>\n      <p begin=\"00:00:03.000\" end=\"00:00:04.000\">\n        <span>before</span>\n        <br/>\n        <span>" + long + "</span>\n      </p>\n      <p begin=\"00:00:05.000\" end=\"00:00:06.000\">\n        <span>c</span>\n      </p>\n    </div>\n  </body>\n</tt>\n"
			{
				c := c18Case{Format: "ttml", Doc: []byte(docs["ttml2"]), LongLine: true, Cues: 3, TextBytes: n}
				ev.CaseH(true, mix(strHash("ttml2"), uint64(n)), "long-line", "format-ttml")
				verdict(t, "C18", "c18", c, checkC18)
			}
			for _, format := range []string{"srt", "vtt", "ssa", "ttml"} {
				c := c18Case{Format: format, Doc: []byte(docs[format]), LongLine: true, Cues: 3, TextBytes: n}
				ev.CaseH(true, mix(strHash(format), uint64(n)), "long-line", "format-"+format)
				verdict(t, "C18", "c18", c, checkC18)
			}
			// the long line sits in a part of the document the reader skips or does not keep: what follows it still counts
			skipped := map[string]string{
				"srt":  "1\n00:00:01,000 --> 00:00:02,000\na\n\n" + long + "\n00:00:03,000 --> 00:00:04,000\nb\n\n3\n00:00:05,000 --> 00:00:06,000\nc\n",
				"vtt":  "WEBVTT\n\nNOTE " + long + "\n\n00:00:01.000 --> 00:00:02.000\na\n\nSTYLE\n" + long + "\n\n00:00:03.000 --> 00:00:04.000\nb\n\n00:00:05.000 --> 00:00:06.000\nc\n",
				"ssa":  "[Script Info]\nTitle: t\n\n[Fonts]\nfontname: x.ttf\n" + long + "\n\n[Events]\nFormat: Marked, Start, End, Style, Name, MarginL, MarginR, MarginV, Effect, Text\nDialogue: Marked=0,0:00:01.00,0:00:02.00,,,0,0,0,,a\nDialogue: Marked=0,0:00:03.00,0:00:04.00,,,0,0,0,,b\nDialogue: Marked=0,0:00:05.00,0:00:06.00,,,0,0,0,,c\n",
				"ssa2": "[Script Info]\nTitle: t\n; " + long + "\n\n[Events]\nFormat: Marked, Start, End, Style, Name, MarginL, MarginR, MarginV, Effect, Text\nDialogue: Marked=0,0:00:01.00,0:00:02.00,,,0,0,0,,a\nComment: Marked=0,0:00:03.00,0:00:04.00,,,0,0,0,," + long + "\nDialogue: Marked=0,0:00:03.00,0:00:04.00,,,0,0,0,,b\nDialogue: Marked=0,0:00:05.00,0:00:06.00,,,0,0,0,,c\n",
			}
			for name, doc := range skipped {
				format := strings.TrimSuffix(name, "2")
				c := c18Case{Format: format, Doc: []byte(doc), LongLine: true, Cues: 3}
				ev.CaseH(true, mix(strHash(name), uint64(n), 3), "long-line-in-a-skipped-part", "format-"+format)
				verdict(t, "C18", "c18", c, checkC18)
			}
		}
	})

	// File helpers.
	sub(t, "files", func(t *testing.T) {
		if cfgShard != 0 {
			return
		}
		dir := t.TempDir()
		for _, ext := range []string{"srt", "ssa", "ass", "stl", "ttml", "vtt", "ts"} {
			ev.CaseH(true, strHash("open"+ext), "missing-file")
			if _, err := astisub.OpenFile(filepath.Join(dir, "missing."+ext)); err == nil {
				writeReplay("C18", "c18", c18Case{Format: ext}, "OpenFile of a missing file returned nil error")
				t.Fatalf("OpenFile of a missing .%s file returned nil error", ext)
			}
		}
		// what the format reader reports comes back through the opener, under every extension: a stream failing at the
		// first byte (a directory: every read fails with EISDIR), a line beyond what the reader can buffer
		longLine := strings.Repeat("x", 1<<17)
		longDocs := map[string]string{
			"srt": "1\n00:00:01,000 --> 00:00:02,000\na\n\n2\n00:00:03,000 --> 00:00:04,000\n" + longLine + "\n\n3\n00:00:05,000 --> 00:00:06,000\nc\n",
			"vtt": "WEBVTT\n\n00:00:01.000 --> 00:00:02.000\na\n\n00:00:03.000 --> 00:00:04.000\n" + longLine + "\n\n00:00:05.000 --> 00:00:06.000\nc\n",
			"ssa": "[Script Info]\nTitle: t\n\n[Events]\nFormat: Marked, Start, End, Style, Name, MarginL, MarginR, MarginV, Effect, Text\nDialogue: Marked=0,0:00:01.00,0:00:02.00,,,0,0,0,,a\nDialogue: Marked=0,0:00:03.00,0:00:04.00,,,0,0,0,," + longLine + "\nDialogue: Marked=0,0:00:05.00,0:00:06.00,,,0,0,0,,c\n",
		}
		longDocs["ass"] = longDocs["ssa"]
		for _, ext := range []string{"srt", "ssa", "ass", "stl", "ttml", "vtt", "ts", "SRT", "ASS", "Vtt"} {
			d := filepath.Join(dir, "a-directory."+ext)
			if os.Mkdir(d, 0o755) == nil {
				ev.CaseH(true, strHash("opendir"+ext), "opener-on-a-stream-failing-at-once")
				if _, err := astisub.OpenFile(d); err == nil {
					writeReplay("C18", "c18", c18Case{Format: ext}, "OpenFile of a directory returned nil error")
					t.Fatalf("OpenFile of a directory named *.%s (every read fails) returned nil error", ext)
				}
			}
			if doc, ok := longDocs[strings.ToLower(ext)]; ok {
				p := filepath.Join(dir, "long-line."+ext)
				if os.WriteFile(p, []byte(doc), 0o644) == nil {
					ev.CaseH(true, strHash("openlong"+ext), "opener-on-an-over-long-line")
					if got, err := astisub.OpenFile(p); err == nil {
						writeReplay("C18", "c18", c18Case{Format: ext}, "OpenFile of a file with an over-long line returned nil error")
						t.Fatalf("OpenFile of a .%s file with a line of %d bytes returned nil error and %d cues of 3", ext, len(longLine), len(got.Items))
					}
				}
			}
		}
		s := astisub.NewSubtitles()
		s.Metadata = &astisub.Metadata{}
		s.Items = []*astisub.Item{{StartAt: time.Second, EndAt: 2 * time.Second, Lines: []astisub.Line{{Items: []astisub.LineItem{{Text: "x"}}}}}}
		for _, ext := range []string{"srt", "ssa", "ass", "stl", "ttml", "vtt"} {
			ev.CaseH(true, strHash("write"+ext), "uncreatable-file")
			if err := s.Write(filepath.Join(dir, "no-such-dir", "out."+ext)); err == nil {
				t.Fatalf("Write into a missing directory returned nil error (.%s)", ext)
			}
			// whatever the format writer reports comes back through the helper: a full device, nothing to write
			if _, err := os.Stat("/dev/full"); err == nil {
				full := filepath.Join(dir, "full."+ext)
				if os.Symlink("/dev/full", full) == nil {
					ev.CaseH(true, strHash("full"+ext), "file-on-full-device")
					if err := s.Write(full); err == nil {
						writeReplay("C18", "c18", c18Case{Format: ext}, "Write to a file on a full device returned nil error")
						t.Fatalf("Write to a .%s file on a full device (every write fails with ENOSPC) returned nil error", ext)
					}
				}
			}
			ev.CaseH(true, strHash("empty"+ext), "write-helper-error-path")
			if err := astisub.NewSubtitles().Write(filepath.Join(dir, "empty."+ext)); err == nil {
				writeReplay("C18", "c18", c18Case{Format: ext}, "Write of an empty list returned nil error")
				t.Fatalf("Write of an empty list to a .%s file returned nil error (the format writer reports ErrNoSubtitlesToWrite)", ext)
			}
			// and without fault the file is complete
			p := filepath.Join(dir, "ok."+ext)
			if err := s.Write(p); err != nil {
				t.Fatalf("Write to %s failed: %v", p, err)
			}
			var buf bytes.Buffer
			withFixedClock(func() {})
			f := ext
			if f == "ass" {
				f = "ssa"
			}
			_ = writeFormat(f, s, &buf)
			b, _ := os.ReadFile(p)
			if f != "stl" && !bytes.Equal(b, buf.Bytes()) {
				t.Fatalf("file written by Write(%s) differs from what the writer produces", ext)
			}
		}
	})

	// The command-line tool: an input that cannot be read (missing, over-long line) and an output that cannot be
	// created make it exit with a non-zero status, whichever sub-command and whichever input position.
	sub(t, "cli", func(t *testing.T) {
		cli := os.Getenv("VERIF_CLI")
		if cfgShard != 0 || cli == "" {
			return
		}
		dir := t.TempDir()
		good := filepath.Join(dir, "good.srt")
		long := filepath.Join(dir, "long.srt")
		missing := filepath.Join(dir, "missing.srt")
		_ = os.WriteFile(good, []byte("1\n00:00:01,000 --> 00:00:02,000\na\n\n2\n00:00:03,000 --> 00:00:04,000\nb\n"), 0o644)
		_ = os.WriteFile(long, []byte("1\n00:00:01,000 --> 00:00:02,000\na\n\n2\n00:00:03,000 --> 00:00:04,000\n"+strings.Repeat("x", 1<<17)+"\n\n3\n00:00:05,000 --> 00:00:06,000\nc\n"), 0o644)
		out := filepath.Join(dir, "out.srt")
		nodir := filepath.Join(dir, "no-such-dir", "out.srt")
		type run struct {
			name string
			args []string
		}
		var runs []run
		for _, bad := range []string{missing, long} {
			b := filepath.Base(bad)
			runs = append(runs,
				run{"convert " + b, []string{"convert", "-i", bad, "-o", out}},
				run{"sync " + b, []string{"sync", "-i", bad, "-s", "1s", "-o", out}},
				run{"fragment " + b, []string{"fragment", "-i", bad, "-f", "1s", "-o", out}},
				run{"unfragment " + b, []string{"unfragment", "-i", bad, "-o", out}},
				run{"optimize " + b, []string{"optimize", "-i", bad, "-o", out}},
				run{"apply-linear-correction " + b, []string{"apply-linear-correction", "-i", bad, "-a1", "1s", "-d1", "1s", "-a2", "2s", "-d2", "3s", "-o", out}},
				run{"merge first " + b, []string{"merge", "-i", bad, "-i", good, "-o", out}},
				run{"merge second " + b, []string{"merge", "-i", good, "-i", bad, "-o", out}},
			)
		}
		for _, sc := range [][]string{{"convert"}, {"sync", "-s", "1s"}, {"fragment", "-f", "1s"}, {"unfragment"}, {"optimize"}, {"merge", "-i", good}} {
			args := append(append([]string{sc[0], "-i", good}, sc[1:]...), "-o", nodir)
			runs = append(runs, run{sc[0] + " into a missing directory", args})
		}
		for _, r := range runs {
			ev.CaseH(true, strHash("cli"+r.name), "cli-error-path")
			_ = os.Remove(out)
			o, err := exec.Command(cli, r.args...).CombinedOutput()
			if err == nil {
				writeReplay("C18", "c18", c18Case{Format: "cli"}, "astisub "+r.name+": exit status 0")
				t.Fatalf("astisub %s: exit status 0 although an input cannot be read / the output cannot be created\n%s", r.name, clip(string(o), 400))
			}
		}
		// and the sane run succeeds (the runs above fail for the reason intended)
		good2 := filepath.Join(dir, "good2.srt")
		_ = os.WriteFile(good2, []byte("1\n00:00:07,000 --> 00:00:08,000\nz\n"), 0o644)
		if o, err := exec.Command(cli, "merge", "-i", good, "-i", good2, "-o", out).CombinedOutput(); err != nil {
			t.Fatalf("astisub merge of two readable files failed: %v\n%s", err, clip(string(o), 400))
		}
	})

	rapidCheck(t, "C18/random", tier(800, 500000), func(rt *rapid.T) {
		format := rapid.SampledFrom(allFormats).Draw(rt, "format")
		doc := docGen(format).Draw(rt, "doc")
		if _, err := readFormat(format, bytes.NewReader(doc), readOpts{}); err != nil || len(doc) == 0 {
			ev.Case(false, "", "random-skipped")
			return
		}
		if rapid.IntRange(0, 2).Draw(rt, "dir") == 0 && format != "ts" {
			c := c18Case{Format: format, Doc: doc, Writer: rapid.SampledFrom(writerFormats).Draw(rt, "writer"), FaultAt: rapid.IntRange(0, 6000).Draw(rt, "k"), Mode: rapid.IntRange(0, 5).Draw(rt, "wmode")}
			if c.Writer == "ttml" {
				c.Indent = rapid.SampledFrom([]string{"", "none", "tab", "two"}).Draw(rt, "indent")
			}
			ev.Case(true, fmt.Sprintf("%v", c), "random", "write-fault", "writer-"+c.Writer)
			verdict(rt, "C18", "c18", c, checkC18)
			return
		}
		c := c18Case{Format: format, Doc: doc, FaultAt: rapid.IntRange(0, faultLimit(format, doc)).Draw(rt, "k"), Chunk: rapid.SampledFrom([]int{0, 1, 7, 188, 4096}).Draw(rt, "chunk"), Mode: rapid.IntRange(0, 1).Draw(rt, "rmode"), Err: rapid.IntRange(0, len(faultErrors)-1).Draw(rt, "errkind")}
		ev.Case(true, fmt.Sprintf("%v", c), "random", "read-fault", "format-"+format)
		verdict(rt, "C18", "c18", c, checkC18)
	})
}

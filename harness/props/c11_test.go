package props

import (
	"fmt"
	"reflect"
	"sort"
	"testing"
	"time"

	astisub "github.com/asticode/go-astisub"
	"pgregory.net/rapid"
)

// C11 - Unfragment: executable specification
//
//   order by start (stable); per text, connected components of the "touch or
//   overlap" relation (closed intervals intersect); each component is replaced
//   by its first member in the ordered list, extended to the component's
//   maximum end; nothing else changes.
//   Independent second oracle: the set of texts on screen at every boundary
//   instant is the same before and after.
//   Inverse law: Unfragment(Fragment(L,f)) ~ L for start-ordered L free of
//   touching same-text cues.

type c11Case struct {
	Cues []cueSpec `json:"cues"`
	// F > 0: check the inverse law (Fragment then Unfragment) instead of the plain specification
	F int64 `json:"f,omitempty"`
	// Dup: the list holds its first cue a second time, the same object (as after merging a list into itself)
	Dup bool `json:"dup,omitempty"`
	// Roll: the Lines of the cues are slices of shared backing arrays - a cue whose lines are a prefix of another cue's
	// lines is that cue's slice cut short (roll-up captions built incrementally): sharing storage is not sharing text
	Roll bool `json:"roll,omitempty"`
}

// rollUp re-slices the cues' lines out of shared backing arrays (see c11Case.Roll) and takes the snapshots again.
func rollUp(b *builtList, cues []cueSpec) {
	ls := make([][]astisub.Line, len(cues))
	for i, c := range cues {
		ls[i] = textLines(c.T)
	}
	masters := map[int][]astisub.Line{}
	for i := range cues {
		if len(ls[i]) == 0 {
			continue
		}
		best := i
		for j := range cues {
			if len(ls[j]) > len(ls[best]) && reflect.DeepEqual(ls[j][:len(ls[i])], ls[i]) {
				best = j
			}
		}
		if _, ok := masters[best]; !ok {
			masters[best] = textLines(cues[best].T)
		}
		b.items[i].Lines = masters[best][:len(ls[i])]
		b.snaps[i] = snapItem(b.items[i])
	}
}

func init() { register("c11", checkC11) }

type comp struct {
	first int // index into the original list
	s, e  int64
}

func specUnfragment(cues []cueSpec) []comp {
	order := make([]int, len(cues))
	for i := range order {
		order[i] = i
	}
	sort.SliceStable(order, func(a, b int) bool { return cues[order[a]].S < cues[order[b]].S })
	var out []comp
	open := map[string]int{} // text -> index in out of the component that is still extendable
	for _, i := range order {
		c := cues[i]
		if k, ok := open[textKey(c.T)]; ok && c.S <= out[k].e {
			if c.E > out[k].e {
				out[k].e = c.E
			}
			continue
		}
		out = append(out, comp{first: i, s: c.S, e: c.E})
		open[textKey(c.T)] = len(out) - 1
	}
	return out
}

func onScreen(cs []cueSpec, t int64) string {
	set := map[string]bool{}
	for _, c := range cs {
		if c.S <= t && t < c.E {
			set[textKey(c.T)] = true
		}
	}
	var ks []string
	for k := range set {
		ks = append(ks, k)
	}
	sort.Strings(ks)
	return fmt.Sprint(ks)
}

func checkC11(c c11Case) string {
	if c.F > 0 {
		return checkC11Inverse(c)
	}
	b := buildList(c.Cues)
	if c.Roll {
		rollUp(b, c.Cues)
	}
	if c.Dup && len(c.Cues) > 0 {
		// (the specification sees two entries with the same values)
		c.Cues = append(append([]cueSpec(nil), c.Cues...), c.Cues[0])
		b.sub.Items = append(b.sub.Items, b.sub.Items[0])
		b.items = append(b.items, b.items[0])
		b.snaps = append(b.snaps, b.snaps[0])
	}
	b.sub.Unfragment()
	if m := b.metaDiff(); m != "" {
		return m
	}
	if sampledForInterference(c.Cues) {
		if m := interference(b.sub); m != "" {
			return m
		}
	}
	got := b.sub.Items
	ctx := func() string { return fmt.Sprintf("in: %s out: %s", fmtSpecs(c.Cues), fmtItems(got)) }
	want := specUnfragment(c.Cues)
	if len(got) != len(want) {
		return fmt.Sprintf("%d cues after Unfragment, specification says %d; %s", len(got), len(want), ctx())
	}
	for k, w := range want {
		it := got[k]
		if it != b.items[w.first] {
			return fmt.Sprintf("position %d: expected original cue #%d (earliest member of its component), got #%d; %s", k, w.first, b.indexOf(it), ctx())
		}
		if int64(it.StartAt) != w.s || int64(it.EndAt) != w.e {
			return fmt.Sprintf("cue #%d is [%d,%d), specification says [%d,%d); %s", w.first, int64(it.StartAt), int64(it.EndAt), w.s, w.e, ctx())
		}
		if m := contentDiff(it, b.snaps[w.first]); m != "" {
			return fmt.Sprintf("cue #%d: %s", w.first, m)
		}
	}
	// no two same-text cues touch or overlap
	for i := range got {
		for j := i + 1; j < len(got); j++ {
			if itemText(got[i]) == itemText(got[j]) {
				lo, hi := got[i].StartAt, got[i].EndAt
				if got[j].StartAt > lo {
					lo = got[j].StartAt
				}
				if got[j].EndAt < hi {
					hi = got[j].EndAt
				}
				if lo <= hi {
					return "two cues with the same text still touch or overlap; " + ctx()
				}
			}
		}
	}
	// display equivalence at every boundary instant
	var after []cueSpec
	for _, it := range got {
		after = append(after, cueSpec{S: int64(it.StartAt), E: int64(it.EndAt), T: itemText(it)})
	}
	for _, cu := range c.Cues {
		for _, t := range []int64{cu.S, cu.E, cu.S - 1, cu.E - 1} {
			if a, bb := onScreen(c.Cues, t), onScreen(after, t); a != bb {
				return fmt.Sprintf("texts on screen at t=%d changed from %s to %s; %s", t, a, bb, ctx())
			}
		}
	}
	// the caller then adds cues to the list it owns (public field) and unfragments again
	if len(c.Cues) > 0 && len(got) > 0 {
		first := c.Cues[0]
		extra := []cueSpec{{S: 0, E: first.E + nsMs, T: first.T}, {S: first.S, E: first.S, T: "b"}}
		var list2 []cueSpec
		for _, it := range got {
			list2 = append(list2, cueSpec{S: int64(it.StartAt), E: int64(it.EndAt), T: itemText(it)})
		}
		if n := len(got); n >= 2 {
			// ... and gives its first cue the text of its last one (same cue object, new lines)
			list2[0].T = list2[n-1].T
			got[0].Lines = textLines(list2[0].T)
		}
		list2 = append(list2, extra...)
		for _, e := range extra {
			b.sub.Items = append(b.sub.Items, &astisub.Item{StartAt: time.Duration(e.S), EndAt: time.Duration(e.E), Lines: textLines(e.T)})
		}
		b.sub.Unfragment()
		want2 := specUnfragment(list2)
		if len(b.sub.Items) != len(want2) {
			return fmt.Sprintf("second Unfragment, after the caller appended two cues: %d cues, specification says %d; list before the call: %s out: %s", len(b.sub.Items), len(want2), fmtSpecs(list2), fmtItems(b.sub.Items))
		}
		for k, w := range want2 {
			it := b.sub.Items[k]
			if int64(it.StartAt) != w.s || int64(it.EndAt) != w.e || itemText(it) != textKey(list2[w.first].T) {
				return fmt.Sprintf("second Unfragment, after the caller appended two cues: position %d is [%d,%d)%q, specification says [%d,%d)%q; list before the call: %s", k, int64(it.StartAt), int64(it.EndAt), itemText(it), w.s, w.e, textKey(list2[w.first].T), fmtSpecs(list2))
			}
		}
	}
	// the same value was fragmented before (any period): Unfragment merges what touches, wherever the junction lies -
	// the pieces and what touched before alike, so the result covers what Unfragment alone gives
	if !c.Dup && len(c.Cues) > 0 {
		var span int64 = 1
		for _, cu := range c.Cues {
			if cu.E > span {
				span = cu.E
			}
		}
		f := span/5 + 1
		b3 := buildList(c.Cues)
		b3.sub.Fragment(time.Duration(f))
		b3.sub.Unfragment()
		type key struct {
			s, e int64
			t    string
		}
		wantN, gotN := map[key]int{}, map[key]int{}
		for _, w := range want {
			wantN[key{w.s, w.e, textKey(c.Cues[w.first].T)}]++
		}
		for _, it := range b3.sub.Items {
			gotN[key{int64(it.StartAt), int64(it.EndAt), itemText(it)}]++
		}
		for k, n := range wantN {
			if gotN[k] != n || len(b3.sub.Items) != len(want) {
				return fmt.Sprintf("Unfragment after Fragment(%d) on the same value: %d cues, [%d,%d)%q %d times; Unfragment alone gives %d cues and that one %d times; in: %s out: %s", f, len(b3.sub.Items), k.s, k.e, k.t, gotN[k], len(want), n, fmtSpecs(c.Cues), fmtItems(b3.sub.Items))
			}
		}
	}
	return ""
}

func checkC11Inverse(c c11Case) string {
	b := buildList(c.Cues)
	b.sub.Fragment(time.Duration(c.F))
	nFrag := len(b.sub.Items)
	b.sub.Unfragment()
	got := b.sub.Items
	ctx := func() string {
		return fmt.Sprintf("in: %s f=%d (%d pieces) out: %s", fmtSpecs(c.Cues), c.F, nFrag, fmtItems(got))
	}
	if len(got) != len(c.Cues) {
		return fmt.Sprintf("Unfragment(Fragment(L)) has %d cues, L has %d; %s", len(got), len(c.Cues), ctx())
	}
	// order up to cues with equal start: compare as multisets per start value, and sequence of starts
	type key struct {
		s, e int64
		t    string
	}
	wantN, gotN := map[key]int{}, map[key]int{}
	for i, cu := range c.Cues {
		wantN[key{cu.S, cu.E, textKey(cu.T)}]++
		it := got[i]
		gotN[key{int64(it.StartAt), int64(it.EndAt), itemText(it)}]++
		if int64(it.StartAt) != cu.S {
			return fmt.Sprintf("position %d starts at %d, original list has %d there; %s", i, int64(it.StartAt), cu.S, ctx())
		}
	}
	for k, n := range wantN {
		if gotN[k] != n {
			return fmt.Sprintf("cue [%d,%d)%q: %d after the round trip, %d before; %s", k.s, k.e, k.t, gotN[k], n, ctx())
		}
	}
	return ""
}

// freeOfTouching reports whether no two same-text cues touch or overlap.
func freeOfTouching(cs []cueSpec) bool {
	for i := range cs {
		for j := i + 1; j < len(cs); j++ {
			if textKey(cs[i].T) == textKey(cs[j].T) {
				lo, hi := cs[i].S, cs[i].E
				if cs[j].S > lo {
					lo = cs[j].S
				}
				if cs[j].E < hi {
					hi = cs[j].E
				}
				if lo <= hi {
					return false
				}
			}
		}
	}
	return true
}

func c11NonTrivial(c c11Case) (bool, []string) {
	if c.F > 0 {
		cut := false
		for _, cu := range c.Cues {
			if cu.E > cu.S && (cu.S/c.F+1)*c.F < cu.E {
				cut = true
			}
		}
		ls := []string{"inverse"}
		if cut {
			ls = append(ls, "inverse-cut")
		}
		return cut, ls
	}
	want := specUnfragment(c.Cues)
	merged := len(want) < len(c.Cues)
	unordered := false
	for i := 1; i < len(c.Cues); i++ {
		if c.Cues[i].S < c.Cues[i-1].S {
			unordered = true
		}
	}
	texts := map[string]bool{}
	for _, cu := range c.Cues {
		texts[textKey(cu.T)] = true
	}
	var ls []string
	if merged {
		ls = append(ls, "merge")
	}
	if unordered {
		ls = append(ls, "unordered-input")
	}
	if merged && len(want) > 1 {
		ls = append(ls, "merge-and-keep")
	}
	if len(texts) > 1 {
		ls = append(ls, "multi-text")
	}
	return merged && len(texts) > 1 || merged && unordered, ls
}

func TestC11(t *testing.T) {
	runWitnesses(t, "C11")
	cliCases(t, "C11", "unfragment")

	// "ab" and "a+b" show the same text with a different split into runs
	texts3 := []string{"a", "b", "a|b"}
	textsR := []string{"a", "b", "a|b", "ab", "a+b", "a|+b", "a|", "|a", " a", "a ", "a| b", "liquid", "costarring", "Aa", "BB", "plumless", "buckeroo", "hetairas", "mentioner", "~", "", "A", "B", "a|B", "caf\u00e9", "cafe\u0301", "\u212b", "\u00c5", "AT&amp;T", "AT&T", "a&lt;b", "a<b"} // "a|" and "|a": "a" with an empty line after or before it; " a", "a ", "a| b": padded with a blank (all other texts than "a" / "a|b")
	// Exhaustive: every list (any order) of <=4 cues on the 0..N grid with 3 texts.
	grid := func(name string, maxN int, max int64, roll bool) {
		sub(t, name, func(t *testing.T) {
			var alpha []cueSpec
			for s := int64(0); s <= max; s++ {
				for e := s; e <= max; e++ {
					for _, tx := range texts3 {
						alpha = append(alpha, cueSpec{S: s * nsMs, E: e * nsMs, T: tx})
					}
				}
			}
			idx := 0
			cur := make([]cueSpec, 0, maxN)
			var rec func()
			rec = func() {
				if idx%cfgShards == cfgShard {
					c := c11Case{Cues: cur, Roll: roll}
					nt, ls := c11NonTrivial(c)
					var key uint64
					if nt {
						key = strHash(fmt.Sprintf("%v%v", cur, roll))
					}
					ev.CaseH(nt, key, ls...)
					if nt && idx%5000 == 0 {
						ev.Sample(name, c11Case{Cues: append([]cueSpec(nil), cur...), Roll: roll})
					}
					if msg := guarded(func() string { return checkC11(c) }); msg != "" {
						verdict(t, "C11", "c11", c11Case{Cues: append([]cueSpec(nil), cur...), Roll: roll}, checkC11)
					}
				}
				idx++
				if len(cur) == maxN {
					return
				}
				for _, a := range alpha {
					cur = append(cur, a)
					rec()
					cur = cur[:len(cur)-1]
				}
			}
			rec()
			ev.Note("exhaustive-"+name, fmt.Sprintf("all %d lists (any order) of <=%d cues on the 0..%d ms grid with 3 texts, over all shards", idx, maxN, max))
		})
	}
	grid("grid3", 3, 4, false)
	grid("grid2-rollup", 2, 4, true)
	if thorough() {
		grid("grid4", 4, 3, false)
		grid("grid3-rollup", 3, 4, true)
	}

	rapidCheck(t, "C11/random", tier(10000, 1000000), func(rt *rapid.T) {
		maxT := rapid.SampledFrom([]int64{12 * nsMs, 200 * nsMs, 3600 * 1000 * nsMs}).Draw(rt, "range")
		cues := genCues(rt, 0, 9, maxT, textsR)
		c := c11Case{Cues: cues, Dup: rapid.IntRange(0, 5).Draw(rt, "dup") == 0}
		c.Roll = rapid.IntRange(0, 3).Draw(rt, "rollup") == 0
		nt, ls := c11NonTrivial(c)
		if c.Dup {
			ls = append(ls, "same-cue-object-twice")
		}
		if c.Roll {
			ls = append(ls, "lines-share-backing-arrays")
		}
		ev.Case(nt, fmt.Sprintf("%v", c), append(ls, "random")...)
		if nt {
			ev.Sample("random", c)
		}
		verdict(rt, "C11", "c11", c, checkC11)
	})

	rapidCheck(t, "C11/inverse", tier(6000, 500000), func(rt *rapid.T) {
		maxT := rapid.SampledFrom([]int64{30 * nsMs, 5000 * nsMs, 3600 * 1000 * nsMs}).Draw(rt, "range")
		raw := genCues(rt, 0, 8, maxT, textsR)
		sort.SliceStable(raw, func(i, j int) bool { return raw[i].S < raw[j].S })
		// construction instead of rejection: drop cues that touch an earlier same-text cue
		var cues []cueSpec
		for _, cu := range raw {
			if freeOfTouching(append(append([]cueSpec(nil), cues...), cu)) {
				cues = append(cues, cu)
			}
		}
		var maxEnd int64 = 1
		for _, cu := range cues {
			if cu.E > maxEnd {
				maxEnd = cu.E
			}
		}
		minF := maxEnd/3000 + 1
		f := rapid.Int64Range(minF, maxEnd+2).Draw(rt, "f")
		if rapid.Bool().Draw(rt, "fms") && f >= nsMs {
			f = f / nsMs * nsMs
		}
		c := c11Case{Cues: cues, F: f}
		nt, ls := c11NonTrivial(c)
		ev.Case(nt, fmt.Sprintf("%v", c), ls...)
		if nt {
			ev.Sample("inverse", c)
		}
		verdict(rt, "C11", "c11", c, checkC11)
	})
}

var _ = astisub.NewSubtitles

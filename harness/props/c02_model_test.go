package props

import (
	"fmt"
	"reflect"
	"sort"
	"strings"
	"time"

	astisub "github.com/asticode/go-astisub"
	"pgregory.net/rapid"
)

// Ground-truth model of a WebVTT document (C02), in the dialect the library
// documents (old-style "Region:" lines, NOTE, STYLE, X-TIMESTAMP-MAP).

type vttTag struct {
	Name       string   `json:"name"`
	Classes    []string `json:"classes,omitempty"`
	Annotation string   `json:"annotation,omitempty"`
}

func (a vttTag) equal(b vttTag) bool {
	return a.Name == b.Name && a.Annotation == b.Annotation && strings.Join(a.Classes, ".") == strings.Join(b.Classes, ".") && len(a.Classes) == len(b.Classes)
}

type vttRun struct {
	Text    string   `json:"text"`
	Tags    []vttTag `json:"tags,omitempty"`     // stack, outermost first
	StartAt int64    `json:"start_ms,omitempty"` // inline timestamp directly before this run (0 = none)
}

type vttLine struct {
	Voice string   `json:"voice,omitempty"`
	Runs  []vttRun `json:"runs"`
}

type vttCue struct {
	ID       int       `json:"id"` // 0 = no identifier
	Comments []string  `json:"comments,omitempty"`
	Start    int64     `json:"start_ms"`
	End      int64     `json:"end_ms"`
	Align    string    `json:"align,omitempty"`
	Line     string    `json:"line,omitempty"`
	Position string    `json:"position,omitempty"`
	Size     string    `json:"size,omitempty"`
	Vertical string    `json:"vertical,omitempty"`
	Region   string    `json:"region,omitempty"`
	Lines    []vttLine `json:"lines"`
}

type vttRegion struct {
	ID             string `json:"id"`
	Lines          int    `json:"lines,omitempty"`
	RegionAnchor   string `json:"regionanchor,omitempty"`
	Scroll         string `json:"scroll,omitempty"`
	ViewportAnchor string `json:"viewportanchor,omitempty"`
	Width          string `json:"width,omitempty"`
}

type vttTSMap struct {
	LocalMs int64 `json:"local_ms"`
	MpegTS  int64 `json:"mpegts"`
}

type vttDoc struct {
	TSMap   *vttTSMap   `json:"timestamp_map,omitempty"`
	Styles  [][]string  `json:"style_blocks,omitempty"` // each block: >=1 CSS lines, last ends with '}'
	Regions []vttRegion `json:"regions,omitempty"`
	Cues    []vttCue    `json:"cues"`
}

type vttRendering struct {
	EOL             string   `json:"eol"`
	BOM             bool     `json:"bom"`
	HeaderTail      string   `json:"header_tail"`
	ShortTimes      bool     `json:"short_times"`                 // mm:ss.ttt when hours are 0
	RegionsInHeader bool     `json:"regions_in_header,omitempty"` // region lines directly under the WEBVTT line
	IDs             bool     `json:"ids"`                         // write identifiers (model IDs are then honoured)
	SettingsSep     string   `json:"settings_sep"`                // " " or "\t"
	SettingOrder    []int    `json:"setting_order"`               // permutation of the 6 settings
	RegionKeys      []int    `json:"region_keys"`                 // permutation of the 5 optional region keys, id position drawn separately
	RegionIDPos     int      `json:"region_id_pos"`
	RegionsLate     bool     `json:"regions_late"` // define each region right before the first cue that uses it
	BlankLines      []int    `json:"blank_lines"`
	FinalEOL        bool     `json:"final_eol"`
	CarryTags       bool     `json:"carry_tags"`   // leave tags open at end of line (the stack carries to the next line)
	Reopen          bool     `json:"reopen"`       // close all and reopen all tags between runs instead of the minimal transition
	Unterminated    bool     `json:"unterminated"` // leave tags open at the end of the cue
	CloseVoice      bool     `json:"close_voice"`  // write </v> at the end of the line when no other tag is open
	NoteSplit       bool     `json:"note_split"`   // every comment line in its own NOTE block
	TSMapOrder      bool     `json:"tsmap_mpegts_first"`
	NBSPEntity      bool     `json:"nbsp_entity"`
	Padding         []string `json:"padding"` // around -->
}

func fmtVTTTime(ms int64, short bool) string {
	h := ms / 3600000
	m := ms / 60000 % 60
	s := ms / 1000 % 60
	f := ms % 1000
	if short && h == 0 {
		return fmt.Sprintf("%02d:%02d.%03d", m, s, f)
	}
	return fmt.Sprintf("%02d:%02d:%02d.%03d", h, m, s, f)
}

func escapeVTT(s string, nbspEntity bool) string {
	var sb strings.Builder
	for _, c := range s {
		switch c {
		case '&':
			sb.WriteString("&amp;")
		case '<':
			sb.WriteString("&lt;")
		case '\u00a0':
			if nbspEntity {
				sb.WriteString("&nbsp;")
			} else {
				sb.WriteRune(c)
			}
		default:
			sb.WriteRune(c)
		}
	}
	return sb.String()
}

func (t vttTag) open() string {
	s := "<" + t.Name
	if len(t.Classes) > 0 {
		s += "." + strings.Join(t.Classes, ".")
	}
	if t.Annotation != "" {
		s += " " + t.Annotation
	}
	return s + ">"
}

func commonPrefix(a, b []vttTag) int {
	k := 0
	for k < len(a) && k < len(b) && a[k].equal(b[k]) {
		k++
	}
	return k
}

func renderVTTRegion(rg vttRegion, r vttRendering) string {
	parts := []string{}
	opt := []string{}
	for _, k := range r.RegionKeys {
		switch k {
		case 0:
			if rg.Lines != 0 {
				opt = append(opt, fmt.Sprintf("lines=%d", rg.Lines))
			}
		case 1:
			if rg.RegionAnchor != "" {
				opt = append(opt, "regionanchor="+rg.RegionAnchor)
			}
		case 2:
			if rg.Scroll != "" {
				opt = append(opt, "scroll="+rg.Scroll)
			}
		case 3:
			if rg.ViewportAnchor != "" {
				opt = append(opt, "viewportanchor="+rg.ViewportAnchor)
			}
		case 4:
			if rg.Width != "" {
				opt = append(opt, "width="+rg.Width)
			}
		}
	}
	pos := r.RegionIDPos
	if pos > len(opt) {
		pos = len(opt)
	}
	parts = append(parts, opt[:pos]...)
	parts = append(parts, "id="+rg.ID)
	parts = append(parts, opt[pos:]...)
	return "Region: " + strings.Join(parts, " ")
}

func renderVTT(d vttDoc, r vttRendering) []byte {
	var lines []string
	emit := func(l string) { lines = append(lines, l) }
	head := "WEBVTT"
	if r.HeaderTail != "" {
		// blank or tab between the signature and the free text
		head += map[bool]string{false: " ", true: "\t"}[len(r.HeaderTail)%2 == 0] + r.HeaderTail
	}
	emit(head)
	if d.TSMap != nil {
		loc := "LOCAL:" + fmtVTTTime(d.TSMap.LocalMs, r.ShortTimes && r.TSMapOrder)
		ts := fmt.Sprintf("MPEGTS:%d", d.TSMap.MpegTS)
		if r.TSMapOrder {
			emit("X-TIMESTAMP-MAP=" + ts + "," + loc)
		} else {
			emit("X-TIMESTAMP-MAP=" + loc + "," + ts)
		}
	}
	defined := map[string]bool{}
	used := map[string]bool{}
	for _, c := range d.Cues {
		used[c.Region] = true
	}
	early := 0
	if r.RegionsInHeader {
		// region definitions as header lines: right under the WEBVTT (and timestamp map) line, no blank line in between
		for _, rg := range d.Regions {
			if !r.RegionsLate || !used[rg.ID] {
				emit(renderVTTRegion(rg, r))
				defined[rg.ID] = true
			}
		}
	}
	emit("")
	for _, blk := range d.Styles {
		emit("STYLE")
		for _, l := range blk {
			emit(l)
		}
		emit("")
	}
	for _, rg := range d.Regions {
		if defined[rg.ID] {
			continue
		}
		if !r.RegionsLate || !used[rg.ID] {
			emit(renderVTTRegion(rg, r))
			defined[rg.ID] = true
			early++
		}
	}
	if early > 0 {
		emit("")
	}
	pad := r.Padding
	if len(pad) != 2 {
		pad = []string{" ", " "}
	}
	for ci, c := range d.Cues {
		if c.Region != "" && !defined[c.Region] {
			for _, rg := range d.Regions {
				if rg.ID == c.Region {
					emit(renderVTTRegion(rg, r))
					emit("")
					defined[rg.ID] = true
				}
			}
		}
		if len(c.Comments) > 0 {
			if r.NoteSplit {
				for _, cm := range c.Comments {
					emit("NOTE " + cm)
					emit("")
				}
			} else {
				for i, cm := range c.Comments {
					if i == 0 {
						emit("NOTE " + cm)
					} else {
						emit(cm)
					}
				}
				emit("")
			}
		}
		if r.IDs && c.ID != 0 {
			emit(fmt.Sprint(c.ID))
		}
		tl := fmtVTTTime(c.Start, r.ShortTimes) + pad[0] + "-->" + pad[1] + fmtVTTTime(c.End, r.ShortTimes)
		order := r.SettingOrder
		if len(order) != 6 {
			order = []int{0, 1, 2, 3, 4, 5}
		}
		for _, k := range order {
			var kv string
			switch k {
			case 0:
				if c.Align != "" {
					kv = "align:" + c.Align
				}
			case 1:
				if c.Line != "" {
					kv = "line:" + c.Line
				}
			case 2:
				if c.Position != "" {
					kv = "position:" + c.Position
				}
			case 3:
				if c.Region != "" {
					kv = "region:" + c.Region
				}
			case 4:
				if c.Size != "" {
					kv = "size:" + c.Size
				}
			case 5:
				if c.Vertical != "" {
					kv = "vertical:" + c.Vertical
				}
			}
			if kv != "" {
				tl += r.SettingsSep + kv
			}
		}
		emit(tl)
		var open []vttTag
		for li, ln := range c.Lines {
			var lb strings.Builder
			if ln.Voice != "" {
				lb.WriteString("<v " + ln.Voice + ">")
			}
			for ri, run := range ln.Runs {
				k := commonPrefix(open, run.Tags)
				if r.Reopen {
					k = 0
				}
				for i := len(open) - 1; i >= k; i-- {
					lb.WriteString("</" + open[i].Name + ">")
				}
				open = append([]vttTag(nil), open[:k]...)
				for i := k; i < len(run.Tags); i++ {
					lb.WriteString(run.Tags[i].open())
					open = append(open, run.Tags[i])
				}
				if run.StartAt > 0 {
					lb.WriteString("<" + fmtVTTTime(run.StartAt, r.ShortTimes) + ">")
				}
				lb.WriteString(escapeVTT(run.Text, r.NBSPEntity))
				lastOfLine := ri == len(ln.Runs)-1
				lastOfCue := lastOfLine && li == len(c.Lines)-1
				if (lastOfLine && !r.CarryTags) || (lastOfCue && !r.Unterminated) {
					for i := len(open) - 1; i >= 0; i-- {
						lb.WriteString("</" + open[i].Name + ">")
					}
					open = nil
				}
			}
			if ln.Voice != "" && r.CloseVoice && len(open) == 0 {
				lb.WriteString("</v>")
			}
			emit(lb.String())
		}
		if ci < len(d.Cues)-1 {
			n := 1
			if len(r.BlankLines) > 0 {
				n = r.BlankLines[ci%len(r.BlankLines)]
			}
			for k := 0; k < n; k++ {
				emit("")
			}
		}
	}
	var sb strings.Builder
	if r.BOM {
		sb.WriteString("\xef\xbb\xbf")
	}
	for i, l := range lines {
		sb.WriteString(l)
		if i < len(lines)-1 || r.FinalEOL {
			sb.WriteString(r.EOL)
		}
	}
	return []byte(sb.String())
}

// ---------------------------------------------------------------------------
// normalisation / comparison

func tagsEqual(a, b []vttTag) bool {
	if len(a) != len(b) {
		return false
	}
	for i := range a {
		if !a[i].equal(b[i]) {
			return false
		}
	}
	return true
}

func normVTT(d vttDoc) vttDoc {
	out := d
	out.Cues = nil
	for _, c := range d.Cues {
		nc := c
		nc.Lines = nil
		for _, l := range c.Lines {
			nl := vttLine{Voice: l.Voice}
			for _, r := range l.Runs {
				if r.Text == "" {
					continue
				}
				if n := len(nl.Runs); n > 0 && r.StartAt == 0 && tagsEqual(nl.Runs[n-1].Tags, r.Tags) {
					nl.Runs[n-1].Text += r.Text
				} else {
					nl.Runs = append(nl.Runs, r)
				}
			}
			nc.Lines = append(nc.Lines, nl)
		}
		if len(nc.Comments) == 0 {
			nc.Comments = nil
		}
		out.Cues = append(out.Cues, nc)
	}
	return out
}

func flatStyles(blocks [][]string) []string {
	var out []string
	for _, b := range blocks {
		out = append(out, b...)
	}
	return out
}

// diffVTT compares got with want. renumber: identifiers are expected to be 1..n.
// styleBlocksAnyOrder: the blocks may appear in any order (write direction, blocks
// come from distinct style definitions of a map).
func diffVTT(want, got vttDoc, renumber, styleBlocksAnyOrder bool) string {
	want, got = normVTT(want), normVTT(got)
	if (want.TSMap == nil) != (got.TSMap == nil) || (want.TSMap != nil && *want.TSMap != *got.TSMap) {
		return fmt.Sprintf("timestamp map %+v, expected %+v", got.TSMap, want.TSMap)
	}
	ws, gs := flatStyles(want.Styles), flatStyles(got.Styles)
	if styleBlocksAnyOrder {
		if !sameStyleBlocks(want.Styles, gs) {
			return fmt.Sprintf("STYLE lines %q, expected the blocks %q (each contiguous, any block order)", gs, want.Styles)
		}
	} else if !reflect.DeepEqual(ws, gs) && !(len(ws) == 0 && len(gs) == 0) {
		return fmt.Sprintf("STYLE lines %q, expected %q", gs, ws)
	}
	wr := map[string]vttRegion{}
	for _, r := range want.Regions {
		wr[r.ID] = r
	}
	gr := map[string]vttRegion{}
	for _, r := range got.Regions {
		gr[r.ID] = r
	}
	if !reflect.DeepEqual(wr, gr) {
		return fmt.Sprintf("regions %+v, expected %+v", got.Regions, want.Regions)
	}
	if len(want.Cues) != len(got.Cues) {
		return fmt.Sprintf("%d cues, expected %d", len(got.Cues), len(want.Cues))
	}
	for i := range want.Cues {
		w, g := want.Cues[i], got.Cues[i]
		if renumber {
			w.ID = i + 1
		}
		if w.ID != g.ID {
			return fmt.Sprintf("cue %d: identifier %d, expected %d", i, g.ID, w.ID)
		}
		if w.Start != g.Start || w.End != g.End {
			return fmt.Sprintf("cue %d: times %d-->%d ms, expected %d-->%d ms", i, g.Start, g.End, w.Start, w.End)
		}
		if !reflect.DeepEqual(w.Comments, g.Comments) {
			return fmt.Sprintf("cue %d: comments %q, expected %q", i, g.Comments, w.Comments)
		}
		if w.Align != g.Align || w.Line != g.Line || w.Position != g.Position || w.Size != g.Size || w.Vertical != g.Vertical {
			return fmt.Sprintf("cue %d: settings align=%q line=%q position=%q size=%q vertical=%q, expected align=%q line=%q position=%q size=%q vertical=%q", i,
				g.Align, g.Line, g.Position, g.Size, g.Vertical, w.Align, w.Line, w.Position, w.Size, w.Vertical)
		}
		if w.Region != g.Region {
			return fmt.Sprintf("cue %d: region %q, expected %q", i, g.Region, w.Region)
		}
		if len(w.Lines) != len(g.Lines) {
			return fmt.Sprintf("cue %d: %d lines %+v, expected %d lines %+v", i, len(g.Lines), g.Lines, len(w.Lines), w.Lines)
		}
		for j := range w.Lines {
			wl, gl := w.Lines[j], g.Lines[j]
			if wl.Voice != gl.Voice {
				return fmt.Sprintf("cue %d line %d: voice %q, expected %q", i, j, gl.Voice, wl.Voice)
			}
			if len(wl.Runs) != len(gl.Runs) {
				return fmt.Sprintf("cue %d line %d: runs %+v, expected %+v", i, j, gl.Runs, wl.Runs)
			}
			for k := range wl.Runs {
				a, b := wl.Runs[k], gl.Runs[k]
				if a.Text != b.Text || a.StartAt != b.StartAt || !tagsEqual(a.Tags, b.Tags) {
					return fmt.Sprintf("cue %d line %d run %d: %+v, expected %+v", i, j, k, b, a)
				}
			}
		}
	}
	return ""
}

func sameStyleBlocks(blocks [][]string, got []string) bool {
	// got must be a concatenation of the blocks in some order
	n := len(blocks)
	used := make([]bool, n)
	var rec func(pos int) bool
	rec = func(pos int) bool {
		if pos == len(got) {
			for _, u := range used {
				if !u {
					return false
				}
			}
			return true
		}
		for i, b := range blocks {
			if used[i] || pos+len(b) > len(got) {
				continue
			}
			if reflect.DeepEqual(got[pos:pos+len(b)], b) {
				used[i] = true
				if rec(pos + len(b)) {
					return true
				}
				used[i] = false
			}
		}
		return false
	}
	return rec(0)
}

// projVTT projects the library's result onto the model.
func projVTT(s *astisub.Subtitles) (vttDoc, string) {
	d := vttDoc{}
	if s.Metadata != nil && s.Metadata.WebVTTTimestampMap != nil {
		m := s.Metadata.WebVTTTimestampMap
		if m.Local%time.Millisecond != 0 {
			return d, "timestamp map LOCAL not on the ms grid"
		}
		d.TSMap = &vttTSMap{LocalMs: int64(m.Local / time.Millisecond), MpegTS: m.MpegTS}
	}
	var sids []string
	for id := range s.Styles {
		sids = append(sids, id)
	}
	sort.Strings(sids)
	for _, id := range sids {
		st := s.Styles[id]
		if st == nil || st.ID != id {
			return d, fmt.Sprintf("style map key %q does not match its definition", id)
		}
		if st.InlineStyle != nil && len(st.InlineStyle.WebVTTStyles) > 0 {
			d.Styles = append(d.Styles, append([]string(nil), st.InlineStyle.WebVTTStyles...))
		}
	}
	var rids []string
	for id := range s.Regions {
		rids = append(rids, id)
	}
	sort.Strings(rids)
	for _, id := range rids {
		rg := s.Regions[id]
		if rg == nil || rg.ID != id {
			return d, fmt.Sprintf("region map key %q does not match its definition", id)
		}
		vr := vttRegion{ID: id}
		if rg.InlineStyle != nil {
			vr.Lines = rg.InlineStyle.WebVTTLines
			vr.RegionAnchor = rg.InlineStyle.WebVTTRegionAnchor
			vr.Scroll = rg.InlineStyle.WebVTTScroll
			vr.ViewportAnchor = rg.InlineStyle.WebVTTViewportAnchor
			vr.Width = rg.InlineStyle.WebVTTWidth
		}
		d.Regions = append(d.Regions, vr)
	}
	for i, it := range s.Items {
		if it.StartAt%time.Millisecond != 0 || it.EndAt%time.Millisecond != 0 {
			return d, fmt.Sprintf("cue %d: boundary not on the millisecond grid", i)
		}
		c := vttCue{ID: it.Index, Start: int64(it.StartAt / time.Millisecond), End: int64(it.EndAt / time.Millisecond)}
		c.Comments = append([]string(nil), it.Comments...)
		if it.InlineStyle != nil {
			c.Align, c.Line, c.Position = it.InlineStyle.WebVTTAlign, it.InlineStyle.WebVTTLine, it.InlineStyle.WebVTTPosition
			c.Size, c.Vertical = it.InlineStyle.WebVTTSize, it.InlineStyle.WebVTTVertical
		}
		if it.Region != nil {
			c.Region = it.Region.ID
			if s.Regions[it.Region.ID] != it.Region {
				return d, fmt.Sprintf("cue %d: its region %q is not the definition held by the region map", i, it.Region.ID)
			}
		}
		for _, l := range it.Lines {
			vl := vttLine{Voice: l.VoiceName}
			for _, li := range l.Items {
				r := vttRun{Text: li.Text}
				if li.StartAt%time.Millisecond != 0 {
					return d, "inline timestamp not on the ms grid"
				}
				r.StartAt = int64(li.StartAt / time.Millisecond)
				if li.InlineStyle != nil {
					for _, tg := range li.InlineStyle.WebVTTTags {
						r.Tags = append(r.Tags, vttTag{Name: tg.Name, Classes: append([]string(nil), tg.Classes...), Annotation: tg.Annotation})
					}
				}
				vl.Runs = append(vl.Runs, r)
			}
			c.Lines = append(c.Lines, vl)
		}
		d.Cues = append(d.Cues, c)
	}
	return d, ""
}

// toSubtitlesVTT converts the model to the public types (write direction).
// Each STYLE block becomes the WebVTTStyles of one style definition.
func toSubtitlesVTT(d vttDoc) *astisub.Subtitles {
	s := astisub.NewSubtitles()
	if d.TSMap != nil {
		s.Metadata = &astisub.Metadata{WebVTTTimestampMap: &astisub.WebVTTTimestampMap{Local: time.Duration(d.TSMap.LocalMs) * time.Millisecond, MpegTS: d.TSMap.MpegTS}}
	}
	for i, blk := range d.Styles {
		id := fmt.Sprintf("style-%c", 'a'+i)
		s.Styles[id] = &astisub.Style{ID: id, InlineStyle: &astisub.StyleAttributes{WebVTTStyles: append([]string(nil), blk...)}}
	}
	for _, rg := range d.Regions {
		s.Regions[rg.ID] = &astisub.Region{ID: rg.ID, InlineStyle: &astisub.StyleAttributes{
			WebVTTLines: rg.Lines, WebVTTRegionAnchor: rg.RegionAnchor, WebVTTScroll: rg.Scroll, WebVTTViewportAnchor: rg.ViewportAnchor, WebVTTWidth: rg.Width,
		}}
		if r := s.Regions[rg.ID]; len(rg.ID)%2 == 1 && (rg.Lines != 0 || rg.RegionAnchor != "" || rg.Width != "") {
			// some settings come from the region's style, the others are the region's own: each falls back on its own
			r.Style = &astisub.Style{ID: "region-settings-" + rg.ID, InlineStyle: &astisub.StyleAttributes{WebVTTLines: rg.Lines, WebVTTRegionAnchor: rg.RegionAnchor, WebVTTWidth: rg.Width}}
			r.InlineStyle.WebVTTLines, r.InlineStyle.WebVTTRegionAnchor, r.InlineStyle.WebVTTWidth = 0, "", ""
		}
	}
	for _, c := range d.Cues {
		it := &astisub.Item{StartAt: time.Duration(c.Start) * time.Millisecond, EndAt: time.Duration(c.End) * time.Millisecond, Index: c.ID}
		it.Comments = append([]string(nil), c.Comments...)
		if c.Align != "" || c.Line != "" || c.Position != "" || c.Size != "" || c.Vertical != "" {
			it.InlineStyle = &astisub.StyleAttributes{WebVTTAlign: c.Align, WebVTTLine: c.Line, WebVTTPosition: c.Position, WebVTTSize: c.Size, WebVTTVertical: c.Vertical}
			if n := len(c.Align) + len(c.Size) + len(c.Vertical); (c.Line != "" || c.Position != "") && n > 0 && c.Start%3 == 0 {
				// some settings come from the cue's style, the others are the cue's own: each falls back on its own
				it.Style = &astisub.Style{ID: fmt.Sprintf("cue-settings-%d", c.Start), InlineStyle: &astisub.StyleAttributes{WebVTTAlign: c.Align, WebVTTSize: c.Size, WebVTTVertical: c.Vertical}}
				it.InlineStyle.WebVTTAlign, it.InlineStyle.WebVTTSize, it.InlineStyle.WebVTTVertical = "", "", ""
			}
		}
		if c.Region != "" {
			it.Region = s.Regions[c.Region]
		}
		for _, l := range c.Lines {
			ln := astisub.Line{VoiceName: l.Voice}
			for _, r := range l.Runs {
				li := astisub.LineItem{Text: r.Text, StartAt: time.Duration(r.StartAt) * time.Millisecond}
				if len(r.Tags) > 0 {
					sa := &astisub.StyleAttributes{}
					for _, tg := range r.Tags {
						sa.WebVTTTags = append(sa.WebVTTTags, astisub.WebVTTTag{Name: tg.Name, Classes: append([]string(nil), tg.Classes...), Annotation: tg.Annotation})
					}
					li.InlineStyle = sa
				}
				ln.Items = append(ln.Items, li)
			}
			it.Lines = append(it.Lines, ln)
		}
		s.Items = append(s.Items, it)
	}
	return s
}

// ---------------------------------------------------------------------------
// Generators

var vttKeywords = []string{"NOTE ", "NOTE", "STYLE", "Region: ", "X-TIMESTAMP-MAP", "WEBVTT"}

var vttTextOpts = textOpts{
	extra:    []string{"&amp;", "&lt;", "&nbsp;", "&gt;", "<b>", "</i>", "<c.red>", "<v Bob>", "<00:00:01.000>", "NOTE", "STYLE", "Region:", "->", "--", "12", "7", "&", "<", "a<b", "x>y", "<3", "WEBVTT", "::cue", "NOTES", "NOTEBOOK:", "NOTE-", "STYLISH"},
	forbid:   []string{"-->"},
	controls: true,
	nbsp:     true,
}

// guardKeyword makes sure a physical line does not begin with a block keyword.
func guardKeyword(s string) string {
	for _, k := range vttKeywords {
		if k == "NOTE" {
			// the comment keyword is the word NOTE: alone, or followed by a blank ("NOTES", "NOTEBOOK" are text)
			if s == "NOTE" || strings.HasPrefix(s, "NOTE\t") {
				return "'" + s
			}
			continue
		}
		if strings.HasPrefix(s, k) {
			return "'" + s
		}
	}
	return s
}

var (
	vttTagNames    = []string{"b", "i", "u", "c", "lang", "ruby", "rt", "c", "i"}
	vttClassNames  = []string{"red", "big", "loud", "bg_blue", "x1", "Loud", "bgBlue", "UPPER", "é", "a-b", "大"}
	vttAnnotations = []string{"en", "fr-FR", "Bob", "Mr. Smith", "言語"}
	vttVoices      = []string{"Bob", "Esme", "Mr. Smith", "中文", "هذا عربي", "A.B"}
)

func genVTTTag(t *rapid.T) vttTag {
	tg := vttTag{Name: rapid.SampledFrom(vttTagNames).Draw(t, "tag")}
	nc := rapid.SampledFrom([]int{0, 0, 1, 2}).Draw(t, "nclasses")
	for i := 0; i < nc; i++ {
		tg.Classes = append(tg.Classes, rapid.SampledFrom(vttClassNames).Draw(t, "class"))
	}
	if tg.Name == "lang" || rapid.IntRange(0, 5).Draw(t, "annot") == 0 {
		tg.Annotation = rapid.SampledFrom(vttAnnotations).Draw(t, "annotation")
	}
	return tg
}

func genVTTDoc(t *rapid.T, write bool) vttDoc {
	d := vttDoc{}
	if rapid.IntRange(0, 3).Draw(t, "tsmap") == 0 {
		d.TSMap = &vttTSMap{LocalMs: genMs(t, "local"), MpegTS: rapid.Int64Range(0, 1<<33).Draw(t, "mpegts")}
	}
	cssLines := []string{"::cue {", "color: red;", "background: rgba(0,0,0,0.5) }", "::cue(b) { color: peru }", "}", "::cue(.loud) {", "font-size: 2em;", "/* c */ }"}
	nb := rapid.SampledFrom([]int{0, 0, 1, 1, 2, 3}).Draw(t, "styleblocks")
	for i := 0; i < nb; i++ {
		n := rapid.IntRange(1, 3).Draw(t, "csslines")
		var blk []string
		for j := 0; j < n; j++ {
			l := rapid.SampledFrom(cssLines).Draw(t, "css")
			if j == n-1 && !strings.HasSuffix(l, "}") {
				l += " }"
			}
			if j < n-1 && strings.HasSuffix(l, "}") && rapid.Bool().Draw(t, "keepclose") {
				// a line ending with '}' inside a block is fine: no blank line follows it
			}
			blk = append(blk, l)
		}
		if write {
			// distinguishable blocks
			blk[0] = fmt.Sprintf("/* %d */ %s", i, blk[0])
		}
		d.Styles = append(d.Styles, blk)
	}
	nr := rapid.SampledFrom([]int{0, 0, 1, 2, 3}).Draw(t, "regions")
	rids := []string{"Top", "fred", "top", "R-2", "a"} // identifiers are case-sensitive: Top and top are two regions
	for i := 0; i < nr; i++ {
		rg := vttRegion{ID: rids[i]}
		m := rapid.IntRange(0, 31).Draw(t, "rkeys")
		if m&1 > 0 {
			rg.Lines = rapid.IntRange(1, 9).Draw(t, "rlines")
		}
		if m&2 > 0 {
			rg.RegionAnchor = rapid.SampledFrom([]string{"0%,100%", "100%,100%", "50%,50%"}).Draw(t, "ranchor")
		}
		if m&4 > 0 {
			rg.Scroll = "up"
		}
		if m&8 > 0 {
			rg.ViewportAnchor = rapid.SampledFrom([]string{"10%,90%", "90%,90%", "0%,0%"}).Draw(t, "vanchor")
		}
		if m&16 > 0 {
			rg.Width = rapid.SampledFrom([]string{"40%", "100%", "33.3%"}).Draw(t, "width")
		}
		d.Regions = append(d.Regions, rg)
	}
	nc := rapid.IntRange(0, 8).Draw(t, "cues")
	if rapid.IntRange(0, 29).Draw(t, "big") == 0 {
		nc = rapid.IntRange(40, 100).Draw(t, "bigcues")
	}
	for i := 0; i < nc; i++ {
		c := vttCue{Start: genMs(t, "start"), End: genMs(t, "end")}
		if rapid.IntRange(0, 2).Draw(t, "hasid") > 0 {
			c.ID = rapid.IntRange(1, 9999).Draw(t, "id")
		}
		ncm := rapid.SampledFrom([]int{0, 0, 0, 1, 2, 3}).Draw(t, "ncomments")
		for j := 0; j < ncm; j++ {
			o := vttTextOpts
			o.controls = false
			cm := genText(t, o)
			if j > 0 {
				cm = guardKeyword(cm)
			}
			c.Comments = append(c.Comments, cm)
		}
		m := rapid.IntRange(0, 63).Draw(t, "settings")
		if rapid.Bool().Draw(t, "nosettings") {
			m = 0
		}
		if m&1 > 0 {
			c.Align = rapid.SampledFrom([]string{"start", "center", "end", "left", "right"}).Draw(t, "align")
		}
		if m&2 > 0 {
			c.Line = rapid.SampledFrom([]string{"0", "-1", "10%", "84%", "5,start", "12.5%", "33.33%,end"}).Draw(t, "line")
		}
		if m&4 > 0 {
			c.Position = rapid.SampledFrom([]string{"50%", "10%,line-left", "100%", "33.3%,line-left", "0.5%"}).Draw(t, "position")
		}
		if m&8 > 0 {
			c.Size = rapid.SampledFrom([]string{"80%", "35%", "100%", "62.5%"}).Draw(t, "size")
		}
		if m&16 > 0 {
			c.Vertical = rapid.SampledFrom([]string{"rl", "lr"}).Draw(t, "vertical")
		}
		if m&32 > 0 && len(d.Regions) > 0 {
			c.Region = rapid.SampledFrom(d.Regions).Draw(t, "region").ID
		} else if len(d.Regions) > 0 && rapid.IntRange(0, 2).Draw(t, "regiononly") == 0 {
			c.Region = rapid.SampledFrom(d.Regions).Draw(t, "region").ID
		}
		nl := rapid.IntRange(1, 3).Draw(t, "lines")
		var prevTags []vttTag
		for j := 0; j < nl; j++ {
			ln := vttLine{}
			if rapid.IntRange(0, 3).Draw(t, "voice") == 0 {
				ln.Voice = rapid.SampledFrom(vttVoices).Draw(t, "voicename")
			}
			nrn := rapid.IntRange(1, 4).Draw(t, "runs")
			joined := ""
			for k := 0; k < nrn; k++ {
				run := vttRun{Text: genText(t, vttTextOpts)}
				// tag stack: keep a prefix of the previous stack, then push 0..2 new tags (depth <= 3)
				keep := rapid.IntRange(0, len(prevTags)).Draw(t, "keep")
				if rapid.IntRange(0, 2).Draw(t, "plain") == 0 {
					keep = 0
				}
				run.Tags = append([]vttTag(nil), prevTags[:keep]...)
				push := rapid.SampledFrom([]int{0, 0, 1, 1, 2}).Draw(t, "push")
				for p := 0; p < push && len(run.Tags) < 3; p++ {
					run.Tags = append(run.Tags, genVTTTag(t))
				}
				if len(run.Tags) == 0 {
					run.Tags = nil
				}
				prevTags = run.Tags
				if rapid.IntRange(0, 4).Draw(t, "ts") == 0 {
					run.StartAt = 1 + genMs(t, "tsval")
				}
				if k > 0 && rapid.Bool().Draw(t, "lead") {
					run.Text = " " + run.Text
				}
				run.Text = fixJoin(joined, run.Text, vttTextOpts.forbid)
				joined += run.Text
				ln.Runs = append(ln.Runs, run)
			}
			if g := guardKeyword(joined); g != joined {
				ln.Runs[0].Text = "'" + ln.Runs[0].Text
			}
			c.Lines = append(c.Lines, ln)
		}
		d.Cues = append(d.Cues, c)
	}
	return d
}

func genPerm(t *rapid.T, n int, label string) []int {
	p := make([]int, n)
	for i := range p {
		p[i] = i
	}
	for i := n - 1; i > 0; i-- {
		j := rapid.IntRange(0, i).Draw(t, label)
		p[i], p[j] = p[j], p[i]
	}
	return p
}

func genVTTRendering(t *rapid.T) vttRendering {
	pads := []string{" ", " ", "  ", "\t"}
	r := vttRendering{
		EOL:             rapid.SampledFrom([]string{"\n", "\n", "\r\n", "\r\n", "\r"}).Draw(t, "eol"),
		BOM:             rapid.Bool().Draw(t, "bom"),
		HeaderTail:      rapid.SampledFrom([]string{"", "", "- Translation of that film I like", "file"}).Draw(t, "tail"),
		ShortTimes:      rapid.Bool().Draw(t, "short"),
		RegionsInHeader: rapid.IntRange(0, 3).Draw(t, "regionsinheader") == 0,
		IDs:             rapid.IntRange(0, 3).Draw(t, "ids") > 0,
		SettingsSep:     rapid.SampledFrom([]string{" ", " ", "\t", "  "}).Draw(t, "ssep"),
		SettingOrder:    genPerm(t, 6, "sperm"),
		RegionKeys:      genPerm(t, 5, "rperm"),
		RegionIDPos:     rapid.IntRange(0, 5).Draw(t, "ridpos"),
		RegionsLate:     rapid.Bool().Draw(t, "rlate"),
		FinalEOL:        rapid.Bool().Draw(t, "finaleol"),
		CarryTags:       rapid.Bool().Draw(t, "carry"),
		Reopen:          rapid.IntRange(0, 3).Draw(t, "reopen") == 0,
		Unterminated:    rapid.Bool().Draw(t, "unterm"),
		CloseVoice:      rapid.Bool().Draw(t, "closev"),
		NoteSplit:       rapid.Bool().Draw(t, "notesplit"),
		TSMapOrder:      rapid.Bool().Draw(t, "tsorder"),
		NBSPEntity:      rapid.Bool().Draw(t, "nbspent"),
		Padding:         []string{rapid.SampledFrom(pads).Draw(t, "padl"), rapid.SampledFrom(pads).Draw(t, "padr")},
	}
	nb := rapid.IntRange(1, 3).Draw(t, "nblank")
	for i := 0; i < nb; i++ {
		r.BlankLines = append(r.BlankLines, rapid.IntRange(1, 3).Draw(t, "blank"))
	}
	return r
}

package props

import (
	"bytes"
	"fmt"
	"strings"
	"testing"

	astisub "github.com/asticode/go-astisub"
	"pgregory.net/rapid"
)

// C01 - SubRip codec fidelity.

type c01ReadCase struct {
	Doc  srtDoc       `json:"doc"`
	Rend srtRendering `json:"rendering"`
}

type c01WriteCase struct {
	// Foreign: the list carries metadata of other formats; the file-level helper is exercised as well
	Foreign bool   `json:"foreign,omitempty"`
	Doc     srtDoc `json:"doc"`
}

func init() {
	register("c01read", checkC01Read)
	register("c01write", checkC01Write)
}

func checkC01Read(c c01ReadCase) string {
	b := renderSRT(c.Doc, c.Rend)
	s, err := astisub.ReadFromSRT(deliver(b))
	if err != nil {
		return fmt.Sprintf("reader rejected a well-formed document: %v\n--- document ---\n%q", err, clip(string(b), 600))
	}
	got, msg := projSRT(s)
	if msg != "" {
		return msg
	}
	if m := diffSRT(c.Doc, got); m != "" {
		return fmt.Sprintf("%s\n--- document (%d bytes) ---\n%q", m, len(b), clip(string(b), 600))
	}
	return rereadStable("srt", b, readOpts{}, s)
}

func checkC01Write(c c01WriteCase) string {
	s := toSubtitlesSRT(c.Doc)
	if c.Foreign {
		addForeignMetadata("srt", s)
		addForeignAttributes("srt", s)
		priorFailedWrite("srt", 5+len(s.Items)*37, len(s.Items)%3)
	}
	var buf bytes.Buffer
	err := s.WriteToSRT(&buf)
	if len(c.Doc.Cues) == 0 {
		if err != astisub.ErrNoSubtitlesToWrite {
			return fmt.Sprintf("writing an empty list returned %v, expected ErrNoSubtitlesToWrite", err)
		}
		return ""
	}
	if err != nil {
		return fmt.Sprintf("writer failed: %v", err)
	}
	out := buf.Bytes()
	// (a) the library's own reader
	s2, err := astisub.ReadFromSRT(bytes.NewReader(out))
	if err != nil {
		return fmt.Sprintf("library reader rejects the writer's output: %v\n--- output ---\n%q", err, clip(string(out), 600))
	}
	got, msg := projSRT(s2)
	if msg != "" {
		return msg
	}
	if m := diffSRT(c.Doc, got); m != "" {
		return fmt.Sprintf("re-read by the library: %s\n--- output ---\n%q", m, clip(string(out), 600))
	}
	// (b) independent decoder
	ind, err := decodeSRTIndep(out)
	if err != nil {
		return fmt.Sprintf("independent decoder rejects the writer's output: %v\n--- output ---\n%q", err, clip(string(out), 600))
	}
	if m := diffSRT(c.Doc, ind); m != "" {
		return fmt.Sprintf("independent decoder: %s\n--- output ---\n%q", m, clip(string(out), 600))
	}
	if c.Foreign {
		if m := fileWriteAgrees("srt", s); m != "" {
			return m
		}
	}
	return ""
}

func clip(s string, n int) string {
	if len(s) > n {
		return s[:n] + "..."
	}
	return s
}

func c01Labels(d srtDoc, r srtRendering, size int) (bool, []string) {
	var ls []string
	add := func(c bool, l string) {
		if c {
			ls = append(ls, l)
		}
	}
	styled, multiLineEmph, esc := false, false, false
	for _, c := range d.Cues {
		for li, l := range c.Lines {
			for _, run := range l {
				if run.B || run.I || run.U || run.Color != "" {
					styled = true
					if li > 0 && r.Carry {
						multiLineEmph = true
					}
				}
				if strings.ContainsAny(run.Text, "&< ") {
					esc = true
				}
			}
		}
	}
	add(r.EOL == "\r\n", "eol-crlf")
	add(r.EOL == "\r", "eol-cr")
	add(r.BOM, "bom")
	add(r.Index == 1, "index-absent")
	add(r.Index >= 2, "index-garbage")
	add(r.PadL != " " || r.PadR != " ", "arrow-padding")
	add(styled, "styled-run")
	add(multiLineEmph, "multi-line-emphasis")
	add(styled && r.Unterm && r.Carry, "unterminated")
	add(esc, "escape")
	add(size > 4096, "over-4096-bytes")
	add(r.EOFBlank > 0, "eof-blank-lines")
	add(r.Sep == ".", "dot-separator")
	add(r.Coords, "coordinates")
	return len(d.Cues) > 0 && len(ls) > 0, ls
}

// decorateNBSP puts no-break spaces at the edges of some runs and makes some runs consist of nothing else
// (spacer runs between two styled words, spacer lines); it reports whether it changed anything.
func decorateNBSP(t *rapid.T, d *srtDoc) bool {
	changed := false
	for ci := range d.Cues {
		for li := range d.Cues[ci].Lines {
			for ri := range d.Cues[ci].Lines[li] {
				run := &d.Cues[ci].Lines[li][ri]
				switch rapid.IntRange(0, 11).Draw(t, "nbspdeco") {
				case 0:
					run.Text = "\u00a0" + run.Text
				case 1:
					run.Text += "\u00a0"
				case 2:
					run.Text = strings.Repeat("\u00a0", rapid.IntRange(1, 2).Draw(t, "nbspn"))
				default:
					continue
				}
				changed = true
			}
		}
	}
	return changed
}

func TestC01(t *testing.T) {
	runWitnesses(t, "C01")
	cliConvertCases(t, "C01", "srt")
	rapidCheck(t, "C01/read", tier(4000, 400000), func(rt *rapid.T) {
		c := c01ReadCase{Doc: genSRTDoc(rt, srtTextOpts), Rend: genSRTRendering(rt)}
		if decorateNBSP(rt, &c.Doc) {
			// a no-break space at the edge of a run is only denoted by the entity (a literal one is white space to SubRip readers)
			c.Rend.NBSPEntity = true
		}
		if len(c.Doc.Cues) > 0 && rapid.IntRange(0, 24).Draw(rt, "huge") == 1 {
			// a document above 64 KiB (the default limit of a line scanner applies to lines, not to documents)
			base := c.Doc.Cues
			before := len(renderSRT(c.Doc, c.Rend))
			c.Doc.Cues = append(c.Doc.Cues, base...)
			for k := 70000 / (len(renderSRT(c.Doc, c.Rend)) - before + 1); k > 0; k-- {
				c.Doc.Cues = append(c.Doc.Cues, base...)
			}
		}
		aligned := false
		if len(c.Doc.Cues) > 0 && strings.Contains(c.Rend.EOL, "\r") && rapid.IntRange(0, 5).Draw(rt, "align") == 0 {
			aligned = alignCR(rt, func() []byte { return renderSRT(c.Doc, c.Rend) }, func(n int) {
				c.Doc.Cues[0].Lines[0][0].Text += strings.Repeat("x", n)
			})
		}
		b := renderSRT(c.Doc, c.Rend)
		nt, ls := c01Labels(c.Doc, c.Rend, len(b))
		if aligned {
			ls = append(ls, "cr-at-end-of-4096-byte-block")
		}
		if len(b) > 65536 {
			ls = append(ls, "over-64KiB")
		}
		ev.Case(nt, string(b), append(ls, "read")...)
		if nt && len(c.Doc.Cues) <= 3 {
			ev.Sample("read", map[string]any{"document": string(b), "model": c.Doc})
		}
		verdict(rt, "C01", "c01read", c, checkC01Read)
	})
	rapidCheck(t, "C01/write", tier(2000, 200000), func(rt *rapid.T) {
		o := srtTextOpts
		c := c01WriteCase{Doc: genSRTDoc(rt, o), Foreign: rapid.IntRange(0, 2).Draw(rt, "foreign") == 0}
		decorateNBSP(rt, &c.Doc)
		nt, ls := c01Labels(c.Doc, srtRendering{PadL: " ", PadR: " "}, 0)
		ev.Case(nt, fmt.Sprintf("w%v", c.Doc), append(ls, "write")...)
		if nt && len(c.Doc.Cues) <= 2 {
			ev.Sample("write", c.Doc)
		}
		verdict(rt, "C01", "c01write", c, checkC01Write)
	})
}

module verifharness

go 1.23

require (
	github.com/asticode/go-astisub v0.0.0
	golang.org/x/text v0.3.2
	pgregory.net/rapid v1.3.0
)

require (
	github.com/asticode/go-astikit v0.20.0 // indirect
	github.com/asticode/go-astits v1.8.0 // indirect
	golang.org/x/net v0.0.0-20200904194848-62affa334b73 // indirect
)

replace github.com/asticode/go-astisub => /repo

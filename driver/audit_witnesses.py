#!/usr/bin/env python3
"""For every fixed finding: its witness must fail on the parent of the fix commit and pass on the current tree.
Uses scratch worktrees under /tmp (removed afterwards). Writes /verif/witness/AUDIT.txt."""
import json, os, subprocess, sys, tempfile
ROOT = os.path.dirname(os.path.dirname(os.path.abspath(__file__)))
d = json.load(open(os.path.join(ROOT, "known_findings.json")))
lines = []
bad = 0
by_commit = {}
for f in d["findings"]:
    if f["status"] == "fixed":
        by_commit.setdefault(f["commit"], []).append(f)
for commit, fs in by_commit.items():
    w = tempfile.mkdtemp(prefix="audit.", dir="/tmp")
    os.rmdir(w)
    subprocess.run(["git", "-C", "/repo", "worktree", "add", "-q", "--detach", w, commit + "^"], check=True)
    try:
        for f in fs:
            env = dict(os.environ, VERIF_REPO=w)
            r = subprocess.run([os.path.join(ROOT, "check"), f["property"], "--replay", os.path.join(ROOT, f["witness"])], env=env, stdout=subprocess.PIPE, stderr=subprocess.STDOUT, text=True)
            before = r.returncode
            r2 = subprocess.run([os.path.join(ROOT, "check"), f["property"], "--replay", os.path.join(ROOT, f["witness"])], stdout=subprocess.PIPE, stderr=subprocess.STDOUT, text=True)
            after = r2.returncode
            ok = before == 1 and after == 0
            bad += 0 if ok else 1
            lines.append("%s %-4s %-48s fails-before-fix(%s^)=%s passes-now=%s" % ("ok " if ok else "BAD", f["property"], f["id"], commit, before == 1, after == 0))
            print(lines[-1], flush=True)
    finally:
        subprocess.run(["git", "-C", "/repo", "worktree", "remove", "--force", w])
subprocess.run("rm -rf %s/.build/alt-*" % ROOT, shell=True)
open(os.path.join(ROOT, "witness", "AUDIT.txt"), "w").write("\n".join(lines) + "\n")
sys.exit(1 if bad else 0)

#!/bin/bash
# Evaluate a seeded change: seedcheck.sh <property id> <patch file> [tier]
# Applies the patch in a scratch worktree of /repo (outside /repo and /verif), runs the property's check against
# that tree, removes the worktree. Exit status is the check's (1 = the check caught the change).
set -u
PID=$1; PATCH=$(readlink -f "$2"); TIER=${3:-quick}
W=$(mktemp -d /tmp/seedcheck.XXXXXX)
rmdir "$W"
git -C /repo worktree add -q --detach "$W" HEAD || exit 2
if ! git -C "$W" apply "$PATCH" 2>/dev/null && ! git -C "$W" apply -3 "$PATCH"; then echo "patch does not apply"; git -C /repo worktree remove --force "$W"; exit 2; fi
export GOFLAGS=-mod=mod GOPROXY=off GOSUMDB=off GOTOOLCHAIN=local
(cd "$W" && go build ./... && go test -vet=off -count=1 ./... >/dev/null 2>&1) || { echo "patched tree does not build or its own tests fail"; git -C /repo worktree remove --force "$W"; exit 2; }
VERIF_REPO="$W" "$(dirname "$0")/../check" "$PID" --tier "$TIER"
RC=$?
git -C /repo worktree remove --force "$W"
TAG=$(printf %s "$W" | sha1sum | cut -c1-8)
rm -rf "$(dirname "$0")/../.build/alt-$TAG" $(dirname "$0")/../.build/*-"$TAG" 2>/dev/null
exit $RC

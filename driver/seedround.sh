#!/bin/bash
# seedround.sh <round> <letter>: import (driver/seedimport.sh) and evaluate (driver/seedcheck.sh) every seed a sub-agent
# left in /tmp/seed<round>-<letter>/seed (files PID_patchK.diff, PID_demoK_test.go, PID_metaK.json).
R=$1; L=$2; DIR=/tmp/seed$R-$L/seed
for META in $DIR/C*_meta*.json; do
  B=$(basename $META .json); PID=${B%%_*}; K=${B##*meta}
  NAME=$PID-r$R-$(jq -r .name $META | tr -c 'a-z0-9-\n' '-' | cut -c1-60)
  /verif/driver/seedimport.sh $PID $DIR $K $NAME || continue
  /verif/driver/seedcheck.sh $PID /verif/seeded/$NAME/patch.diff > /tmp/seedcheck.$NAME.log 2>&1
  echo "exit=$? $NAME"; grep -a -A1 "VIOLATION" /tmp/seedcheck.$NAME.log | grep -av VIOLATION | head -1 | cut -c1-250
done

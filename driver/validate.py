#!/usr/bin/env python3
"""Validates MANIFEST.json and evidence/*.json against the schemas (needs jsonschema: run with python3-vt)."""
import glob, json, sys
import jsonschema
m = json.load(open('/verif/MANIFEST.json')); s = json.load(open('/root/.vp/MANIFEST.schema.json'))
jsonschema.validate(m, s); print("manifest valid")
es = json.load(open('/root/.vp/EVIDENCE.schema.json'))
for f in sorted(glob.glob('/verif/evidence/*.json')):
    e = json.load(open(f)); jsonschema.validate(e, es); print("evidence valid", f, e["tier"], e["coverage"]["evaluations"], e["coverage"]["distinct_nontrivial"], e.get("wall_s"))

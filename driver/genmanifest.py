#!/usr/bin/env python3
"""Regenerates /verif/MANIFEST.json from driver/props.py (run after editing the table)."""
import json
import os
import sys

ROOT = os.path.dirname(os.path.dirname(os.path.abspath(__file__)))
sys.path.insert(0, os.path.dirname(os.path.abspath(__file__)))
from props import PROPS, NOT_APPLICABLE, HOOK_COMMITS  # noqa: E402

ids = [json.loads(l)["id"] for l in open(os.path.join(ROOT, "properties.jsonl")) if l.strip()]
checks = []
for pid in ids:
    if pid not in PROPS:
        continue
    p = PROPS[pid]
    checks.append({
        "property_id": pid,
        "quick_cmd": "./check %s --tier quick" % pid,
        "thorough_cmd": "./check %s --tier thorough" % pid,
        "evidence_file": "/verif/evidence/%s.json" % pid,
        "replay_cmd_template": "./check %s --replay {path}" % pid,
        "engine": "rapid-props",
        "level_claimed": {"category": p["level"], "text": p["text"], "design_ref": p["design"]},
        "level_note": p["note"],
        "technique": p["technique"],
    })
na = []
for pid in ids:
    if pid not in PROPS:
        na.append({"property_id": pid, "reason": NOT_APPLICABLE.get(pid, "check not built yet (work in progress in this session); nothing is claimed for it")})
m = {
    "version": 1,
    "setup_cmd": "./check build",
    "hooks": {
        "guard": "verif",
        "enable": "go test -tags verif (harness module /verif/harness with replace github.com/asticode/go-astisub => /repo); no hook is needed: all checks use the exported API and the built CLI",
        "baseline_off_cmd": "cd /repo && go test -vet=off -count=1 ./...",
        "source_commits": HOOK_COMMITS,
        "add_only": True,
    },
    "engines": [
        {"name": "rapid-props", "path": "/verif/harness/props", "serves_properties": [c["property_id"] for c in checks],
         "kind_free_text": "property-based tests (pgregory.net/rapid v1.3.0) + exhaustive small-grid enumerators + Go native fuzz targets, driven and sharded by /verif/driver/verifctl.py"},
    ],
    "checks": checks,
    "not_applicable": na,
    "notes": "Every check: ./check CNN --tier quick|thorough (VERIF_SEED honoured). Exit 0 held / 1 VIOLATION / 2 inconclusive. Known findings: /verif/known_findings.json.",
}
with open(os.path.join(ROOT, "MANIFEST.json"), "w") as f:
    json.dump(m, f, indent=1)
    f.write("\n")
print("MANIFEST.json: %d checks, %d not_applicable" % (len(checks), len(na)))

#!/bin/bash
# seedbatch.sh <property id> <name1> <name2> [seed dir]: import both seeds and evaluate them
PID=$1; DIR=${4:-/tmp/seed-$PID/seed}
for K in 1 2; do
  NAME=$PID-$(eval echo \${$((K+1))})
  /verif/driver/seedimport.sh $PID $DIR $K $NAME || continue
  echo "== check $NAME"
  /verif/driver/seedcheck.sh $PID /verif/seeded/$NAME/patch.diff > /tmp/seedcheck.$NAME.log 2>&1
  echo "exit=$?"; grep -a "VIOLATION\|^OK\|INCONCLUSIVE" /tmp/seedcheck.$NAME.log | head -2 | cut -c1-200; grep -a -A1 "VIOLATION" /tmp/seedcheck.$NAME.log | grep -av VIOLATION | head -1 | cut -c1-300
done

"""Per-property configuration used by verifctl.py and genmanifest.py."""

COMMON_ASSUME = [
    "the harness is built against /repo's current working tree through a go.mod replace directive (public API only, no hooks)",
    "Go toolchain go1.23.5 and pgregory.net/rapid v1.3.0 behave as documented; every random choice is drawn from rapid generators seeded from VERIF_SEED",
]


def P(test, level, rule, assumptions, shards=(4, 16), timeout=(900, 5400), technique="", text="", note="", design="", **kw):
    d = dict(test=test, level=level, rule=rule, assumptions=COMMON_ASSUME + assumptions,
             shards={"quick": shards[0], "thorough": shards[1]},
             timeout={"quick": timeout[0], "thorough": timeout[1]},
             technique=technique, text=text, note=note, design=design)
    d.update(kw)
    return d


PROPS = {
    "C09": P(
        "TestC09", "exploration",
        "cases = (cue list, shift d, spare slice capacity); exhaustive grid: every list of <=3 cues with 0<=s<=e<=4 ms x d in -6..3 ms; "
        "random: rapid lists of 0..8 cues (ns and ms granularity, up to 24 h) with d biased to cue boundaries +-1ns. "
        "Non-trivial = at least one cue removed or clamped; distinct = hash of (list, d, capacity).",
        ["the executable specification of Add in c09_test.go is a faithful transcription of property C09 (start<=end precondition as stated)"],
        shards=(2, 16), cli=True, technique="property-based testing against an executable specification (exhaustive small grid + rapid random cases), pointer identity and deep content snapshots; the sub-command of the CLI binary vs. the same step through the library (subprocess, byte-identical output or common failure)",
        text="Every (list,d) on the small grid is enumerated and compared with a from-the-statement specification, then random lists at ns/ms granularity; a green run means no counterexample in that space, the grid part is complete.",
        note="Trusted: the 25-line specification in the harness, Go reflect.DeepEqual, rapid.",
        design="5/C09", exhaustive_note=True),
    "C10": P(
        "TestC10", "exploration",
        "cases = (start-ordered cue list, period f, spare slice capacity); exhaustive: every start-ordered list of <=3 cues on the 0..9 ms grid "
        "(thorough: also 4 cues on 0..6) with two texts x f in 1..5 ms x capacity in {len, len+3}; random: rapid lists of 0..10 cues at ms/ns granularity with at most 5000 pieces. "
        "Some cues reference a style / region that is another object than the one the list declares under the same identifier. Non-trivial = some cue is cut AND (cues overlap/nest OR the last-listed cue is not the one ending last); distinct = hash of the case.",
        ["the per-cue cutting specification in c10_test.go transcribes property C10; lists are start-ordered and f>0 as the property requires"],
        shards=(8, 16), cli=True, technique="property-based testing against an executable per-cue cutting specification (exhaustive grids + rapid), multiset/ordering/identity oracle; the sub-command of the CLI binary vs. the same step through the library (subprocess, byte-identical output or common failure)",
        text="The grids named in the property are enumerated completely (3 cues on 0..9 in both tiers, 4 cues on 0..6 in thorough) with both slice-capacity variants, and random larger lists follow; every output is compared with the specification as a multiset, for order, for the no-interior-multiple invariant and for content/identity of every piece.",
        note="Trusted: the specification (15 lines), rapid. Negative times are outside the property.",
        design="5/C10", exhaustive_note=True),
    "C11": P(
        "TestC11", "exploration",
        "cases = cue list in any order (1..3 distinct texts incl. a two-line text) for the specification; (start-ordered list free of touching same-text cues, period f) for the inverse law. "
        "Exhaustive: every list of <=3 cues on the 0..4 ms grid (thorough: <=4 cues on 0..3) x 3 texts; random: rapid lists of 0..9 cues. "
        "Roll-up variant: the cues' Lines are slices of shared backing arrays cut at different lengths (every list of <=2 cues on the grid, thorough <=3; one random case in four). Non-trivial = a merge happens together with >=2 texts or unordered input (specification), or some cue is cut by Fragment (inverse); distinct = hash of the case.",
        ["texts never contain the ' - ' line joiner, so equality of Item.String() is equality of text", "the inverse law relies on Fragment (C10)"],
        shards=(4, 16), cli=True, technique="property-based testing against an executable specification (connected components per text), a second display-equivalence oracle, and the metamorphic law Unfragment(Fragment(L,f)) = L; the sub-command of the CLI binary vs. the same step through the library (subprocess, byte-identical output or common failure)",
        text="Component-based specification compared position by position with pointer identity; independently the set of texts on screen at every boundary instant is compared before/after; the Fragment/Unfragment round trip is checked on generated lists satisfying its precondition by construction.",
        note="Trusted: the specification (20 lines), Fragment for the inverse law, rapid.",
        design="5/C11", exhaustive_note=True),
    "C12": P(
        "TestC12", "exploration",
        "cases = (list A) for Order; (A, B, style ids, region ids of both sides drawn from {a,b,c,d}, receiver/argument built with or without the constructor) for Merge; rapid random. "
        "Non-trivial = Order: equal starts and unordered input; Merge: equal starts across the two lists, or an identifier clash, or a nil-map receiver that must receive definitions. distinct = hash of the case.",
        ["a receiver 'built without the constructor' is &Subtitles{} whose maps are nil unless it has definitions of that kind itself"],
        shards=(2, 16), cli=True, technique="property-based testing against an executable specification (stable sort / ordered union with pointer identity, deep snapshot of the argument); the sub-command of the CLI binary vs. the same step through the library (subprocess, byte-identical output or common failure)",
        text="Order and Merge results are compared with sort.SliceStable over the tagged inputs; map union and receiver-wins are checked by pointer; the argument is compared with a snapshot taken before the call.",
        note="Trusted: Go's sort.SliceStable as the reference for stability, rapid.",
        design="5/C12"),
    "C14": P(
        "TestC14", "exploration",
        "cases = (well-formed timeline, d >= 1 ms, filler flag); exhaustive: every timeline of <=4 cues on the 0..8 ms grid with ordered starts and non-decreasing ends x d in 1..10 ms x filler; "
        "random: rapid timelines of 0..8 cues made well-formed by construction, d placed on/next to boundaries, inside cues, in gaps, after the end. "
        "Non-trivial = non-empty list whose duration differs from d; distinct = hash of the case; labels record the d-placement classes.",
        ["precondition of the property (ordered starts, non-decreasing ends, d >= 1 ms) is enforced by construction"],
        shards=(8, 16), technique="property-based testing against an executable specification (exhaustive small grid + rapid), pointer identity of untouched cues",
        text="Specification written from the statement; all d-placement classes named in the quantifier are labelled and counted; the grid is complete.",
        note="Trusted: the specification (25 lines), rapid.",
        design="5/C14", exhaustive_note=True),
    "C15": P(
        "TestC15", "exploration",
        "cases = (cue list with boundaries in [0,24h] at ns/ms granularity, quadruple a1,d1,a2,d2 with a1 != a2); slopes: the named ratios 25/23.976, 23.976/25, 30/29.97, 29.97/30, 24/23.976, 24/25, 25/24, 1/2, 2, 1 (and +-2 ns neighbours) or uniform in [0.5,2]; a probe cue [a1,a2) is appended so that a1->d1, a2->d2 are observed. "
        "Non-trivial = non-empty list and d1 != d2; distinct = hash of the case.",
        ["boundaries and reference points within [0,24h]; tolerance 1 us per boundary (2 us per length) as the property states"],
        shards=(2, 16), cli=True, technique="property-based testing against exact rational arithmetic (math/big), order-preservation and length-scaling relations; the sub-command of the CLI binary vs. the same step through the library (subprocess, byte-identical output or common failure)",
        text="Every mapped boundary is compared with the exact rational value of the affine map; order preservation and length scaling are checked on all pairs.",
        note="Trusted: math/big, rapid.",
        design="5/C15"),
    "C01": P(
        "TestC01", "exploration",
        "read: case = (ground-truth SubRip model, rendering); model = 0..8 cues (1 in 25: 40..120 cues so the document crosses the 4096-byte scanner buffer), times on the ms grid in [0,100h), 1..3 lines, 1..3 runs with style subset of {b,i,u,colour}, Unicode text classes (ASCII, punctuation incl. & < >, Latin, CJK, RTL, combining, non-BMP, controls, NBSP, tag/entity look-alikes); "
        "rendering = EOL LF/CRLF/CR, BOM, index present/absent/non-numeric/wrong, 1..3 blank lines, 0..3 at EOF, final EOL, ',' or '.', 1-3 fraction digits, padding around -->, coordinates, tag case, colour quoting, emphasis carried over runs/lines or closed per run, unterminated at cue end, entity choices. "
        "write: case = model converted to the public types. Non-trivial = >=1 cue and >=1 rendering/styling feature (labels); distinct = hash of the rendered bytes (read) or of the model (write).",
        ["N1-N3 of DESIGN.md: adjacent same-style runs are one run, no Unicode white space at line edges, no line terminators or '-->' inside text",
         "the independent SubRip decoder in c01_indep_test.go (own line splitter, timing grammar, tag scanner, single-pass entity table) is correct for the writer's dialect"],
        shards=(4, 16), cli=True, technique="model-based property testing: ground-truth model x rendering -> reader compared with the model; writer output decoded by the library reader and by an independent SubRip decoder (round trip + differential); the command-line tool converting a generated document vs. the same conversion through the library (subprocess, byte-identical output or common failure)",
        text="The expected parse result is known by construction (the harness renders the bytes itself), so reader fidelity is decided against ground truth rather than against the implementation; writer fidelity is decided by two decoders, one of them independent.",
        note="Trusted: the renderer and the independent decoder in the harness, rapid.",
        design="5/C01"),
    "C02": P(
        "TestC02", "exploration",
        "read: case = (ground-truth WebVTT model, rendering); model = optional X-TIMESTAMP-MAP, 0..3 STYLE blocks, 0..3 regions (subset of 5 attributes), 0..8 cues (1 in 30: 40..100) with optional numeric id, 0..3 comment lines, cue-settings subset, region reference, 1..3 lines with optional voice and 1..4 runs; run = tag stack of depth 0..3 over {b,i,u,c,lang,ruby,rt} with 0..2 classes and optional annotation (consecutive stacks share a prefix: proper nesting, incl. same name with different classes / parent), optional inline timestamp, Unicode text classes; "
        "rendering = EOL kinds, BOM, header tail, mm:ss.ttt vs hh:mm:ss.ttt, ids present/absent, tab/space before settings, setting and region-key permutations, regions in the header or right before first use, NOTE blocks split or joined, tags closed per line or carried to the next line, minimal transition or close-all/reopen, unterminated at cue end, </v> present/absent, blank-line counts, final EOL. "
        "One read case in three turns runs that sit between two differently tagged runs, inside an open tag, into a single blank. write: the model converted to the public types (each STYLE block its own style definition, cues with a region but no inline style included). Non-trivial = >=1 cue and >=1 feature label; distinct = hash of the rendered bytes (read) / model (write).",
        ["N1-N3 of DESIGN.md; cue text / comment / CSS lines do not begin with NOTE, STYLE, 'Region: ', X-TIMESTAMP-MAP and contain no '-->'; one voice per line, voice tag first; numeric identifiers; an inline timestamp is written directly before the text it marks",
         "STYLE blocks coming from distinct style definitions may be written in any block order (C19 decides determinism)",
         "the independent WebVTT decoder in c02_indep_test.go implements the library's documented dialect (old-style 'Region:' lines)"],
        shards=(4, 16), cli=True, technique="model-based property testing: ground-truth model x rendering -> reader compared with the model; writer output decoded by the library reader and by an independent WebVTT decoder that also checks region-definition order; the command-line tool converting a generated document vs. the same conversion through the library (subprocess, byte-identical output or common failure)",
        text="Reader fidelity is decided against a ground truth known by construction; writer fidelity by two decoders, the independent one rejecting mis-nested tags, non-numeric identifiers and region references that precede their definition.",
        note="Trusted: renderer and independent decoder in the harness, rapid.",
        design="5/C02"),
    "C03": P(
        "TestC03", "exploration",
        "read: case = (ground-truth TTML model, rendering); model = xml:lang (5 mapped + en-GB, fr-CA, de, none), title, copyright, ttp:frameRate in {absent,24,25,30,50,60}, ttp:tickRate in {absent,1,1000,90000,1e7}, 0..5 styles whose parent links form a forest (shared parents, children listed before parents), 0..3 regions with optional style, 0..6 cues with optional region/style/inline tts:* subset (24 attributes), 1..3 lines, 1..3 runs (span with optional style+attrs, or anonymous text), each boundary in a generated time-expression syntax (hh:mm:ss, hh:mm:ss.f{1,3}, hh:mm:ss:ff, N[.N]h|m|s|ms, Nf, Nt) whose exact value is computed in math/big; "
        "rendering = no indentation / 2 / 4 spaces / tab with children of <p> on their own lines or not, CRLF, <br/> between spans, inside a span, as first child, <br></br>, tts: / other / no prefix, xml:id vs id, XML declaration, named vs numeric character references, one or two divs. Plus an exhaustive pass over the time syntaxes (every frame number below the rate for 5 rates, every 1-3 digit fraction in 5 forms). "
        "write: model converted to the public types, written with indent default/""/tab/2 spaces. One written list in four has identifiers that are not NCNames (leading digit, - or .). Non-trivial = >=1 cue and >=1 feature label; distinct = hash of rendered bytes / model.",
        ["N1, N3 of DESIGN.md; no white-space-only character data between two spans of a line, anonymous text does not start a source line, no raw newline inside character data; integer frame and tick counts in Nf / Nt",
         "tolerance for every boundary: |got - exact| < 1 ns",
         "the independent decoder is a raw encoding/xml token walk (allowed by the property) with its own time evaluator and br/span walker"],
        shards=(4, 16), cli=True, technique="model-based property testing with exact rational time semantics (math/big): ground-truth model x rendering -> reader; writer output decoded by the library reader and an independent encoding/xml token walker; the command-line tool converting a generated document vs. the same conversion through the library (subprocess, byte-identical output or common failure)",
        text="Time expressions are evaluated exactly by the harness and compared with the reader to < 1 ns; structure (lines, runs, references by identity with the map entries, inheritance links of every child) against ground truth; writer fidelity by two decoders.",
        note="Trusted: renderer, rational evaluator and token-walk decoder in the harness; encoding/xml as XML parser; rapid.",
        design="5/C03", exhaustive_note=True),
    "C04": P(
        "TestC04", "exploration",
        "read: case = (ground-truth SSA model, rendering); model = subset of the 15 script-info fields (values with ':' and ','), ';' comments, 0..4 styles over a drawn subset of the 23 attribute columns (booleans, 32-bit colours incl. alpha >= 0x80, 1/1000-grid floats, ints), 0..6 Dialogue events (cs-grid times, layer/marked, margins, effect, speaker, style reference, 1..3 lines of 1..3 runs with optional {...} override blocks, commas in text); "
        "rendering = permutation of the style columns (Name anywhere), permutation/subset of the event columns with Text last, section-name case / 'V4 Styles+', v4 vs v4+ layout, H:MM:SS.cc vs HH:MM:SS.cc, colours decimal / negative decimal / &H hex (6-8 digits, both cases), TertiaryColour vs OutlineColour, \\N vs \\n, EOL kinds, BOM, junk lines, unknown sections, comments inside sections, non-Dialogue events, '*'-prefixed style references, 'Key: v' vs 'Key:v'. "
        "Events without a style may name a style the script does not define (Ghost, default, Defaults). write: model with heterogeneous style attribute sets, v4 and v4+; checks library re-read, independent decoder and W(R(W(m))) == W(m). Non-trivial = >=1 event and >=1 feature label; distinct = hash of rendered bytes / model.",
        ["run text contains no braces and no \\N / \\n sequences; no white space at line edges; every override block is followed by text; Name/Effect/Style cells contain no comma; Style rows carry no blanks after commas (as the specification writes them)",
         "N4: booleans compare by effective value (absent = false); N5: floats on the 1/1000 grid",
         "the independent Format-driven decoder treats an empty cell as 'absent' and any non-zero boolean as true"],
        shards=(4, 16), cli=True, technique="model-based property testing: ground-truth model x rendering -> reader; writer output decoded by the library reader and an independent Format-driven decoder; write/read/write byte idempotence; the command-line tool converting a generated document vs. the same conversion through the library (subprocess, byte-identical output or common failure)",
        text="Every style attribute is taken from the column its Format line assigns under generated column permutations; the writer is checked by two decoders and by the byte-level idempotence law.",
        note="Trusted: renderer and independent decoder in the harness, rapid.",
        design="5/C04"),
    "C05": P(
        "TestC05", "exploration",
        "read: case = (ground-truth STL model, ignore-programme-start option); model = GSI fields (printable ASCII within field widths, dates, language codes mapped and unmapped), frame rate 25/30, display standard 0/1/2, programme-start timecode, 0..6 TTI blocks with timecodes h:m:s:f (pool + uniform, at or after the programme start), VP, JC 0..3, 1..3 rows of 1..3 runs, text over the Latin table (atoms, any single-byte graphic character, diacritic x letter pairs), open-subtitling italic/underline/boxing code sequences or teletext colour / double-height codes inside start/end boxes, blanks around runs, interleaved and trailing user-data blocks (EBN 0xFE); the harness encodes GSI/TTI and ISO 6937 itself. "
        "write: cue lists with metadata present / nil / inherited from another format; cycle: read then write, TCI/TCO bytes compared. Exhaustive passes: every single-byte graphic character and all 13 diacritics x 52 letters (read under DSC 0 and 1, written under DSC 0), every frame number at both rates with three programme-start offsets. Non-trivial = >=1 cue and >=1 of {30 fps, DSC != 0, TCP != 0, diacritic, style code, user-data block, multi-row}; distinct = hash of the case.",
        ["inter-run blanks are not part of the denotation (runs compared with white space removed); EBN 0xFF for subtitle blocks, comment flag 0, cumulative status 0; only the Latin code table (the only one the library implements)",
         "boundaries: |got - exact| < 1 ns where exact = (h,m,s + f/rate) - programme start, in math/big",
         "written cue instants lie inside their frame (exact frame instant rounded up to the ns); the library's documented defaults apply when the list carries no STL metadata",
         "known findings (known_findings.json): '$' written as 0x24; text under a teletext display standard is written without start box - for those two classes exactly the affected comparison is skipped / the character is not generated, and counted"],
        shards=(4, 16), cli=True, technique="model-based property testing with an independent Tech 3264 encoder/decoder (own GSI/TTI layout, own ISO 6937 table, exact rational timecodes); round trip, differential decoding and read-write timecode invariance; the command-line tool converting a generated document vs. the same conversion through the library (subprocess, byte-identical output or common failure)",
        text="Files are encoded by the harness from a ground-truth model, so reader fidelity (metadata, timecodes to < 1 ns, rows, runs, styles, diacritic composition) is decided against ground truth; writer output is decoded by the library and by the harness's own decoder; the character table and the frame-number domain are enumerated completely.",
        note="Trusted: the harness's Tech 3264 field table and ISO 6937 table (typed from the standard), x/text NFC, rapid.",
        design="5/C05", exhaustive_note=True),
    "C06": P(
        "TestC06", "exploration",
        "case = ground-truth page schedule x multiplexing x reader options; schedule = selected page M/TU (decimal digits, magazine 1..8), 1..5 instances with increasing PTS (some erase-only), 1..4 rows at distinct rows 1..24, row = colour/size codes before the start box, boxed segments that begin where a colour (0..7) or size (0x0c..0x0f) code changes state, text over G0 incl. the 13 national-option positions, national option C12-C14 per instance (7 Latin sub-sets), parity errors injected in text cells; "
        "header control bits C7-C10 and page sub-code vary per instance; PES data identifier 0x10..0x1f; multiplexing = serial or parallel magazine mode, interleaved page of another magazine (parallel), same page number in another magazine, terminating page of the same magazine (or any magazine in serial mode) with its own rows, page with hexadecimal digits aliasing tens*10+units, 0xFF time-filling headers, stuffing and non-subtitle data units carrying look-alike packets, X/26 X/27 8/30 and other magazines' X/28 M/29, instance split over two PES packets, a second teletext PID with the same page, non-teletext streams first in the PMT, PAT/PMT repeated, PES before the first instance / after the last one moving the time origin; reader options page and PID given or detected. "
        "Non-trivial = every stream with >=1 instance (labels record the classes); distinct = hash of the case.",
        ["encoder written from ETS 300 706 / EN 300 472 / ISO 13818-1 in the harness (Hamming 8/4 from the parity equations, odd parity, CRC-32/MPEG); national sub-sets typed from table 36, where the standard has arrows/bars (5 glyphs) the de-facto telxcc approximations are accepted too",
         "rows of the selected page directly follow its header (before any terminating header); no row number is repeated within an instance; every row has boxed text; X/28 and M/29 of the selected magazine are C08's subject",
         "time tolerance 1 ns (two floor divisions in the demultiplexer); for rows with a parity error only the text (white space removed) is compared"],
        shards=(4, 16), technique="model-based property testing with an independent from-the-standard TS/PES/teletext encoder and a ground-truth page schedule (expected cues, timing, runs known by construction)",
        text="The stream is assembled by the harness, so which cues, times, lines, runs, colours and national characters must come out is known by construction; distractors of every kind named in the property are multiplexed in and must not contribute.",
        note="Trusted: the harness encoder and its national-option table; go-astits as demultiplexer (third party, outside the property).",
        design="5/C06"),
    "C13": P(
        "TestC13", "exploration",
        "case = reference graph (0..6 styles with parent chains up to depth 4 and shared parents, 0..3 regions with optional style, 0..4 cues with optional style / region, 1..2 runs with optional style, unused and shared definitions), built from the public types or obtained by parsing a TTML document rendered from the graph; 1 case in 5 checks RemoveStyling instead of Optimize. "
        "Non-trivial = >=1 cue and (a definition reachable only through inheritance or a region's style, or some definitions removed and some kept); distinct = hash of the case.",
        ["reachability closure computed by the harness from the model alone (cue -> style, run -> style, cue -> region -> style, style -> parent*)",
         "the write/re-read comparison uses the un-optimized list written the same way as reference (writers are pure: C19)"],
        shards=(4, 16), cli=True, technique="property-based testing against a reachability computation (model-based), identity / deep-snapshot oracle for the cues, idempotence, and a differential write->read of the optimized vs un-optimized list through all five writers; the sub-command of the CLI binary vs. the same step through the library (subprocess, byte-identical output or common failure)",
        text="Kept definitions must equal the reachability closure exactly (nothing reachable dropped, nothing unreachable kept), by pointer identity; cues compared with snapshots; second call is a no-op; the optimized list is written to all five formats and re-read.",
        note="Trusted: the 20-line closure in the harness, rapid.",
        design="5/C13"),
    "C16": P(
        "TestC16", "exploration",
        "case = (format in {srt, vtt, ttml, ssa, stl at 25 fps, stl at 30 fps}, batch of instants in ns; two instants per written cue). Enumerated: hour values {0,1,9,10,23,24,99} x unit-boundary pool, every second of the day +-1 ns, every frame boundary at 25/30 fps -1/+0/+1/+2 ns (one minute in quick, the day in thorough), the millisecond domain [0,24h) for the four text formats (every 997th ms in quick, every ms in thorough), k*10 ms +-1 ns (strided in quick); random batches at ns resolution up to 100 h (24 h for STL). "
        "Back-to-back batches (each cue starts where the one before ends): fixed steps in every format and under every STL display standard code (0, 1, 2, none), and one random batch in four. Every batch is non-trivial; distinct = hash of (format, first instant, last instant, length); the label 'instants' counts batches, notes give instant counts.",
        ["public API only: timing fields are cut out of the writer's output with the harness's own field grammar (two-digit minutes/seconds < 60, fraction of exactly 3 resp. 2 digits, frame < rate) and the same bytes are read back",
         "expected rendering = floor of the instant to the format's unit in integer arithmetic; STL read-back within 1 ns"],
        shards=(6, 16), timeout=(900, 7200), technique="exhaustive / strided enumeration of the instant domain plus rapid random batches, oracle = integer floor arithmetic + grammar + read-back + second-write byte identity + monotonicity",
        text="Rendering must equal the integer floor, match the grammar, be read back to that instant, be reproduced byte for byte by a second write and be monotone; the thorough tier enumerates the whole millisecond domain of a day for the four text formats and every frame boundary for STL.",
        note="Trusted: the harness's regular expressions for the timing fields and its integer arithmetic.",
        design="5/C16", exhaustive_note=True),
    "C17": P(
        "TestC17", "exploration",
        "case = (format, document bytes, delivery schedule = list of chunk sizes incl. zero-length reads, data-together-with-EOF flag, seekable flag for the transport-stream reader, reader options). Documents: the repository's test inputs, documents rendered from the C01-C06 models, CRLF-converted and truncated variants; random cases also cut / bit-flip them (invalid documents). "
        "Schedules: every single split point of every document <= 4-6 KiB (exhaustive, every 7th also with data+EOF), one-byte reads, halves, zero-length reads, 150 KB CRLF documents split at 4096/8192/65536/131072 +-2 and read in chunks of 4090..4100 bytes, random chunk lists drawn from sizes around 1, 128, 188, 1024, 4096. "
        "Standard-library readers are deliveries too: bytes.Buffer, bufio.Reader at its default size and with 16-, 100- and 1000-byte buffers, bytes.Reader / strings.Reader, a seekable reader positioned after other content. Documents in a single-byte encoding (a lone lead byte, a truncated two-byte form, a mix) are among the enumerated ones. Oracle: canonical dump of (result | ERROR | PANIC) equals the dump under the all-at-once schedule. Non-trivial = the split falls inside a CR LF pair, a multi-byte rune, an XML document, a 128/1024-byte block or a 188-byte packet (splits), every one-byte/buffer-boundary/random schedule on a non-empty document; distinct = hash of (document, schedule).",
        ["at most 3 consecutive zero-length reads (io.Reader discourages them; bufio gives up after 100)",
         "non-seekable transport-stream readers are compared with a non-seekable reference (the demultiplexer legitimately skips the packets it used for packet-size detection when it cannot rewind)"],
        shards=(6, 16), technique="differential testing over generated delivery schedules: harness-controlled io.Reader wrappers, exhaustive single-split enumeration, result compared with the reference schedule through a canonical pointer-following dump",
        text="Every split point of the listed documents is enumerated (complete for those documents), plus buffer-boundary schedules on large CRLF documents and random schedules over valid and invalid documents of all six readers.",
        note="Trusted: the schedule reader (30 lines) and the canonical dumper.",
        design="5/C17", exhaustive_note=True),
    "C18": P(
        "TestC18", "fault_enumeration",
        "read faults: case = (format, document the reader accepts, fault offset k, read granularity); the stream delivers bytes [0,k) then fails with a non-EOF error (again after every rewind); enumerated for every k in 0..len (TTML: up to the end of the root element) of the repository's test inputs and of documents rendered from the C01-C06 models, all-at-once and (every 5th k) byte-by-byte. "
        "write faults: case = (cue list obtained by reading a document, writer, fault offset k); the Write call crossing k fails with a partial count; enumerated for every k of the clean output plus one beyond (no fault: same bytes, nil). SRT / WebVTT / SSA documents with lines beginning with 0x1A, 0x04, 0x0C are part of the enumerated documents. long lines: one line of 2^16, 2^16+1, 70000, 2^17, 2^18 (thorough: 2^19, 2^20) bytes in SRT/WebVTT/SSA/TTML: error, or all 3 cues. files: OpenFile of a missing file and Write into a missing directory for every extension. random: offsets / writers / granularities on fresh generated documents. "
        "Oracle: a non-nil error in every faulted run. Every faulted run is non-trivial; distinct = hash of (document, k, granularity / writer).",
        ["faults are injected only into documents the reader accepts without fault, so a nil error can only mean the fault was swallowed",
         "for TTML, offsets after the end of the root element are out of scope (the decoder legitimately stops reading there)"],
        shards=(6, 16), cli=True, technique="fault injection with exhaustive enumeration of the fault offset: harness-controlled failing io.Reader / io.Writer, oracle = returned error must be non-nil; fault-free runs must hand over the complete output",
        text="For each listed document every byte offset is tried as the point of failure for all six readers, and for each (cue list, writer) pair every offset of the output for all five writers: complete for those documents; plus over-long lines and missing / uncreatable files.",
        note="Trusted: the failing reader / writer wrappers (40 lines).",
        design="5/C18", exhaustive_note=True),
    "C19": P(
        "TestC19", "exploration",
        "case = (heterogeneous cue list over the public types, permutation of the five writers); list = metadata mixing SSA / STL (dates present or not) / TTML / WebVTT fields, 0..6 styles with random subsets of the 23 SSA attributes, TTML attributes, WebVTT style lines and parent links, 0..3 regions, 1..5 cues with style / region references, cue settings, SSA event fields, STL justification / position, 1..3 lines of 1..3 runs carrying SRT flags, WebVTT tag stacks, TTML attributes, STL flags, SSA override blocks, inline timestamps. "
        "Per case: 50 in-process writes per format (alternating the same list and a freshly built one), the five writers in the drawn order, two different clock instants; a batch of the cases is re-written in 4 (thorough 8) fresh processes and compared by hash. Between two writes the process reads documents of every format (TTML under eleven xml:lang spellings, the repository samples); seven fixed lists in languages with and without a constant are written before anything else. Regions, styles, cues and runs without inline attributes (nil): eight fixed lists and one random list in four. Non-trivial = >=2 styles AND (SSA styles with different attribute sets OR WebVTT style lines over several styles); distinct = hash of the case.",
        ["a writer that returns an error must return the same error every time (compared as output)",
         "STL: bytes 224..236 of the GSI block (creation / revision date) may depend on the injectable clock when the metadata does not supply both dates; nothing else may"],
        shards=(4, 16), technique="metamorphic / differential property testing: repeated writes in-process and in fresh processes compared byte for byte, writer-order permutations, clock variation, canonical pointer-preserving dump of the input before/after every write",
        text="Determinism is decided by byte identity over repetitions (Go randomises map iteration per range statement, so in-process repetition exposes map-order dependence; fresh processes add new hash seeds); purity by comparing a canonical dump of the whole list, aliasing included, around every write.",
        note="Trusted: the canonical dumper, sha256.",
        design="5/C19"),
    "C08": P(
        "TestC08", "exploration",
        "readers: case = (format or the extension-dispatching opener, bytes, reader options); bytes = structure-aware mutations of documents rendered from the C01-C06 models: line delete / duplicate / swap / hostile-constant replace and insert / token-boundary truncation / document truncation / splice / EOL change (text formats), hostile TTML documents and attribute corruption, GSI/TTI field corruption and odd sizes (STL), transport streams whose packet and table layer is valid while PES payloads, data units and teletext packets are malformed (X/26-X/31 of the selected magazine, M/29 before any header, tiny payloads, wrong unit lengths, rows before headers, unknown data identifiers, junk after valid units, bit flips, reserved national option, repeated rows, non-PES payloads, streams without PAT/PMT or without teletext stream, PES without PTS), plus byte-level flips / inserts / deletes / truncations. "
        "writers: case = (writer, hostile cue list): every optional part nil in any combination (metadata, maps, inline styles of cues / runs / styles / regions), definitions referenced but absent from the maps, empty lines / runs / texts, leading combining marks, controls, NUL, line terminators, non-BMP runes, 100 kB runs, TTML indent options. thorough: Go native coverage-guided fuzzing of the six readers (FuzzSRT/VTT/SSA/TTML/STL/TS, seeded with the repository inputs, rendered models and the hostile constants). "
        "Oracle: recover() in a watchdog goroutine: no panic, return within 5 s + 50 us/byte (three attempts). Non-trivial = non-empty input (readers), >=1 absent optional part (writers); distinct = hash of the input.",
        ["a panic whose innermost non-runtime frame (helper library astikit skipped) lies in go-astits is the third-party demultiplexer's own crash: excluded and counted, as the property states",
         "map keys equal the definition's ID and Items holds no nil pointer (those are not optional parts)",
         "a time-limit hit is re-run twice before it is reported"],
        shards=(6, 16), timeout=(900, 7200), technique="structure-aware mutation fuzzing driven by rapid (shrinking to a minimal crashing document / cue list) plus Go native coverage-guided fuzzing in the thorough tier; oracle = no panic (recover) and bounded time (watchdog)",
        text="Mutations keep enough structure to reach the parsers' inner logic (the table layer of transport streams stays valid, text documents stay line-structured); every crash is shrunk and saved as a self-contained replay. Absence of crashes is not established.",
        note="Trusted: stack-based attribution of third-party crashes; the watchdog limit.",
        design="5/C08", fuzz={"targets": ["FuzzSRT", "FuzzVTT", "FuzzSSA", "FuzzTTML", "FuzzSTL", "FuzzTS"], "seconds": 100}),
    "C20": P(
        "TestC20", "exploration",
        "case = (multiset of 4..64 independent operations built from 2..8 distinct ones, 2..32 goroutines, release order, 1..2 rounds); operation = one of the 6 readers on a document rendered from the C01-C06 models (teletext pages with different national options included), one of the 5 writers on a heterogeneous cue list, or a transformation (add, fragment, unfragment, order, merge, optimize, remove styling, force duration, linear correction) on its own list; every call builds its own inputs. The test binary is built with -race; shards run with GOMAXPROCS 2, 4, 16. "
        "A fixed cold-start case reads STL files using one row under different numbers of displayable rows (line percentage known by construction), sequentially in both directions and concurrently. Oracle: every call's canonical result equals its sequential result, and the race detector stays silent (a report fails the process; the driver turns it into a violation with the detector's report as replay). Non-trivial = >=2 distinct kinds of operation in the multiset; distinct = hash of the case.",
        ["schedules are explored by repetition under the race detector, not enumerated: a race needing a window of a few instructions may survive many runs (the detector flags unsynchronised access even when results agree)",
         "the injectable clock astisub.Now is set before the goroutines start and not touched while they run"],
        shards=(4, 16), timeout=(1200, 7200), race=True, gomaxprocs=[2, 4, 16, 16],
        technique="randomised concurrent execution of generated operation multisets under the Go race detector, differential against the sequential run",
        text="Concurrency errors in package-level state (character tables, language maps, escapers, regexps) would show either as a race report or as a result differing from the sequential one; absence of races is not established.",
        note="Trusted: the Go race detector, the canonical dumper.",
        design="5/C20"),
    "C07": P(
        "TestC07", "exploration",
        "case = (source format in {srt,ssa,ass,stl,ttml,vtt,ts}, source document rendered from the C01-C06 models with portable text and start <= end, random-case extensions, optional second document for merge, operation sequence of length 0..4 over {sync d, fragment f, unfragment, merge, optimize, order, linear correction (last)}, destination format in {srt,ssa,ass,stl,ttml,vtt}, entry point). "
        "Library: Open -> operations in memory -> Write -> Open, compared with the source-as-read run through the composed executable specifications of the operations and truncated to the destination resolution (ms / cs / frame at the destination rate plus programme start): same count, order, boundaries (1 unit of tolerance only after a linear correction) and text with white space removed. CLI: the same single step (convert or one sub-command) must produce byte-identical files (STL date bytes masked); chains of 2..4 sub-commands through intermediate files are compared step by step with the library doing the same. All 42 pairs are also run deterministically (matrix); unsupported extensions must give ErrInvalidExtension from Open and Write and a non-zero CLI exit; an empty result must give ErrNoSubtitlesToWrite. "
        "Fixed SubRip / WebVTT documents whose text lines begin like a block keyword of another dialect go to every destination. Non-trivial = source and destination formats differ or >=1 operation; distinct = hash of the case.",
        ["the readers are vouched for by C01-C06: the expectation starts from the source as read",
         "cases whose text is not representable in the destination (predicate per destination: no '-->' / block keywords for SRT/WebVTT, no braces / \\N for SSA, Latin repertoire without '$' and <= 112 bytes for STL, XML-legal characters) or whose times become negative are outside the precondition: skipped and counted",
         "known finding: text written to STL under a teletext display standard (the default without STL metadata) is lost: for that class only the text comparison is skipped, count / order / boundaries are still checked"],
        shards=(4, 16), cli=True, technique="end-to-end differential and model-based property testing: composed executable specifications on the source-as-read vs. the destination re-read; CLI binary vs. library byte for byte (subprocess)",
        text="Conversion is checked against the composition of the operation specifications already used by C09-C15, over all 42 format pairs and generated operation sequences, through both entry points.",
        note="Trusted: the readers (C01-C06), the specifications, the representability predicates.",
        design="5/C07", exhaustive_note=True),
}

# Properties deliberately not claimed (reason each); anything else missing from PROPS is work in progress.
NOT_APPLICABLE = {}

# Commits in /repo that add build-tag-guarded hooks (none needed).
HOOK_COMMITS = []

"""Per-property configuration used by verifctl.py and genmanifest.py."""

COMMON_ASSUME = [
    "the harness is built against /repo's current working tree through a go.mod replace directive (public API only, no hooks)",
    "Go toolchain go1.23.5 and pgregory.net/rapid v1.3.0 behave as documented; every random choice is drawn from rapid generators seeded from VERIF_SEED",
]


def P(test, level, rule, assumptions, shards=(4, 16), timeout=(900, 5400), technique="", text="", note="", design="", **kw):
    d = dict(test=test, level=level, rule=rule, assumptions=COMMON_ASSUME + assumptions,
             shards={"quick": shards[0], "thorough": shards[1]},
             timeout={"quick": timeout[0], "thorough": timeout[1]},
             technique=technique, text=text, note=note, design=design)
    d.update(kw)
    return d


PROPS = {
    "C09": P(
        "TestC09", "exploration",
        "cases = (cue list, shift d, spare slice capacity); exhaustive grid: every list of <=3 cues with 0<=s<=e<=4 ms x d in -6..3 ms; "
        "random: rapid lists of 0..8 cues (ns and ms granularity, up to 24 h) with d biased to cue boundaries +-1ns. "
        "Non-trivial = at least one cue removed or clamped; distinct = hash of (list, d, capacity).",
        ["the executable specification of Add in c09_test.go is a faithful transcription of property C09 (start<=end precondition as stated)"],
        shards=(2, 16), technique="property-based testing against an executable specification (exhaustive small grid + rapid random cases), pointer identity and deep content snapshots",
        text="Every (list,d) on the small grid is enumerated and compared with a from-the-statement specification, then random lists at ns/ms granularity; a green run means no counterexample in that space, the grid part is complete.",
        note="Trusted: the 25-line specification in the harness, Go reflect.DeepEqual, rapid.",
        design="5/C09", exhaustive_note=True),
}

# Properties deliberately not claimed (reason each); anything else missing from PROPS is work in progress.
NOT_APPLICABLE = {}

# Commits in /repo that add build-tag-guarded hooks (none needed).
HOOK_COMMITS = []

#!/usr/bin/env python3
"""Driver of the go-astisub property checks.

  ./check CNN [--tier quick|thorough] [--replay FILE]
  ./check build          build the test binaries only (setup)
  ./check list

Exit status: 0 property held on everything explored (known findings are printed
as KNOWN-FINDING lines), 1 violation (line "VIOLATION property=<id> replay=<path>"),
2 inconclusive / infrastructure (build failure, timeout, worker death).
"""
import fcntl
import hashlib
import json
import os
import shutil
import struct
import subprocess
import sys
import time

ROOT = os.path.dirname(os.path.dirname(os.path.abspath(__file__)))
HARNESS = os.path.join(ROOT, "harness")
BUILD = os.path.join(ROOT, ".build")
NCPU = os.cpu_count() or 4
HARNESS_USED = HARNESS

sys.path.insert(0, os.path.dirname(os.path.abspath(__file__)))
from props import PROPS  # noqa: E402


def goenv():
    e = dict(os.environ)
    e.update({
        "GOFLAGS": "-mod=mod",
        "GOPROXY": "off",
        "GOSUMDB": "off",
        "GOTOOLCHAIN": "local",
        "CGO_ENABLED": e.get("CGO_ENABLED", "1"),
    })
    return e


def log(*a):
    print(*a, flush=True)


REPO = os.path.abspath(os.environ.get("VERIF_REPO", "/repo"))


def harness_dir():
    """The harness module; for VERIF_REPO != /repo (scratch worktrees used to evaluate seeded changes) a copy whose
    replace directive points at that tree."""
    if REPO == "/repo":
        return HARNESS, ""
    tag = hashlib.sha1(REPO.encode()).hexdigest()[:8]
    d = os.path.join(BUILD, "alt-" + tag)
    shutil.rmtree(d, ignore_errors=True)
    shutil.copytree(HARNESS, d, ignore=shutil.ignore_patterns("testdata"))
    gm = os.path.join(d, "go.mod")
    with open(gm) as f:
        txt = f.read()
    with open(gm, "w") as f:
        f.write(txt.replace("=> /repo", "=> " + REPO))
    return d, "-" + tag


def build(race=False, cli=False):
    """(Re)build the test binary against /repo's current working tree."""
    os.makedirs(BUILD, exist_ok=True)
    global HARNESS_USED
    hdir, tag = harness_dir()
    HARNESS_USED = hdir
    out = os.path.join(BUILD, ("props.race.test" if race else "props.test") + tag)
    with open(os.path.join(BUILD, "lock"), "w") as lk:
        fcntl.flock(lk, fcntl.LOCK_EX)
        # go.sum of the harness must know the repo's dependencies
        cmd = ["go", "test", "-c", "-tags", "verif", "-o", out + ".tmp"]
        if race:
            cmd.append("-race")
        cmd.append("./props")
        r = subprocess.run(cmd, cwd=hdir, env=goenv(), stdout=subprocess.PIPE, stderr=subprocess.STDOUT, text=True)
        if r.returncode != 0:
            log("BUILD FAILED:\n" + r.stdout)
            return None, None
        os.replace(out + ".tmp", out)
        cli_out = None
        if cli:
            cli_out = os.path.join(BUILD, "astisub-cli" + tag)
            r = subprocess.run(["go", "build", "-tags", "verif", "-o", cli_out + ".tmp", "github.com/asticode/go-astisub/astisub"],
                               cwd=hdir, env=goenv(), stdout=subprocess.PIPE, stderr=subprocess.STDOUT, text=True)
            if r.returncode != 0:
                log("CLI BUILD FAILED:\n" + r.stdout)
                return None, None
            os.replace(cli_out + ".tmp", cli_out)
    return out, cli_out


def read_hashes(path):
    try:
        with open(path, "rb") as f:
            b = f.read()
    except OSError:
        return set()
    n = len(b) // 8
    return set(struct.unpack("<%dQ" % n, b[: 8 * n]))


def run_check(pid, tier, seed):
    p = PROPS[pid]
    t0 = time.time()
    race = p.get("race", False)
    binary, cli = build(race=race, cli=p.get("cli", False))
    ev_path = os.path.join(ROOT, "evidence", pid + ".json")
    if REPO != "/repo":
        # evaluating a scratch tree (seeded change): never overwrite the evidence of /repo
        ev_path = os.path.join(BUILD, "alt-evidence", pid + ".json")
    os.makedirs(os.path.dirname(ev_path), exist_ok=True)
    if binary is None:
        log("INCONCLUSIVE property=%s build failed" % pid)
        return 2
    shards = p["shards"][tier]
    shards = max(1, min(shards, NCPU))
    timeout = p["timeout"][tier]
    rundir = os.path.join(BUILD, "run-%s-%d" % (pid, os.getpid()))
    shutil.rmtree(rundir, ignore_errors=True)
    os.makedirs(rundir)
    procs = []
    for i in range(shards):
        e = goenv()
        e.update({
            "VERIF_TIER": tier,
            "VERIF_SEED": str(seed),
            "VERIF_SHARD": "%d/%d" % (i, shards),
            "VERIF_FRAG": os.path.join(rundir, "frag%d" % i),
            "VERIF_REPLAY_OUT": os.path.join(rundir, "replay%d.json" % i),
            "VERIF_ROOT": ROOT,
            "VERIF_REPO": REPO,
            "VERIF_TMP": os.path.join(rundir, "tmp%d" % i),
            "TMPDIR": os.path.join(rundir, "tmp%d" % i),
        })
        if "gomaxprocs" in p:
            e["GOMAXPROCS"] = str(p["gomaxprocs"][i % len(p["gomaxprocs"])])
        if cli:
            e["VERIF_CLI"] = cli
        if race:
            e["GORACE"] = "halt_on_error=1 exitcode=66 log_path=" + os.path.join(rundir, "race%d" % i)
        os.makedirs(e["TMPDIR"], exist_ok=True)
        e.pop("VERIF_REPLAY", None)
        out = open(os.path.join(rundir, "out%d.txt" % i), "w")
        cmd = [binary, "-test.run", "^%s$" % p["test"], "-test.timeout", "0", "-test.count", "1"]
        procs.append((subprocess.Popen(cmd, cwd=os.path.join(HARNESS_USED, "props"), env=e, stdout=out, stderr=subprocess.STDOUT), out))
    deadline = t0 + timeout
    timed_out = False
    codes = []
    for pr, out in procs:
        remain = max(1, deadline - time.time())
        try:
            codes.append(pr.wait(timeout=remain))
        except subprocess.TimeoutExpired:
            timed_out = True
            pr.kill()
            pr.wait()
            codes.append(-9)
        out.close()

    # gather
    outs = []
    for i in range(shards):
        with open(os.path.join(rundir, "out%d.txt" % i), errors="replace") as f:
            outs.append(f.read())
    known_lines = []
    for o in outs:
        for line in o.splitlines():
            if line.startswith("KNOWN-FINDING:") and line not in known_lines:
                known_lines.append(line)
    for line in known_lines:
        log(line)

    evaluations = 0
    hashes = set()
    labels, excluded, notes, requested, executed = {}, {}, {}, {}, {}
    samples = []
    capped = False
    for i in range(shards):
        fp = os.path.join(rundir, "frag%d.json" % i)
        if not os.path.exists(fp):
            continue
        with open(fp) as f:
            fr = json.load(f)
        evaluations += fr.get("evaluations", 0)
        for k, v in (fr.get("labels") or {}).items():
            labels[k] = labels.get(k, 0) + v
        for k, v in (fr.get("excluded") or {}).items():
            excluded[k] = excluded.get(k, 0) + v
        for k, v in (fr.get("requested") or {}).items():
            requested[k] = requested.get(k, 0) + v
        for k, v in (fr.get("executed") or {}).items():
            executed[k] = executed.get(k, 0) + v
        notes.update(fr.get("notes") or {})
        capped = capped or fr.get("hashes_capped", False)
        if i < 4:
            samples.extend((fr.get("samples") or [])[:6])
        hashes |= read_hashes(os.path.join(rundir, "frag%d.hashes" % i))

    violations = []
    status = 0
    for i, c in enumerate(codes):
        if c == 0:
            continue
        rp = os.path.join(rundir, "replay%d.json" % i)
        racelogs = [x for x in os.listdir(rundir) if x.startswith("race%d" % i)]
        if os.path.exists(rp):
            with open(rp, "rb") as f:
                data = f.read()
            h = hashlib.sha1(data).hexdigest()[:12]
            dst = os.path.join(ROOT, "replays", "%s-%s.json" % (pid, h))
            os.makedirs(os.path.dirname(dst), exist_ok=True)
            with open(dst, "wb") as f:
                f.write(data)
            violations.append(dst)
        elif racelogs or c == 66:
            # data race reported by the race detector: the history is the replay
            dst = os.path.join(ROOT, "replays", "%s-race-%d-%d.txt" % (pid, seed, i))
            os.makedirs(os.path.dirname(dst), exist_ok=True)
            with open(dst, "w") as f:
                for rl in racelogs:
                    with open(os.path.join(rundir, rl), errors="replace") as g:
                        f.write(g.read())
                f.write("\n--- test output ---\n" + outs[i][-20000:])
            violations.append(dst)
        else:
            status = 2
            log("---- shard %d exit %s, no replay file; output tail:" % (i, c))
            log(outs[i][-4000:])
    # native coverage-guided fuzzing (thorough tier only; the saved crasher is the reproducible unit)
    fuzz = p.get("fuzz")
    fuzz_stats = {}
    if fuzz and tier == "thorough" and not violations and status == 0:
        fdir = os.path.join(HARNESS_USED, "props", "testdata", "fuzz")
        for target in fuzz["targets"]:
            shutil.rmtree(os.path.join(fdir, target), ignore_errors=True)
            rp = os.path.join(rundir, "replay-%s.json" % target)
            e = goenv()
            e.update({"VERIF_ROOT": ROOT, "VERIF_REPLAY_OUT": rp, "VERIF_REPO": REPO, "TMPDIR": os.path.join(rundir, "tmp0")})
            e.pop("VERIF_FRAG", None)
            cmd = ["go", "test", "./props", "-run", "^$", "-fuzz", "^%s$" % target, "-fuzztime", "%ds" % fuzz["seconds"], "-tags", "verif"]
            try:
                r = subprocess.run(cmd, cwd=HARNESS_USED, env=e, stdout=subprocess.PIPE, stderr=subprocess.STDOUT, text=True, timeout=fuzz["seconds"] * 3 + 300)
                out, rc = r.stdout, r.returncode
            except subprocess.TimeoutExpired as ex:
                out, rc = (ex.stdout or b"").decode(errors="replace") if isinstance(ex.stdout, bytes) else (ex.stdout or ""), -9
            execs = 0
            for line in out.splitlines():
                if "execs:" in line:
                    try:
                        execs = int(line.split("execs:")[1].split()[0])
                    except ValueError:
                        pass
            fuzz_stats[target] = {"execs": execs, "seconds": fuzz["seconds"], "exit": rc}
            evaluations += execs
            if rc == 0:
                continue
            if os.path.exists(rp):
                with open(rp, "rb") as f:
                    data = f.read()
                h = hashlib.sha1(data).hexdigest()[:12]
                dst = os.path.join(ROOT, "replays", "%s-%s.json" % (pid, h))
                os.makedirs(os.path.dirname(dst), exist_ok=True)
                with open(dst, "wb") as f:
                    f.write(data)
                violations.append(dst)
            elif rc == -9:
                status = 2
                log("INCONCLUSIVE property=%s: fuzz target %s exceeded its time budget" % (pid, target))
            else:
                status = 2
                log("---- fuzz target %s failed without a replay file:" % target)
                log(out[-3000:])
            shutil.rmtree(os.path.join(fdir, target), ignore_errors=True)
    short = {k: (executed.get(k, 0), v) for k, v in requested.items() if executed.get(k, 0) < v}
    if timed_out:
        status = 2
        log("INCONCLUSIVE property=%s: time budget of %ds exceeded" % (pid, timeout))
    if short and not violations and status == 0:
        status = 2
        log("INCONCLUSIVE property=%s: fewer cases executed than requested: %s" % (pid, short))

    wall = time.time() - t0
    cov = {
        "evaluations": int(evaluations),
        "distinct_nontrivial": len(hashes),
        "rule": p["rule"],
        "samples": samples[:16] if samples else [],
        "labels": labels,
        "excluded_by_construction": excluded,
        "requested_cases": requested,
        "executed_cases": executed,
        "shards": shards,
        "notes": notes,
        "known_findings_reported": known_lines,
        "distinct_count_capped": capped,
    }
    if fuzz_stats:
        cov["native_fuzz"] = fuzz_stats
    if p.get("exhaustive_note") and notes:
        ex = [v for k, v in sorted(notes.items()) if k.startswith("exhaustive")]
        if ex and not violations and status == 0:
            cov["exhaustive"] = True
            cov["explanation"] = "finite sub-spaces enumerated completely: " + "; ".join(ex) + ". Random generation beyond them is not exhaustive."
    evd = {
        "property_id": pid,
        "tier": tier,
        "seed": int(seed),
        "level": p["level"],
        "coverage": cov,
        "assumptions": p["assumptions"],
        "wall_s": round(wall, 2),
        "violations": len(violations),
    }
    if status == 2 and not violations:
        evd["coverage"]["inconclusive"] = True
    with open(ev_path + ".tmp", "w") as f:
        json.dump(evd, f, indent=1, ensure_ascii=False, default=str)
    os.replace(ev_path + ".tmp", ev_path)
    shutil.rmtree(rundir, ignore_errors=True)

    if violations:
        for v in violations:
            log("VIOLATION property=%s replay=%s" % (pid, v))
            try:
                if v.endswith(".json"):
                    with open(v) as f:
                        log("  " + json.load(f).get("message", "")[:1500])
            except Exception:
                pass
        return 1
    if status == 0:
        log("OK property=%s tier=%s seed=%s evaluations=%d distinct_nontrivial=%d wall=%.1fs" % (pid, tier, seed, evaluations, len(hashes), wall))
    return status


def run_replay(pid, path):
    p = PROPS[pid]
    if path.endswith(".txt"):
        log("race-detector histories are not re-executable; re-run the check with the same VERIF_SEED")
        return 2
    binary, cli = build(race=p.get("race", False), cli=p.get("cli", False))
    if binary is None:
        return 2
    e = goenv()
    e.update({"VERIF_REPLAY": os.path.abspath(path), "VERIF_ROOT": ROOT})
    if cli:
        e["VERIF_CLI"] = cli
    tmp = os.path.join(BUILD, "replay-tmp-%d" % os.getpid())
    os.makedirs(tmp, exist_ok=True)
    e["TMPDIR"] = tmp
    e["VERIF_REPO"] = REPO
    r = subprocess.run([binary, "-test.run", "^TestReplay$", "-test.count", "1", "-test.v"], cwd=os.path.join(HARNESS_USED, "props"), env=e,
                       stdout=subprocess.PIPE, stderr=subprocess.STDOUT, text=True, timeout=600)
    shutil.rmtree(tmp, ignore_errors=True)
    if r.returncode == 0:
        log("replay passes: the property holds on this case")
        return 0
    log(r.stdout[-6000:])
    log("VIOLATION property=%s replay=%s" % (pid, os.path.abspath(path)))
    return 1


def main(argv):
    if not argv or argv[0] in ("-h", "--help"):
        log(__doc__)
        return 2
    if argv[0] == "list":
        for k in sorted(PROPS):
            log(k, PROPS[k]["test"])
        return 0
    if argv[0] == "build":
        ok1, _ = build(race=False, cli=True)
        ok2, _ = build(race=True)
        return 0 if ok1 and ok2 else 2
    pid = argv[0]
    if pid not in PROPS:
        log("unknown property", pid)
        return 2
    tier = os.environ.get("VERIF_TIER", "quick")
    replay = None
    i = 1
    while i < len(argv):
        if argv[i] == "--tier":
            tier = argv[i + 1]
            i += 2
        elif argv[i] == "--replay":
            replay = argv[i + 1]
            i += 2
        else:
            log("unknown argument", argv[i])
            return 2
    if tier not in ("quick", "thorough"):
        tier = "quick"
    try:
        seed = int(os.environ.get("VERIF_SEED", "1"))
    except ValueError:
        seed = 1
    if seed == 0:
        seed = 1
    if replay:
        return run_replay(pid, replay)
    return run_check(pid, tier, seed)


if __name__ == "__main__":
    sys.exit(main(sys.argv[1:]))

#!/usr/bin/env python3
"""Runs every seeded change under /verif/seeded through its property's check (scratch worktree, quick tier),
records the outcome in seeded/<name>/meta.json and rewrites seeded/RESULTS.md. Exit 1 if any is missed."""
import json, os, re, subprocess, sys
ROOT = os.path.dirname(os.path.dirname(os.path.abspath(__file__)))
SD = os.path.join(ROOT, "seeded")
only = sys.argv[1:]
rows, missed = [], 0
from concurrent.futures import ThreadPoolExecutor
names = [n for n in sorted(os.listdir(SD)) if os.path.isdir(os.path.join(SD, n))]
JOBS = int(os.environ.get("SELFTEST_JOBS", "4"))


def one(name):
    d = os.path.join(SD, name)
    pid = name.split("-")[0]
    mp = os.path.join(d, "meta.json")
    meta = json.load(open(mp)) if os.path.exists(mp) else {}
    am = {}
    if os.path.exists(os.path.join(d, "agent_meta.json")):
        try:
            am = json.load(open(os.path.join(d, "agent_meta.json")))
        except Exception:
            am = {}
    meta.setdefault("property", pid)
    meta.setdefault("origin", "independent sub-agent given only the property text and a scratch worktree")
    meta.setdefault("summary", am.get("summary", ""))
    meta.setdefault("needs_to_manifest", am.get("needs_to_manifest", ""))
    meta.setdefault("files_changed", am.get("files_changed", []))
    meta.setdefault("confirmed", "driver/seedimport.sh: clean tree - existing suite and demo pass; patched tree - go build ./... ok, existing suite (go test -vet=off -count=1 ./...) passes, demo fails")
    if not only or name in only or pid in only:
        r = subprocess.run([os.path.join(ROOT, "driver", "seedcheck.sh"), pid, os.path.join(d, "patch.diff")], stdout=subprocess.PIPE, stderr=subprocess.STDOUT, text=True)
        out = r.stdout
        msg = ""
        m = re.search(r"VIOLATION property=\S+ replay=\S+\n\s+(.*)", out)
        if m:
            msg = m.group(1)[:300]
        meta["check_run"] = "driver/seedcheck.sh %s seeded/%s/patch.diff (quick tier, VERIF_SEED=1, scratch worktree of /repo HEAD)" % (pid, name)
        meta["check_exit"] = r.returncode
        meta["caught"] = r.returncode == 1
        meta["check_message"] = msg
        print(("caught " if r.returncode == 1 else "MISSED(exit %d) " % r.returncode) + name, flush=True)
    json.dump(meta, open(mp, "w"), indent=1, ensure_ascii=False)
    return name, pid, meta


with ThreadPoolExecutor(max_workers=JOBS) as ex:
    results = list(ex.map(one, names))
for name, pid, meta in results:
    if not meta.get("caught"):
        missed += 1
    rows.append("| %s | %s | %s | %s | %s |" % (pid, name, (meta.get("summary") or "").replace("|", "/")[:220], (meta.get("needs_to_manifest") or "").replace("|", "/")[:200],
                ("caught by ./check %s (quick)" % pid if meta.get("caught") else "MISSED") + ((" - first missed, check strengthened: " + meta["strengthened"]) if meta.get("strengthened") else "") + ((" - " + meta["not_strengthened"]) if meta.get("not_strengthened") and not meta.get("caught") else "")))
with open(os.path.join(SD, "RESULTS.md"), "w") as f:
    f.write("# Seeded changes and the checks that catch them\n\n| property | seeded change | what it does | what it needs to manifest | outcome |\n|---|---|---|---|---|\n" + "\n".join(rows) + "\n")
sys.exit(1 if missed else 0)

#!/bin/bash
# seedimport.sh <property id> <agent seed dir> <k> <name>
# Confirms a seeded change produced by a sub-agent in a fresh scratch worktree (clean tree: suite + demo pass;
# patched tree: builds, suite passes, demo fails) and, if confirmed, stores it under /verif/seeded/<name>/.
set -u
PID=$1; SRC=$2; K=$3; NAME=$4
export GOFLAGS=-mod=mod GOPROXY=off GOSUMDB=off GOTOOLCHAIN=local
W=$(mktemp -d /tmp/seedconfirm.XXXXXX); rmdir "$W"
git -C /repo worktree add -q --detach "$W" HEAD || exit 2
cleanup() { git -C /repo worktree remove --force "$W"; }
DEMO=$SRC/demo${K}_test.go; PATCH=$SRC/patch${K}.diff; META=$SRC/meta${K}.json
if [ -f "$SRC/${PID}_patch${K}.diff" ]; then DEMO=$SRC/${PID}_demo${K}_test.go; PATCH=$SRC/${PID}_patch${K}.diff; META=$SRC/${PID}_meta${K}.json; fi
RACE=""; if [ "$PID" = "C20" ]; then RACE="-race"; fi
cp "$DEMO" "$W/zz_seed_demo_test.go"
if ! (cd "$W" && go test $RACE -vet=off -count=1 . >/tmp/seedconfirm.clean.log 2>&1); then echo "NOT CONFIRMED: clean tree: suite+demo do not pass"; tail -5 /tmp/seedconfirm.clean.log; cleanup; exit 1; fi
rm "$W/zz_seed_demo_test.go"
if ! git -C "$W" apply "$PATCH"; then echo "NOT CONFIRMED: patch does not apply"; cleanup; exit 1; fi
if ! (cd "$W" && go build ./... && go test -vet=off -count=1 ./... >/tmp/seedconfirm.suite.log 2>&1); then echo "NOT CONFIRMED: patched tree: build or existing suite fails"; tail -5 /tmp/seedconfirm.suite.log; cleanup; exit 1; fi
cp "$DEMO" "$W/zz_seed_demo_test.go"
if (cd "$W" && go test $RACE -vet=off -count=1 . >/tmp/seedconfirm.demo.log 2>&1); then echo "NOT CONFIRMED: demo passes on the patched tree"; cleanup; exit 1; fi
cleanup
D=/verif/seeded/$NAME; mkdir -p "$D"
cp "$PATCH" "$D/patch.diff"; cp "$DEMO" "$D/demo_test.go.txt"; cp "$META" "$D/agent_meta.json"
echo "CONFIRMED $NAME"
